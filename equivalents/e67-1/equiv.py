"""Equivalence check for refactoring 1 (`ceos_alos2.decoders.decode_filename`).

Run as::

    cd /tmp/wt8/e67 && PYTHONPATH=/tmp/wt8/e67 /venv/bin/python _eq/1/equiv.py

The table ``EXPECTED`` was recorded from the unchanged code (``--record`` prints it);
the script has to pass with and without ``patch.diff`` applied.
"""

import itertools
import sys

from ceos_alos2 import decoders


def describe_exception(e):
    cause = e.__cause__
    return (
        "raises",
        type(e).__name__,
        str(e),
        None if cause is None else (type(cause).__name__, str(cause)),
        e.__suppress_context__,
    )


def call(func, *args):
    try:
        result = func(*args)
    except Exception as e:  # noqa: BLE001
        return describe_exception(e)

    # the repr of a dict records the order of the keys and the types of the values
    return ("returns", type(result).__name__, repr(result))


modes = list(decoders.observation_modes) + ["XXX", "AB1"]
directions = ["L", "R", "X"]
levels = ["1.0", "1.1", "1.5", "3.1", "2.1", "1_5"]
options = ["G", "R", "_", "X"]
projections = ["U", "P", "M", "L", "_", "X"]
orbits = ["A", "D", "X"]

product_ids = [
    "".join(parts)
    for parts in itertools.chain(
        itertools.product(modes, ["R"], ["1.1"], ["_"], ["_"], ["D"]),
        itertools.product(["WWD"], directions, levels, ["G"], ["U"], ["A"]),
        itertools.product(["FBS"], ["L"], ["1.5"], options, projections, orbits),
    )
]
scene_ids = [
    "ALOS2225333200-180726",
    "ALOS2000010000-000101",
    "ALOS2999999999-991231",
    "ABC12225333200-200229",
    "ALOS2225333200-180732",  # impossible day
    "ALOS2225333200-181301",  # impossible month
    "ALOS2225333200-190229",  # not a leap year
    "ALOS2225333200-000000",
    "alos2225333200-180726",
    "ALOS222533320-180726",
    "ALOS22253332000-18072",
]
scan_infos = [None, "B4", "F1", "B0", "F9", "X1", "B", "BB", "B12", ""]
prefixes = ["IMG-HH", "IMG-HV", "IMG-VH", "IMG-VV", "IMG", "LED", "TRL", "VOL", "IMG-HX", "img-HH", "IMAG", "IMG-H"]


def filenames():
    # every prefix / scan info with a fixed valid middle part
    for prefix, scan in itertools.product(prefixes, scan_infos):
        parts = [prefix, "ALOS2225333200-180726", "WWDR1.1__D"]
        if scan is not None:
            parts.append(scan)
        yield "-".join(parts)
    # every scene id
    for scene_id, scan in itertools.product(scene_ids, [None, "F2"]):
        parts = ["IMG-HH", scene_id, "HBQR1.5GUA"]
        if scan is not None:
            parts.append(scan)
        yield "-".join(parts)
    # every product id
    for product_id in product_ids:
        yield f"LED-ALOS2225333200-180726-{product_id}"
        yield f"IMG-VV-ALOS2225333200-180726-{product_id}-B3"
    # broken layouts
    yield from [
        "",
        "-",
        "IMG",
        "IMG-HH",
        "IMG-HH-ALOS2225333200-180726",
        "IMG-HH-ALOS2225333200-180726-WWDR1.1__D-",
        "IMG-HH-ALOS2225333200-180726-WWDR1.1__D-B4-",
        "IMG-HH-ALOS2225333200-180726-WWDR1.1__D-B4\n",
        " IMG-HH-ALOS2225333200-180726-WWDR1.1__D-B4",
        "IMG-HH-ALOS2225333200-180726-WWDR1.1__D.B4",
        "IMG-HH--ALOS2225333200-180726-WWDR1.1__D",
        "IMG-HH-ALOS2225333200-180726-WWDR1.1__D-B4/IMG-HH-ALOS2225333200-180726-WWDR1.1__D-B4",
        "IMG-HH-ALOS2225333200-180726-WWDR1.1__DD",
        "IMG-HH-ALOS2225333200-180726-WWDR1.1_D",
        "IMG-HH-ALOS2225333200-180726-__________",
        "IMG-HH-ALOS2225333200-180726-..........",
    ]


other_inputs = [None, 5, 1.5, b"IMG-HH-ALOS2225333200-180726-WWDR1.1__D-B4", ["IMG"], ("IMG",), {}]


class Name(str):
    """str subclass: the regex accepts it, the messages format it"""

    def __format__(self, spec):
        return "<formatted>"

    def __str__(self):
        return "<str>"


def patched_runs():
    """replace the decoders of the parts by recording stand-ins (looked up at call time)"""
    results = []
    variants = {
        "dicts": (
            lambda v: {"scene": v, "shared": "scene"},
            lambda v: {"product": v, "shared": "product", "filetype": "overridden"},
            lambda v: {"scan": v, "scene": "overridden"},
        ),
        "scalar-scene": (lambda v: v, lambda v: {"b": 1, "a": 2}, lambda v: {}),
        "all-scalar": (lambda v: 1, lambda v: (2,), lambda v: None),
        "dict-subclass": (
            lambda v: type("D", (dict,), {})(x=1),
            lambda v: {"x": 2, "y": 3},
            lambda v: [("z", 1)],
        ),
        "failing-product": (
            lambda v: {"scene": v},
            lambda v: (_ for _ in ()).throw(KeyError("product")),
            lambda v: (_ for _ in ()).throw(RuntimeError("not reached")),
        ),
    }
    originals = (decoders.decode_scene_id, decoders.decode_product_id, decoders.decode_scan_info)
    for label, funcs in variants.items():
        calls = []

        def recorder(kind, f):
            def wrapper(value):
                calls.append((kind, value))
                return f(value)

            return wrapper

        decoders.decode_scene_id = recorder("scene_id", funcs[0])
        decoders.decode_product_id = recorder("product_id", funcs[1])
        decoders.decode_scan_info = recorder("scan_info", funcs[2])
        try:
            for fname in [
                "IMG-HH-ALOS2225333200-180726-WWDR1.1__D-B4",
                "LED-ALOS2225333200-180726-WWDR1.1__D",
            ]:
                del calls[:]
                outcome = call(decoders.decode_filename, fname)
                results.append((label, fname, outcome, list(calls)))
        finally:
            (
                decoders.decode_scene_id,
                decoders.decode_product_id,
                decoders.decode_scan_info,
            ) = originals
    return results


def observe():
    observed = []
    for fname in filenames():
        observed.append((fname, call(decoders.decode_filename, fname)))
    for value in other_inputs:
        observed.append((repr(value), call(decoders.decode_filename, value)))
    observed.append(
        ("Name(valid)", call(decoders.decode_filename, Name("LED-ALOS2225333200-180726-WWDR1.1__D")))
    )
    observed.append(("Name(invalid)", call(decoders.decode_filename, Name("LED"))))
    observed.extend(patched_runs())

    # the result is a fresh plain dict on every call, and the inputs are not shared
    first = decoders.decode_filename("IMG-HH-ALOS2225333200-180726-WWDR1.1__D-B4")
    second = decoders.decode_filename("IMG-HH-ALOS2225333200-180726-WWDR1.1__D-B4")
    observed.append(("fresh", type(first) is dict, first is not second, first == second))
    return observed


# fmt: off
EXPECTED = [('IMG-HH-ALOS2225333200-180726-WWDR1.1__D',
  ('returns',
   'dict',
   "{'filetype': 'IMG', 'polarization': 'HH', 'mission_name': 'ALOS2', 'orbit_accumulation': '22533', 'scene_frame': '3200', 'date': "
   "datetime.datetime(2018, 7, 26, 0, 0), 'observation_mode': 'ScanSAR nominal 28MHz mode dual polarization', 'observation_direction': 'right "
   "looking', 'processing_level': 'level 1.1', 'processing_option': 'not specified', 'map_projection': 'not specified', 'orbit_direction': "
   "'descending'}")),
 ('IMG-HH-ALOS2225333200-180726-WWDR1.1__D-B4',
  ('returns',
   'dict',
   "{'filetype': 'IMG', 'polarization': 'HH', 'mission_name': 'ALOS2', 'orbit_accumulation': '22533', 'scene_frame': '3200', 'date': "
   "datetime.datetime(2018, 7, 26, 0, 0), 'observation_mode': 'ScanSAR nominal 28MHz mode dual polarization', 'observation_direction': 'right "
   "looking', 'processing_level': 'level 1.1', 'processing_option': 'not specified', 'map_projection': 'not specified', 'orbit_direction': "
   "'descending', 'processing_method': 'SPECAN method', 'scan_number': '4'}")),
 ('IMG-HH-ALOS2225333200-180726-WWDR1.1__D-F1',
  ('returns',
   'dict',
   "{'filetype': 'IMG', 'polarization': 'HH', 'mission_name': 'ALOS2', 'orbit_accumulation': '22533', 'scene_frame': '3200', 'date': "
   "datetime.datetime(2018, 7, 26, 0, 0), 'observation_mode': 'ScanSAR nominal 28MHz mode dual polarization', 'observation_direction': 'right "
   "looking', 'processing_level': 'level 1.1', 'processing_option': 'not specified', 'map_projection': 'not specified', 'orbit_direction': "
   "'descending', 'processing_method': 'full aperture_method', 'scan_number': '1'}")),
 ('IMG-HH-ALOS2225333200-180726-WWDR1.1__D-B0',
  ('returns',
   'dict',
   "{'filetype': 'IMG', 'polarization': 'HH', 'mission_name': 'ALOS2', 'orbit_accumulation': '22533', 'scene_frame': '3200', 'date': "
   "datetime.datetime(2018, 7, 26, 0, 0), 'observation_mode': 'ScanSAR nominal 28MHz mode dual polarization', 'observation_direction': 'right "
   "looking', 'processing_level': 'level 1.1', 'processing_option': 'not specified', 'map_projection': 'not specified', 'orbit_direction': "
   "'descending', 'processing_method': 'SPECAN method', 'scan_number': '0'}")),
 ('IMG-HH-ALOS2225333200-180726-WWDR1.1__D-F9',
  ('returns',
   'dict',
   "{'filetype': 'IMG', 'polarization': 'HH', 'mission_name': 'ALOS2', 'orbit_accumulation': '22533', 'scene_frame': '3200', 'date': "
   "datetime.datetime(2018, 7, 26, 0, 0), 'observation_mode': 'ScanSAR nominal 28MHz mode dual polarization', 'observation_direction': 'right "
   "looking', 'processing_level': 'level 1.1', 'processing_option': 'not specified', 'map_projection': 'not specified', 'orbit_direction': "
   "'descending', 'processing_method': 'full aperture_method', 'scan_number': '9'}")),
 ('IMG-HH-ALOS2225333200-180726-WWDR1.1__D-X1',
  ('raises', 'ValueError', 'invalid file name: IMG-HH-ALOS2225333200-180726-WWDR1.1__D-X1', None, False)),
 ('IMG-HH-ALOS2225333200-180726-WWDR1.1__D-B', ('raises', 'ValueError', 'invalid file name: IMG-HH-ALOS2225333200-180726-WWDR1.1__D-B', None, False)),
 ('IMG-HH-ALOS2225333200-180726-WWDR1.1__D-BB',
  ('raises', 'ValueError', 'invalid file name: IMG-HH-ALOS2225333200-180726-WWDR1.1__D-BB', None, False)),
 ('IMG-HH-ALOS2225333200-180726-WWDR1.1__D-B12',
  ('raises', 'ValueError', 'invalid file name: IMG-HH-ALOS2225333200-180726-WWDR1.1__D-B12', None, False)),
 ('IMG-HH-ALOS2225333200-180726-WWDR1.1__D-', ('raises', 'ValueError', 'invalid file name: IMG-HH-ALOS2225333200-180726-WWDR1.1__D-', None, False)),
 ('IMG-HV-ALOS2225333200-180726-WWDR1.1__D',
  ('returns',
   'dict',
   "{'filetype': 'IMG', 'polarization': 'HV', 'mission_name': 'ALOS2', 'orbit_accumulation': '22533', 'scene_frame': '3200', 'date': "
   "datetime.datetime(2018, 7, 26, 0, 0), 'observation_mode': 'ScanSAR nominal 28MHz mode dual polarization', 'observation_direction': 'right "
   "looking', 'processing_level': 'level 1.1', 'processing_option': 'not specified', 'map_projection': 'not specified', 'orbit_direction': "
   "'descending'}")),
 ('IMG-HV-ALOS2225333200-180726-WWDR1.1__D-B4',
  ('returns',
   'dict',
   "{'filetype': 'IMG', 'polarization': 'HV', 'mission_name': 'ALOS2', 'orbit_accumulation': '22533', 'scene_frame': '3200', 'date': "
   "datetime.datetime(2018, 7, 26, 0, 0), 'observation_mode': 'ScanSAR nominal 28MHz mode dual polarization', 'observation_direction': 'right "
   "looking', 'processing_level': 'level 1.1', 'processing_option': 'not specified', 'map_projection': 'not specified', 'orbit_direction': "
   "'descending', 'processing_method': 'SPECAN method', 'scan_number': '4'}")),
 ('IMG-HV-ALOS2225333200-180726-WWDR1.1__D-F1',
  ('returns',
   'dict',
   "{'filetype': 'IMG', 'polarization': 'HV', 'mission_name': 'ALOS2', 'orbit_accumulation': '22533', 'scene_frame': '3200', 'date': "
   "datetime.datetime(2018, 7, 26, 0, 0), 'observation_mode': 'ScanSAR nominal 28MHz mode dual polarization', 'observation_direction': 'right "
   "looking', 'processing_level': 'level 1.1', 'processing_option': 'not specified', 'map_projection': 'not specified', 'orbit_direction': "
   "'descending', 'processing_method': 'full aperture_method', 'scan_number': '1'}")),
 ('IMG-HV-ALOS2225333200-180726-WWDR1.1__D-B0',
  ('returns',
   'dict',
   "{'filetype': 'IMG', 'polarization': 'HV', 'mission_name': 'ALOS2', 'orbit_accumulation': '22533', 'scene_frame': '3200', 'date': "
   "datetime.datetime(2018, 7, 26, 0, 0), 'observation_mode': 'ScanSAR nominal 28MHz mode dual polarization', 'observation_direction': 'right "
   "looking', 'processing_level': 'level 1.1', 'processing_option': 'not specified', 'map_projection': 'not specified', 'orbit_direction': "
   "'descending', 'processing_method': 'SPECAN method', 'scan_number': '0'}")),
 ('IMG-HV-ALOS2225333200-180726-WWDR1.1__D-F9',
  ('returns',
   'dict',
   "{'filetype': 'IMG', 'polarization': 'HV', 'mission_name': 'ALOS2', 'orbit_accumulation': '22533', 'scene_frame': '3200', 'date': "
   "datetime.datetime(2018, 7, 26, 0, 0), 'observation_mode': 'ScanSAR nominal 28MHz mode dual polarization', 'observation_direction': 'right "
   "looking', 'processing_level': 'level 1.1', 'processing_option': 'not specified', 'map_projection': 'not specified', 'orbit_direction': "
   "'descending', 'processing_method': 'full aperture_method', 'scan_number': '9'}")),
 ('IMG-HV-ALOS2225333200-180726-WWDR1.1__D-X1',
  ('raises', 'ValueError', 'invalid file name: IMG-HV-ALOS2225333200-180726-WWDR1.1__D-X1', None, False)),
 ('IMG-HV-ALOS2225333200-180726-WWDR1.1__D-B', ('raises', 'ValueError', 'invalid file name: IMG-HV-ALOS2225333200-180726-WWDR1.1__D-B', None, False)),
 ('IMG-HV-ALOS2225333200-180726-WWDR1.1__D-BB',
  ('raises', 'ValueError', 'invalid file name: IMG-HV-ALOS2225333200-180726-WWDR1.1__D-BB', None, False)),
 ('IMG-HV-ALOS2225333200-180726-WWDR1.1__D-B12',
  ('raises', 'ValueError', 'invalid file name: IMG-HV-ALOS2225333200-180726-WWDR1.1__D-B12', None, False)),
 ('IMG-HV-ALOS2225333200-180726-WWDR1.1__D-', ('raises', 'ValueError', 'invalid file name: IMG-HV-ALOS2225333200-180726-WWDR1.1__D-', None, False)),
 ('IMG-VH-ALOS2225333200-180726-WWDR1.1__D',
  ('returns',
   'dict',
   "{'filetype': 'IMG', 'polarization': 'VH', 'mission_name': 'ALOS2', 'orbit_accumulation': '22533', 'scene_frame': '3200', 'date': "
   "datetime.datetime(2018, 7, 26, 0, 0), 'observation_mode': 'ScanSAR nominal 28MHz mode dual polarization', 'observation_direction': 'right "
   "looking', 'processing_level': 'level 1.1', 'processing_option': 'not specified', 'map_projection': 'not specified', 'orbit_direction': "
   "'descending'}")),
 ('IMG-VH-ALOS2225333200-180726-WWDR1.1__D-B4',
  ('returns',
   'dict',
   "{'filetype': 'IMG', 'polarization': 'VH', 'mission_name': 'ALOS2', 'orbit_accumulation': '22533', 'scene_frame': '3200', 'date': "
   "datetime.datetime(2018, 7, 26, 0, 0), 'observation_mode': 'ScanSAR nominal 28MHz mode dual polarization', 'observation_direction': 'right "
   "looking', 'processing_level': 'level 1.1', 'processing_option': 'not specified', 'map_projection': 'not specified', 'orbit_direction': "
   "'descending', 'processing_method': 'SPECAN method', 'scan_number': '4'}")),
 ('IMG-VH-ALOS2225333200-180726-WWDR1.1__D-F1',
  ('returns',
   'dict',
   "{'filetype': 'IMG', 'polarization': 'VH', 'mission_name': 'ALOS2', 'orbit_accumulation': '22533', 'scene_frame': '3200', 'date': "
   "datetime.datetime(2018, 7, 26, 0, 0), 'observation_mode': 'ScanSAR nominal 28MHz mode dual polarization', 'observation_direction': 'right "
   "looking', 'processing_level': 'level 1.1', 'processing_option': 'not specified', 'map_projection': 'not specified', 'orbit_direction': "
   "'descending', 'processing_method': 'full aperture_method', 'scan_number': '1'}")),
 ('IMG-VH-ALOS2225333200-180726-WWDR1.1__D-B0',
  ('returns',
   'dict',
   "{'filetype': 'IMG', 'polarization': 'VH', 'mission_name': 'ALOS2', 'orbit_accumulation': '22533', 'scene_frame': '3200', 'date': "
   "datetime.datetime(2018, 7, 26, 0, 0), 'observation_mode': 'ScanSAR nominal 28MHz mode dual polarization', 'observation_direction': 'right "
   "looking', 'processing_level': 'level 1.1', 'processing_option': 'not specified', 'map_projection': 'not specified', 'orbit_direction': "
   "'descending', 'processing_method': 'SPECAN method', 'scan_number': '0'}")),
 ('IMG-VH-ALOS2225333200-180726-WWDR1.1__D-F9',
  ('returns',
   'dict',
   "{'filetype': 'IMG', 'polarization': 'VH', 'mission_name': 'ALOS2', 'orbit_accumulation': '22533', 'scene_frame': '3200', 'date': "
   "datetime.datetime(2018, 7, 26, 0, 0), 'observation_mode': 'ScanSAR nominal 28MHz mode dual polarization', 'observation_direction': 'right "
   "looking', 'processing_level': 'level 1.1', 'processing_option': 'not specified', 'map_projection': 'not specified', 'orbit_direction': "
   "'descending', 'processing_method': 'full aperture_method', 'scan_number': '9'}")),
 ('IMG-VH-ALOS2225333200-180726-WWDR1.1__D-X1',
  ('raises', 'ValueError', 'invalid file name: IMG-VH-ALOS2225333200-180726-WWDR1.1__D-X1', None, False)),
 ('IMG-VH-ALOS2225333200-180726-WWDR1.1__D-B', ('raises', 'ValueError', 'invalid file name: IMG-VH-ALOS2225333200-180726-WWDR1.1__D-B', None, False)),
 ('IMG-VH-ALOS2225333200-180726-WWDR1.1__D-BB',
  ('raises', 'ValueError', 'invalid file name: IMG-VH-ALOS2225333200-180726-WWDR1.1__D-BB', None, False)),
 ('IMG-VH-ALOS2225333200-180726-WWDR1.1__D-B12',
  ('raises', 'ValueError', 'invalid file name: IMG-VH-ALOS2225333200-180726-WWDR1.1__D-B12', None, False)),
 ('IMG-VH-ALOS2225333200-180726-WWDR1.1__D-', ('raises', 'ValueError', 'invalid file name: IMG-VH-ALOS2225333200-180726-WWDR1.1__D-', None, False)),
 ('IMG-VV-ALOS2225333200-180726-WWDR1.1__D',
  ('returns',
   'dict',
   "{'filetype': 'IMG', 'polarization': 'VV', 'mission_name': 'ALOS2', 'orbit_accumulation': '22533', 'scene_frame': '3200', 'date': "
   "datetime.datetime(2018, 7, 26, 0, 0), 'observation_mode': 'ScanSAR nominal 28MHz mode dual polarization', 'observation_direction': 'right "
   "looking', 'processing_level': 'level 1.1', 'processing_option': 'not specified', 'map_projection': 'not specified', 'orbit_direction': "
   "'descending'}")),
 ('IMG-VV-ALOS2225333200-180726-WWDR1.1__D-B4',
  ('returns',
   'dict',
   "{'filetype': 'IMG', 'polarization': 'VV', 'mission_name': 'ALOS2', 'orbit_accumulation': '22533', 'scene_frame': '3200', 'date': "
   "datetime.datetime(2018, 7, 26, 0, 0), 'observation_mode': 'ScanSAR nominal 28MHz mode dual polarization', 'observation_direction': 'right "
   "looking', 'processing_level': 'level 1.1', 'processing_option': 'not specified', 'map_projection': 'not specified', 'orbit_direction': "
   "'descending', 'processing_method': 'SPECAN method', 'scan_number': '4'}")),
 ('IMG-VV-ALOS2225333200-180726-WWDR1.1__D-F1',
  ('returns',
   'dict',
   "{'filetype': 'IMG', 'polarization': 'VV', 'mission_name': 'ALOS2', 'orbit_accumulation': '22533', 'scene_frame': '3200', 'date': "
   "datetime.datetime(2018, 7, 26, 0, 0), 'observation_mode': 'ScanSAR nominal 28MHz mode dual polarization', 'observation_direction': 'right "
   "looking', 'processing_level': 'level 1.1', 'processing_option': 'not specified', 'map_projection': 'not specified', 'orbit_direction': "
   "'descending', 'processing_method': 'full aperture_method', 'scan_number': '1'}")),
 ('IMG-VV-ALOS2225333200-180726-WWDR1.1__D-B0',
  ('returns',
   'dict',
   "{'filetype': 'IMG', 'polarization': 'VV', 'mission_name': 'ALOS2', 'orbit_accumulation': '22533', 'scene_frame': '3200', 'date': "
   "datetime.datetime(2018, 7, 26, 0, 0), 'observation_mode': 'ScanSAR nominal 28MHz mode dual polarization', 'observation_direction': 'right "
   "looking', 'processing_level': 'level 1.1', 'processing_option': 'not specified', 'map_projection': 'not specified', 'orbit_direction': "
   "'descending', 'processing_method': 'SPECAN method', 'scan_number': '0'}")),
 ('IMG-VV-ALOS2225333200-180726-WWDR1.1__D-F9',
  ('returns',
   'dict',
   "{'filetype': 'IMG', 'polarization': 'VV', 'mission_name': 'ALOS2', 'orbit_accumulation': '22533', 'scene_frame': '3200', 'date': "
   "datetime.datetime(2018, 7, 26, 0, 0), 'observation_mode': 'ScanSAR nominal 28MHz mode dual polarization', 'observation_direction': 'right "
   "looking', 'processing_level': 'level 1.1', 'processing_option': 'not specified', 'map_projection': 'not specified', 'orbit_direction': "
   "'descending', 'processing_method': 'full aperture_method', 'scan_number': '9'}")),
 ('IMG-VV-ALOS2225333200-180726-WWDR1.1__D-X1',
  ('raises', 'ValueError', 'invalid file name: IMG-VV-ALOS2225333200-180726-WWDR1.1__D-X1', None, False)),
 ('IMG-VV-ALOS2225333200-180726-WWDR1.1__D-B', ('raises', 'ValueError', 'invalid file name: IMG-VV-ALOS2225333200-180726-WWDR1.1__D-B', None, False)),
 ('IMG-VV-ALOS2225333200-180726-WWDR1.1__D-BB',
  ('raises', 'ValueError', 'invalid file name: IMG-VV-ALOS2225333200-180726-WWDR1.1__D-BB', None, False)),
 ('IMG-VV-ALOS2225333200-180726-WWDR1.1__D-B12',
  ('raises', 'ValueError', 'invalid file name: IMG-VV-ALOS2225333200-180726-WWDR1.1__D-B12', None, False)),
 ('IMG-VV-ALOS2225333200-180726-WWDR1.1__D-', ('raises', 'ValueError', 'invalid file name: IMG-VV-ALOS2225333200-180726-WWDR1.1__D-', None, False)),
 ('IMG-ALOS2225333200-180726-WWDR1.1__D',
  ('returns',
   'dict',
   "{'filetype': 'IMG', 'polarization': None, 'mission_name': 'ALOS2', 'orbit_accumulation': '22533', 'scene_frame': '3200', 'date': "
   "datetime.datetime(2018, 7, 26, 0, 0), 'observation_mode': 'ScanSAR nominal 28MHz mode dual polarization', 'observation_direction': 'right "
   "looking', 'processing_level': 'level 1.1', 'processing_option': 'not specified', 'map_projection': 'not specified', 'orbit_direction': "
   "'descending'}")),
 ('IMG-ALOS2225333200-180726-WWDR1.1__D-B4',
  ('returns',
   'dict',
   "{'filetype': 'IMG', 'polarization': None, 'mission_name': 'ALOS2', 'orbit_accumulation': '22533', 'scene_frame': '3200', 'date': "
   "datetime.datetime(2018, 7, 26, 0, 0), 'observation_mode': 'ScanSAR nominal 28MHz mode dual polarization', 'observation_direction': 'right "
   "looking', 'processing_level': 'level 1.1', 'processing_option': 'not specified', 'map_projection': 'not specified', 'orbit_direction': "
   "'descending', 'processing_method': 'SPECAN method', 'scan_number': '4'}")),
 ('IMG-ALOS2225333200-180726-WWDR1.1__D-F1',
  ('returns',
   'dict',
   "{'filetype': 'IMG', 'polarization': None, 'mission_name': 'ALOS2', 'orbit_accumulation': '22533', 'scene_frame': '3200', 'date': "
   "datetime.datetime(2018, 7, 26, 0, 0), 'observation_mode': 'ScanSAR nominal 28MHz mode dual polarization', 'observation_direction': 'right "
   "looking', 'processing_level': 'level 1.1', 'processing_option': 'not specified', 'map_projection': 'not specified', 'orbit_direction': "
   "'descending', 'processing_method': 'full aperture_method', 'scan_number': '1'}")),
 ('IMG-ALOS2225333200-180726-WWDR1.1__D-B0',
  ('returns',
   'dict',
   "{'filetype': 'IMG', 'polarization': None, 'mission_name': 'ALOS2', 'orbit_accumulation': '22533', 'scene_frame': '3200', 'date': "
   "datetime.datetime(2018, 7, 26, 0, 0), 'observation_mode': 'ScanSAR nominal 28MHz mode dual polarization', 'observation_direction': 'right "
   "looking', 'processing_level': 'level 1.1', 'processing_option': 'not specified', 'map_projection': 'not specified', 'orbit_direction': "
   "'descending', 'processing_method': 'SPECAN method', 'scan_number': '0'}")),
 ('IMG-ALOS2225333200-180726-WWDR1.1__D-F9',
  ('returns',
   'dict',
   "{'filetype': 'IMG', 'polarization': None, 'mission_name': 'ALOS2', 'orbit_accumulation': '22533', 'scene_frame': '3200', 'date': "
   "datetime.datetime(2018, 7, 26, 0, 0), 'observation_mode': 'ScanSAR nominal 28MHz mode dual polarization', 'observation_direction': 'right "
   "looking', 'processing_level': 'level 1.1', 'processing_option': 'not specified', 'map_projection': 'not specified', 'orbit_direction': "
   "'descending', 'processing_method': 'full aperture_method', 'scan_number': '9'}")),
 ('IMG-ALOS2225333200-180726-WWDR1.1__D-X1', ('raises', 'ValueError', 'invalid file name: IMG-ALOS2225333200-180726-WWDR1.1__D-X1', None, False)),
 ('IMG-ALOS2225333200-180726-WWDR1.1__D-B', ('raises', 'ValueError', 'invalid file name: IMG-ALOS2225333200-180726-WWDR1.1__D-B', None, False)),
 ('IMG-ALOS2225333200-180726-WWDR1.1__D-BB', ('raises', 'ValueError', 'invalid file name: IMG-ALOS2225333200-180726-WWDR1.1__D-BB', None, False)),
 ('IMG-ALOS2225333200-180726-WWDR1.1__D-B12', ('raises', 'ValueError', 'invalid file name: IMG-ALOS2225333200-180726-WWDR1.1__D-B12', None, False)),
 ('IMG-ALOS2225333200-180726-WWDR1.1__D-', ('raises', 'ValueError', 'invalid file name: IMG-ALOS2225333200-180726-WWDR1.1__D-', None, False)),
 ('LED-ALOS2225333200-180726-WWDR1.1__D',
  ('returns',
   'dict',
   "{'filetype': 'LED', 'polarization': None, 'mission_name': 'ALOS2', 'orbit_accumulation': '22533', 'scene_frame': '3200', 'date': "
   "datetime.datetime(2018, 7, 26, 0, 0), 'observation_mode': 'ScanSAR nominal 28MHz mode dual polarization', 'observation_direction': 'right "
   "looking', 'processing_level': 'level 1.1', 'processing_option': 'not specified', 'map_projection': 'not specified', 'orbit_direction': "
   "'descending'}")),
 ('LED-ALOS2225333200-180726-WWDR1.1__D-B4',
  ('returns',
   'dict',
   "{'filetype': 'LED', 'polarization': None, 'mission_name': 'ALOS2', 'orbit_accumulation': '22533', 'scene_frame': '3200', 'date': "
   "datetime.datetime(2018, 7, 26, 0, 0), 'observation_mode': 'ScanSAR nominal 28MHz mode dual polarization', 'observation_direction': 'right "
   "looking', 'processing_level': 'level 1.1', 'processing_option': 'not specified', 'map_projection': 'not specified', 'orbit_direction': "
   "'descending', 'processing_method': 'SPECAN method', 'scan_number': '4'}")),
 ('LED-ALOS2225333200-180726-WWDR1.1__D-F1',
  ('returns',
   'dict',
   "{'filetype': 'LED', 'polarization': None, 'mission_name': 'ALOS2', 'orbit_accumulation': '22533', 'scene_frame': '3200', 'date': "
   "datetime.datetime(2018, 7, 26, 0, 0), 'observation_mode': 'ScanSAR nominal 28MHz mode dual polarization', 'observation_direction': 'right "
   "looking', 'processing_level': 'level 1.1', 'processing_option': 'not specified', 'map_projection': 'not specified', 'orbit_direction': "
   "'descending', 'processing_method': 'full aperture_method', 'scan_number': '1'}")),
 ('LED-ALOS2225333200-180726-WWDR1.1__D-B0',
  ('returns',
   'dict',
   "{'filetype': 'LED', 'polarization': None, 'mission_name': 'ALOS2', 'orbit_accumulation': '22533', 'scene_frame': '3200', 'date': "
   "datetime.datetime(2018, 7, 26, 0, 0), 'observation_mode': 'ScanSAR nominal 28MHz mode dual polarization', 'observation_direction': 'right "
   "looking', 'processing_level': 'level 1.1', 'processing_option': 'not specified', 'map_projection': 'not specified', 'orbit_direction': "
   "'descending', 'processing_method': 'SPECAN method', 'scan_number': '0'}")),
 ('LED-ALOS2225333200-180726-WWDR1.1__D-F9',
  ('returns',
   'dict',
   "{'filetype': 'LED', 'polarization': None, 'mission_name': 'ALOS2', 'orbit_accumulation': '22533', 'scene_frame': '3200', 'date': "
   "datetime.datetime(2018, 7, 26, 0, 0), 'observation_mode': 'ScanSAR nominal 28MHz mode dual polarization', 'observation_direction': 'right "
   "looking', 'processing_level': 'level 1.1', 'processing_option': 'not specified', 'map_projection': 'not specified', 'orbit_direction': "
   "'descending', 'processing_method': 'full aperture_method', 'scan_number': '9'}")),
 ('LED-ALOS2225333200-180726-WWDR1.1__D-X1', ('raises', 'ValueError', 'invalid file name: LED-ALOS2225333200-180726-WWDR1.1__D-X1', None, False)),
 ('LED-ALOS2225333200-180726-WWDR1.1__D-B', ('raises', 'ValueError', 'invalid file name: LED-ALOS2225333200-180726-WWDR1.1__D-B', None, False)),
 ('LED-ALOS2225333200-180726-WWDR1.1__D-BB', ('raises', 'ValueError', 'invalid file name: LED-ALOS2225333200-180726-WWDR1.1__D-BB', None, False)),
 ('LED-ALOS2225333200-180726-WWDR1.1__D-B12', ('raises', 'ValueError', 'invalid file name: LED-ALOS2225333200-180726-WWDR1.1__D-B12', None, False)),
 ('LED-ALOS2225333200-180726-WWDR1.1__D-', ('raises', 'ValueError', 'invalid file name: LED-ALOS2225333200-180726-WWDR1.1__D-', None, False)),
 ('TRL-ALOS2225333200-180726-WWDR1.1__D',
  ('returns',
   'dict',
   "{'filetype': 'TRL', 'polarization': None, 'mission_name': 'ALOS2', 'orbit_accumulation': '22533', 'scene_frame': '3200', 'date': "
   "datetime.datetime(2018, 7, 26, 0, 0), 'observation_mode': 'ScanSAR nominal 28MHz mode dual polarization', 'observation_direction': 'right "
   "looking', 'processing_level': 'level 1.1', 'processing_option': 'not specified', 'map_projection': 'not specified', 'orbit_direction': "
   "'descending'}")),
 ('TRL-ALOS2225333200-180726-WWDR1.1__D-B4',
  ('returns',
   'dict',
   "{'filetype': 'TRL', 'polarization': None, 'mission_name': 'ALOS2', 'orbit_accumulation': '22533', 'scene_frame': '3200', 'date': "
   "datetime.datetime(2018, 7, 26, 0, 0), 'observation_mode': 'ScanSAR nominal 28MHz mode dual polarization', 'observation_direction': 'right "
   "looking', 'processing_level': 'level 1.1', 'processing_option': 'not specified', 'map_projection': 'not specified', 'orbit_direction': "
   "'descending', 'processing_method': 'SPECAN method', 'scan_number': '4'}")),
 ('TRL-ALOS2225333200-180726-WWDR1.1__D-F1',
  ('returns',
   'dict',
   "{'filetype': 'TRL', 'polarization': None, 'mission_name': 'ALOS2', 'orbit_accumulation': '22533', 'scene_frame': '3200', 'date': "
   "datetime.datetime(2018, 7, 26, 0, 0), 'observation_mode': 'ScanSAR nominal 28MHz mode dual polarization', 'observation_direction': 'right "
   "looking', 'processing_level': 'level 1.1', 'processing_option': 'not specified', 'map_projection': 'not specified', 'orbit_direction': "
   "'descending', 'processing_method': 'full aperture_method', 'scan_number': '1'}")),
 ('TRL-ALOS2225333200-180726-WWDR1.1__D-B0',
  ('returns',
   'dict',
   "{'filetype': 'TRL', 'polarization': None, 'mission_name': 'ALOS2', 'orbit_accumulation': '22533', 'scene_frame': '3200', 'date': "
   "datetime.datetime(2018, 7, 26, 0, 0), 'observation_mode': 'ScanSAR nominal 28MHz mode dual polarization', 'observation_direction': 'right "
   "looking', 'processing_level': 'level 1.1', 'processing_option': 'not specified', 'map_projection': 'not specified', 'orbit_direction': "
   "'descending', 'processing_method': 'SPECAN method', 'scan_number': '0'}")),
 ('TRL-ALOS2225333200-180726-WWDR1.1__D-F9',
  ('returns',
   'dict',
   "{'filetype': 'TRL', 'polarization': None, 'mission_name': 'ALOS2', 'orbit_accumulation': '22533', 'scene_frame': '3200', 'date': "
   "datetime.datetime(2018, 7, 26, 0, 0), 'observation_mode': 'ScanSAR nominal 28MHz mode dual polarization', 'observation_direction': 'right "
   "looking', 'processing_level': 'level 1.1', 'processing_option': 'not specified', 'map_projection': 'not specified', 'orbit_direction': "
   "'descending', 'processing_method': 'full aperture_method', 'scan_number': '9'}")),
 ('TRL-ALOS2225333200-180726-WWDR1.1__D-X1', ('raises', 'ValueError', 'invalid file name: TRL-ALOS2225333200-180726-WWDR1.1__D-X1', None, False)),
 ('TRL-ALOS2225333200-180726-WWDR1.1__D-B', ('raises', 'ValueError', 'invalid file name: TRL-ALOS2225333200-180726-WWDR1.1__D-B', None, False)),
 ('TRL-ALOS2225333200-180726-WWDR1.1__D-BB', ('raises', 'ValueError', 'invalid file name: TRL-ALOS2225333200-180726-WWDR1.1__D-BB', None, False)),
 ('TRL-ALOS2225333200-180726-WWDR1.1__D-B12', ('raises', 'ValueError', 'invalid file name: TRL-ALOS2225333200-180726-WWDR1.1__D-B12', None, False)),
 ('TRL-ALOS2225333200-180726-WWDR1.1__D-', ('raises', 'ValueError', 'invalid file name: TRL-ALOS2225333200-180726-WWDR1.1__D-', None, False)),
 ('VOL-ALOS2225333200-180726-WWDR1.1__D',
  ('returns',
   'dict',
   "{'filetype': 'VOL', 'polarization': None, 'mission_name': 'ALOS2', 'orbit_accumulation': '22533', 'scene_frame': '3200', 'date': "
   "datetime.datetime(2018, 7, 26, 0, 0), 'observation_mode': 'ScanSAR nominal 28MHz mode dual polarization', 'observation_direction': 'right "
   "looking', 'processing_level': 'level 1.1', 'processing_option': 'not specified', 'map_projection': 'not specified', 'orbit_direction': "
   "'descending'}")),
 ('VOL-ALOS2225333200-180726-WWDR1.1__D-B4',
  ('returns',
   'dict',
   "{'filetype': 'VOL', 'polarization': None, 'mission_name': 'ALOS2', 'orbit_accumulation': '22533', 'scene_frame': '3200', 'date': "
   "datetime.datetime(2018, 7, 26, 0, 0), 'observation_mode': 'ScanSAR nominal 28MHz mode dual polarization', 'observation_direction': 'right "
   "looking', 'processing_level': 'level 1.1', 'processing_option': 'not specified', 'map_projection': 'not specified', 'orbit_direction': "
   "'descending', 'processing_method': 'SPECAN method', 'scan_number': '4'}")),
 ('VOL-ALOS2225333200-180726-WWDR1.1__D-F1',
  ('returns',
   'dict',
   "{'filetype': 'VOL', 'polarization': None, 'mission_name': 'ALOS2', 'orbit_accumulation': '22533', 'scene_frame': '3200', 'date': "
   "datetime.datetime(2018, 7, 26, 0, 0), 'observation_mode': 'ScanSAR nominal 28MHz mode dual polarization', 'observation_direction': 'right "
   "looking', 'processing_level': 'level 1.1', 'processing_option': 'not specified', 'map_projection': 'not specified', 'orbit_direction': "
   "'descending', 'processing_method': 'full aperture_method', 'scan_number': '1'}")),
 ('VOL-ALOS2225333200-180726-WWDR1.1__D-B0',
  ('returns',
   'dict',
   "{'filetype': 'VOL', 'polarization': None, 'mission_name': 'ALOS2', 'orbit_accumulation': '22533', 'scene_frame': '3200', 'date': "
   "datetime.datetime(2018, 7, 26, 0, 0), 'observation_mode': 'ScanSAR nominal 28MHz mode dual polarization', 'observation_direction': 'right "
   "looking', 'processing_level': 'level 1.1', 'processing_option': 'not specified', 'map_projection': 'not specified', 'orbit_direction': "
   "'descending', 'processing_method': 'SPECAN method', 'scan_number': '0'}")),
 ('VOL-ALOS2225333200-180726-WWDR1.1__D-F9',
  ('returns',
   'dict',
   "{'filetype': 'VOL', 'polarization': None, 'mission_name': 'ALOS2', 'orbit_accumulation': '22533', 'scene_frame': '3200', 'date': "
   "datetime.datetime(2018, 7, 26, 0, 0), 'observation_mode': 'ScanSAR nominal 28MHz mode dual polarization', 'observation_direction': 'right "
   "looking', 'processing_level': 'level 1.1', 'processing_option': 'not specified', 'map_projection': 'not specified', 'orbit_direction': "
   "'descending', 'processing_method': 'full aperture_method', 'scan_number': '9'}")),
 ('VOL-ALOS2225333200-180726-WWDR1.1__D-X1', ('raises', 'ValueError', 'invalid file name: VOL-ALOS2225333200-180726-WWDR1.1__D-X1', None, False)),
 ('VOL-ALOS2225333200-180726-WWDR1.1__D-B', ('raises', 'ValueError', 'invalid file name: VOL-ALOS2225333200-180726-WWDR1.1__D-B', None, False)),
 ('VOL-ALOS2225333200-180726-WWDR1.1__D-BB', ('raises', 'ValueError', 'invalid file name: VOL-ALOS2225333200-180726-WWDR1.1__D-BB', None, False)),
 ('VOL-ALOS2225333200-180726-WWDR1.1__D-B12', ('raises', 'ValueError', 'invalid file name: VOL-ALOS2225333200-180726-WWDR1.1__D-B12', None, False)),
 ('VOL-ALOS2225333200-180726-WWDR1.1__D-', ('raises', 'ValueError', 'invalid file name: VOL-ALOS2225333200-180726-WWDR1.1__D-', None, False)),
 ('IMG-HX-ALOS2225333200-180726-WWDR1.1__D', ('raises', 'ValueError', 'invalid file name: IMG-HX-ALOS2225333200-180726-WWDR1.1__D', None, False)),
 ('IMG-HX-ALOS2225333200-180726-WWDR1.1__D-B4',
  ('raises', 'ValueError', 'invalid file name: IMG-HX-ALOS2225333200-180726-WWDR1.1__D-B4', None, False)),
 ('IMG-HX-ALOS2225333200-180726-WWDR1.1__D-F1',
  ('raises', 'ValueError', 'invalid file name: IMG-HX-ALOS2225333200-180726-WWDR1.1__D-F1', None, False)),
 ('IMG-HX-ALOS2225333200-180726-WWDR1.1__D-B0',
  ('raises', 'ValueError', 'invalid file name: IMG-HX-ALOS2225333200-180726-WWDR1.1__D-B0', None, False)),
 ('IMG-HX-ALOS2225333200-180726-WWDR1.1__D-F9',
  ('raises', 'ValueError', 'invalid file name: IMG-HX-ALOS2225333200-180726-WWDR1.1__D-F9', None, False)),
 ('IMG-HX-ALOS2225333200-180726-WWDR1.1__D-X1',
  ('raises', 'ValueError', 'invalid file name: IMG-HX-ALOS2225333200-180726-WWDR1.1__D-X1', None, False)),
 ('IMG-HX-ALOS2225333200-180726-WWDR1.1__D-B', ('raises', 'ValueError', 'invalid file name: IMG-HX-ALOS2225333200-180726-WWDR1.1__D-B', None, False)),
 ('IMG-HX-ALOS2225333200-180726-WWDR1.1__D-BB',
  ('raises', 'ValueError', 'invalid file name: IMG-HX-ALOS2225333200-180726-WWDR1.1__D-BB', None, False)),
 ('IMG-HX-ALOS2225333200-180726-WWDR1.1__D-B12',
  ('raises', 'ValueError', 'invalid file name: IMG-HX-ALOS2225333200-180726-WWDR1.1__D-B12', None, False)),
 ('IMG-HX-ALOS2225333200-180726-WWDR1.1__D-', ('raises', 'ValueError', 'invalid file name: IMG-HX-ALOS2225333200-180726-WWDR1.1__D-', None, False)),
 ('img-HH-ALOS2225333200-180726-WWDR1.1__D', ('raises', 'ValueError', 'invalid file name: img-HH-ALOS2225333200-180726-WWDR1.1__D', None, False)),
 ('img-HH-ALOS2225333200-180726-WWDR1.1__D-B4',
  ('raises', 'ValueError', 'invalid file name: img-HH-ALOS2225333200-180726-WWDR1.1__D-B4', None, False)),
 ('img-HH-ALOS2225333200-180726-WWDR1.1__D-F1',
  ('raises', 'ValueError', 'invalid file name: img-HH-ALOS2225333200-180726-WWDR1.1__D-F1', None, False)),
 ('img-HH-ALOS2225333200-180726-WWDR1.1__D-B0',
  ('raises', 'ValueError', 'invalid file name: img-HH-ALOS2225333200-180726-WWDR1.1__D-B0', None, False)),
 ('img-HH-ALOS2225333200-180726-WWDR1.1__D-F9',
  ('raises', 'ValueError', 'invalid file name: img-HH-ALOS2225333200-180726-WWDR1.1__D-F9', None, False)),
 ('img-HH-ALOS2225333200-180726-WWDR1.1__D-X1',
  ('raises', 'ValueError', 'invalid file name: img-HH-ALOS2225333200-180726-WWDR1.1__D-X1', None, False)),
 ('img-HH-ALOS2225333200-180726-WWDR1.1__D-B', ('raises', 'ValueError', 'invalid file name: img-HH-ALOS2225333200-180726-WWDR1.1__D-B', None, False)),
 ('img-HH-ALOS2225333200-180726-WWDR1.1__D-BB',
  ('raises', 'ValueError', 'invalid file name: img-HH-ALOS2225333200-180726-WWDR1.1__D-BB', None, False)),
 ('img-HH-ALOS2225333200-180726-WWDR1.1__D-B12',
  ('raises', 'ValueError', 'invalid file name: img-HH-ALOS2225333200-180726-WWDR1.1__D-B12', None, False)),
 ('img-HH-ALOS2225333200-180726-WWDR1.1__D-', ('raises', 'ValueError', 'invalid file name: img-HH-ALOS2225333200-180726-WWDR1.1__D-', None, False)),
 ('IMAG-ALOS2225333200-180726-WWDR1.1__D', ('raises', 'ValueError', 'invalid file name: IMAG-ALOS2225333200-180726-WWDR1.1__D', None, False)),
 ('IMAG-ALOS2225333200-180726-WWDR1.1__D-B4', ('raises', 'ValueError', 'invalid file name: IMAG-ALOS2225333200-180726-WWDR1.1__D-B4', None, False)),
 ('IMAG-ALOS2225333200-180726-WWDR1.1__D-F1', ('raises', 'ValueError', 'invalid file name: IMAG-ALOS2225333200-180726-WWDR1.1__D-F1', None, False)),
 ('IMAG-ALOS2225333200-180726-WWDR1.1__D-B0', ('raises', 'ValueError', 'invalid file name: IMAG-ALOS2225333200-180726-WWDR1.1__D-B0', None, False)),
 ('IMAG-ALOS2225333200-180726-WWDR1.1__D-F9', ('raises', 'ValueError', 'invalid file name: IMAG-ALOS2225333200-180726-WWDR1.1__D-F9', None, False)),
 ('IMAG-ALOS2225333200-180726-WWDR1.1__D-X1', ('raises', 'ValueError', 'invalid file name: IMAG-ALOS2225333200-180726-WWDR1.1__D-X1', None, False)),
 ('IMAG-ALOS2225333200-180726-WWDR1.1__D-B', ('raises', 'ValueError', 'invalid file name: IMAG-ALOS2225333200-180726-WWDR1.1__D-B', None, False)),
 ('IMAG-ALOS2225333200-180726-WWDR1.1__D-BB', ('raises', 'ValueError', 'invalid file name: IMAG-ALOS2225333200-180726-WWDR1.1__D-BB', None, False)),
 ('IMAG-ALOS2225333200-180726-WWDR1.1__D-B12', ('raises', 'ValueError', 'invalid file name: IMAG-ALOS2225333200-180726-WWDR1.1__D-B12', None, False)),
 ('IMAG-ALOS2225333200-180726-WWDR1.1__D-', ('raises', 'ValueError', 'invalid file name: IMAG-ALOS2225333200-180726-WWDR1.1__D-', None, False)),
 ('IMG-H-ALOS2225333200-180726-WWDR1.1__D', ('raises', 'ValueError', 'invalid file name: IMG-H-ALOS2225333200-180726-WWDR1.1__D', None, False)),
 ('IMG-H-ALOS2225333200-180726-WWDR1.1__D-B4', ('raises', 'ValueError', 'invalid file name: IMG-H-ALOS2225333200-180726-WWDR1.1__D-B4', None, False)),
 ('IMG-H-ALOS2225333200-180726-WWDR1.1__D-F1', ('raises', 'ValueError', 'invalid file name: IMG-H-ALOS2225333200-180726-WWDR1.1__D-F1', None, False)),
 ('IMG-H-ALOS2225333200-180726-WWDR1.1__D-B0', ('raises', 'ValueError', 'invalid file name: IMG-H-ALOS2225333200-180726-WWDR1.1__D-B0', None, False)),
 ('IMG-H-ALOS2225333200-180726-WWDR1.1__D-F9', ('raises', 'ValueError', 'invalid file name: IMG-H-ALOS2225333200-180726-WWDR1.1__D-F9', None, False)),
 ('IMG-H-ALOS2225333200-180726-WWDR1.1__D-X1', ('raises', 'ValueError', 'invalid file name: IMG-H-ALOS2225333200-180726-WWDR1.1__D-X1', None, False)),
 ('IMG-H-ALOS2225333200-180726-WWDR1.1__D-B', ('raises', 'ValueError', 'invalid file name: IMG-H-ALOS2225333200-180726-WWDR1.1__D-B', None, False)),
 ('IMG-H-ALOS2225333200-180726-WWDR1.1__D-BB', ('raises', 'ValueError', 'invalid file name: IMG-H-ALOS2225333200-180726-WWDR1.1__D-BB', None, False)),
 ('IMG-H-ALOS2225333200-180726-WWDR1.1__D-B12',
  ('raises', 'ValueError', 'invalid file name: IMG-H-ALOS2225333200-180726-WWDR1.1__D-B12', None, False)),
 ('IMG-H-ALOS2225333200-180726-WWDR1.1__D-', ('raises', 'ValueError', 'invalid file name: IMG-H-ALOS2225333200-180726-WWDR1.1__D-', None, False)),
 ('IMG-HH-ALOS2225333200-180726-HBQR1.5GUA',
  ('returns',
   'dict',
   "{'filetype': 'IMG', 'polarization': 'HH', 'mission_name': 'ALOS2', 'orbit_accumulation': '22533', 'scene_frame': '3200', 'date': "
   "datetime.datetime(2018, 7, 26, 0, 0), 'observation_mode': 'high-sensitive mode full (quad.) polarimetry', 'observation_direction': 'right "
   "looking', 'processing_level': 'level 1.5', 'processing_option': 'geo-code', 'map_projection': 'UTM', 'orbit_direction': 'ascending'}")),
 ('IMG-HH-ALOS2225333200-180726-HBQR1.5GUA-F2',
  ('returns',
   'dict',
   "{'filetype': 'IMG', 'polarization': 'HH', 'mission_name': 'ALOS2', 'orbit_accumulation': '22533', 'scene_frame': '3200', 'date': "
   "datetime.datetime(2018, 7, 26, 0, 0), 'observation_mode': 'high-sensitive mode full (quad.) polarimetry', 'observation_direction': 'right "
   "looking', 'processing_level': 'level 1.5', 'processing_option': 'geo-code', 'map_projection': 'UTM', 'orbit_direction': 'ascending', "
   "'processing_method': 'full aperture_method', 'scan_number': '2'}")),
 ('IMG-HH-ALOS2000010000-000101-HBQR1.5GUA',
  ('returns',
   'dict',
   "{'filetype': 'IMG', 'polarization': 'HH', 'mission_name': 'ALOS2', 'orbit_accumulation': '00001', 'scene_frame': '0000', 'date': "
   "datetime.datetime(2000, 1, 1, 0, 0), 'observation_mode': 'high-sensitive mode full (quad.) polarimetry', 'observation_direction': 'right "
   "looking', 'processing_level': 'level 1.5', 'processing_option': 'geo-code', 'map_projection': 'UTM', 'orbit_direction': 'ascending'}")),
 ('IMG-HH-ALOS2000010000-000101-HBQR1.5GUA-F2',
  ('returns',
   'dict',
   "{'filetype': 'IMG', 'polarization': 'HH', 'mission_name': 'ALOS2', 'orbit_accumulation': '00001', 'scene_frame': '0000', 'date': "
   "datetime.datetime(2000, 1, 1, 0, 0), 'observation_mode': 'high-sensitive mode full (quad.) polarimetry', 'observation_direction': 'right "
   "looking', 'processing_level': 'level 1.5', 'processing_option': 'geo-code', 'map_projection': 'UTM', 'orbit_direction': 'ascending', "
   "'processing_method': 'full aperture_method', 'scan_number': '2'}")),
 ('IMG-HH-ALOS2999999999-991231-HBQR1.5GUA',
  ('returns',
   'dict',
   "{'filetype': 'IMG', 'polarization': 'HH', 'mission_name': 'ALOS2', 'orbit_accumulation': '99999', 'scene_frame': '9999', 'date': "
   "datetime.datetime(1999, 12, 31, 0, 0), 'observation_mode': 'high-sensitive mode full (quad.) polarimetry', 'observation_direction': 'right "
   "looking', 'processing_level': 'level 1.5', 'processing_option': 'geo-code', 'map_projection': 'UTM', 'orbit_direction': 'ascending'}")),
 ('IMG-HH-ALOS2999999999-991231-HBQR1.5GUA-F2',
  ('returns',
   'dict',
   "{'filetype': 'IMG', 'polarization': 'HH', 'mission_name': 'ALOS2', 'orbit_accumulation': '99999', 'scene_frame': '9999', 'date': "
   "datetime.datetime(1999, 12, 31, 0, 0), 'observation_mode': 'high-sensitive mode full (quad.) polarimetry', 'observation_direction': 'right "
   "looking', 'processing_level': 'level 1.5', 'processing_option': 'geo-code', 'map_projection': 'UTM', 'orbit_direction': 'ascending', "
   "'processing_method': 'full aperture_method', 'scan_number': '2'}")),
 ('IMG-HH-ABC12225333200-200229-HBQR1.5GUA',
  ('returns',
   'dict',
   "{'filetype': 'IMG', 'polarization': 'HH', 'mission_name': 'ABC12', 'orbit_accumulation': '22533', 'scene_frame': '3200', 'date': "
   "datetime.datetime(2020, 2, 29, 0, 0), 'observation_mode': 'high-sensitive mode full (quad.) polarimetry', 'observation_direction': 'right "
   "looking', 'processing_level': 'level 1.5', 'processing_option': 'geo-code', 'map_projection': 'UTM', 'orbit_direction': 'ascending'}")),
 ('IMG-HH-ABC12225333200-200229-HBQR1.5GUA-F2',
  ('returns',
   'dict',
   "{'filetype': 'IMG', 'polarization': 'HH', 'mission_name': 'ABC12', 'orbit_accumulation': '22533', 'scene_frame': '3200', 'date': "
   "datetime.datetime(2020, 2, 29, 0, 0), 'observation_mode': 'high-sensitive mode full (quad.) polarimetry', 'observation_direction': 'right "
   "looking', 'processing_level': 'level 1.5', 'processing_option': 'geo-code', 'map_projection': 'UTM', 'orbit_direction': 'ascending', "
   "'processing_method': 'full aperture_method', 'scan_number': '2'}")),
 ('IMG-HH-ALOS2225333200-180732-HBQR1.5GUA',
  ('raises', 'ValueError', 'invalid scene id: ALOS2225333200-180732', ('ValueError', 'unconverted data remains: 2'), True)),
 ('IMG-HH-ALOS2225333200-180732-HBQR1.5GUA-F2',
  ('raises', 'ValueError', 'invalid scene id: ALOS2225333200-180732', ('ValueError', 'unconverted data remains: 2'), True)),
 ('IMG-HH-ALOS2225333200-181301-HBQR1.5GUA',
  ('raises', 'ValueError', 'invalid scene id: ALOS2225333200-181301', ('ValueError', 'unconverted data remains: 1'), True)),
 ('IMG-HH-ALOS2225333200-181301-HBQR1.5GUA-F2',
  ('raises', 'ValueError', 'invalid scene id: ALOS2225333200-181301', ('ValueError', 'unconverted data remains: 1'), True)),
 ('IMG-HH-ALOS2225333200-190229-HBQR1.5GUA',
  ('raises', 'ValueError', 'invalid scene id: ALOS2225333200-190229', ('ValueError', 'day is out of range for month'), True)),
 ('IMG-HH-ALOS2225333200-190229-HBQR1.5GUA-F2',
  ('raises', 'ValueError', 'invalid scene id: ALOS2225333200-190229', ('ValueError', 'day is out of range for month'), True)),
 ('IMG-HH-ALOS2225333200-000000-HBQR1.5GUA',
  ('raises', 'ValueError', 'invalid scene id: ALOS2225333200-000000', ('ValueError', "time data '000000' does not match format '%y%m%d'"), True)),
 ('IMG-HH-ALOS2225333200-000000-HBQR1.5GUA-F2',
  ('raises', 'ValueError', 'invalid scene id: ALOS2225333200-000000', ('ValueError', "time data '000000' does not match format '%y%m%d'"), True)),
 ('IMG-HH-alos2225333200-180726-HBQR1.5GUA', ('raises', 'ValueError', 'invalid file name: IMG-HH-alos2225333200-180726-HBQR1.5GUA', None, False)),
 ('IMG-HH-alos2225333200-180726-HBQR1.5GUA-F2',
  ('raises', 'ValueError', 'invalid file name: IMG-HH-alos2225333200-180726-HBQR1.5GUA-F2', None, False)),
 ('IMG-HH-ALOS222533320-180726-HBQR1.5GUA', ('raises', 'ValueError', 'invalid file name: IMG-HH-ALOS222533320-180726-HBQR1.5GUA', None, False)),
 ('IMG-HH-ALOS222533320-180726-HBQR1.5GUA-F2', ('raises', 'ValueError', 'invalid file name: IMG-HH-ALOS222533320-180726-HBQR1.5GUA-F2', None, False)),
 ('IMG-HH-ALOS22253332000-18072-HBQR1.5GUA', ('raises', 'ValueError', 'invalid file name: IMG-HH-ALOS22253332000-18072-HBQR1.5GUA', None, False)),
 ('IMG-HH-ALOS22253332000-18072-HBQR1.5GUA-F2',
  ('raises', 'ValueError', 'invalid file name: IMG-HH-ALOS22253332000-18072-HBQR1.5GUA-F2', None, False)),
 ('LED-ALOS2225333200-180726-SBSR1.1__D',
  ('returns',
   'dict',
   "{'filetype': 'LED', 'polarization': None, 'mission_name': 'ALOS2', 'orbit_accumulation': '22533', 'scene_frame': '3200', 'date': "
   "datetime.datetime(2018, 7, 26, 0, 0), 'observation_mode': 'spotlight mode', 'observation_direction': 'right looking', 'processing_level': 'level "
   "1.1', 'processing_option': 'not specified', 'map_projection': 'not specified', 'orbit_direction': 'descending'}")),
 ('IMG-VV-ALOS2225333200-180726-SBSR1.1__D-B3',
  ('returns',
   'dict',
   "{'filetype': 'IMG', 'polarization': 'VV', 'mission_name': 'ALOS2', 'orbit_accumulation': '22533', 'scene_frame': '3200', 'date': "
   "datetime.datetime(2018, 7, 26, 0, 0), 'observation_mode': 'spotlight mode', 'observation_direction': 'right looking', 'processing_level': 'level "
   "1.1', 'processing_option': 'not specified', 'map_projection': 'not specified', 'orbit_direction': 'descending', 'processing_method': 'SPECAN "
   "method', 'scan_number': '3'}")),
 ('LED-ALOS2225333200-180726-UBSR1.1__D',
  ('returns',
   'dict',
   "{'filetype': 'LED', 'polarization': None, 'mission_name': 'ALOS2', 'orbit_accumulation': '22533', 'scene_frame': '3200', 'date': "
   "datetime.datetime(2018, 7, 26, 0, 0), 'observation_mode': 'ultra-fine mode single polarization', 'observation_direction': 'right looking', "
   "'processing_level': 'level 1.1', 'processing_option': 'not specified', 'map_projection': 'not specified', 'orbit_direction': 'descending'}")),
 ('IMG-VV-ALOS2225333200-180726-UBSR1.1__D-B3',
  ('returns',
   'dict',
   "{'filetype': 'IMG', 'polarization': 'VV', 'mission_name': 'ALOS2', 'orbit_accumulation': '22533', 'scene_frame': '3200', 'date': "
   "datetime.datetime(2018, 7, 26, 0, 0), 'observation_mode': 'ultra-fine mode single polarization', 'observation_direction': 'right looking', "
   "'processing_level': 'level 1.1', 'processing_option': 'not specified', 'map_projection': 'not specified', 'orbit_direction': 'descending', "
   "'processing_method': 'SPECAN method', 'scan_number': '3'}")),
 ('LED-ALOS2225333200-180726-UBDR1.1__D',
  ('returns',
   'dict',
   "{'filetype': 'LED', 'polarization': None, 'mission_name': 'ALOS2', 'orbit_accumulation': '22533', 'scene_frame': '3200', 'date': "
   "datetime.datetime(2018, 7, 26, 0, 0), 'observation_mode': 'ultra-fine mode dual polarization', 'observation_direction': 'right looking', "
   "'processing_level': 'level 1.1', 'processing_option': 'not specified', 'map_projection': 'not specified', 'orbit_direction': 'descending'}")),
 ('IMG-VV-ALOS2225333200-180726-UBDR1.1__D-B3',
  ('returns',
   'dict',
   "{'filetype': 'IMG', 'polarization': 'VV', 'mission_name': 'ALOS2', 'orbit_accumulation': '22533', 'scene_frame': '3200', 'date': "
   "datetime.datetime(2018, 7, 26, 0, 0), 'observation_mode': 'ultra-fine mode dual polarization', 'observation_direction': 'right looking', "
   "'processing_level': 'level 1.1', 'processing_option': 'not specified', 'map_projection': 'not specified', 'orbit_direction': 'descending', "
   "'processing_method': 'SPECAN method', 'scan_number': '3'}")),
 ('LED-ALOS2225333200-180726-HBSR1.1__D',
  ('returns',
   'dict',
   "{'filetype': 'LED', 'polarization': None, 'mission_name': 'ALOS2', 'orbit_accumulation': '22533', 'scene_frame': '3200', 'date': "
   "datetime.datetime(2018, 7, 26, 0, 0), 'observation_mode': 'high-sensitive mode single polarization', 'observation_direction': 'right looking', "
   "'processing_level': 'level 1.1', 'processing_option': 'not specified', 'map_projection': 'not specified', 'orbit_direction': 'descending'}")),
 ('IMG-VV-ALOS2225333200-180726-HBSR1.1__D-B3',
  ('returns',
   'dict',
   "{'filetype': 'IMG', 'polarization': 'VV', 'mission_name': 'ALOS2', 'orbit_accumulation': '22533', 'scene_frame': '3200', 'date': "
   "datetime.datetime(2018, 7, 26, 0, 0), 'observation_mode': 'high-sensitive mode single polarization', 'observation_direction': 'right looking', "
   "'processing_level': 'level 1.1', 'processing_option': 'not specified', 'map_projection': 'not specified', 'orbit_direction': 'descending', "
   "'processing_method': 'SPECAN method', 'scan_number': '3'}")),
 ('LED-ALOS2225333200-180726-HBDR1.1__D',
  ('returns',
   'dict',
   "{'filetype': 'LED', 'polarization': None, 'mission_name': 'ALOS2', 'orbit_accumulation': '22533', 'scene_frame': '3200', 'date': "
   "datetime.datetime(2018, 7, 26, 0, 0), 'observation_mode': 'high-sensitive mode dual polarization', 'observation_direction': 'right looking', "
   "'processing_level': 'level 1.1', 'processing_option': 'not specified', 'map_projection': 'not specified', 'orbit_direction': 'descending'}")),
 ('IMG-VV-ALOS2225333200-180726-HBDR1.1__D-B3',
  ('returns',
   'dict',
   "{'filetype': 'IMG', 'polarization': 'VV', 'mission_name': 'ALOS2', 'orbit_accumulation': '22533', 'scene_frame': '3200', 'date': "
   "datetime.datetime(2018, 7, 26, 0, 0), 'observation_mode': 'high-sensitive mode dual polarization', 'observation_direction': 'right looking', "
   "'processing_level': 'level 1.1', 'processing_option': 'not specified', 'map_projection': 'not specified', 'orbit_direction': 'descending', "
   "'processing_method': 'SPECAN method', 'scan_number': '3'}")),
 ('LED-ALOS2225333200-180726-HBQR1.1__D',
  ('returns',
   'dict',
   "{'filetype': 'LED', 'polarization': None, 'mission_name': 'ALOS2', 'orbit_accumulation': '22533', 'scene_frame': '3200', 'date': "
   "datetime.datetime(2018, 7, 26, 0, 0), 'observation_mode': 'high-sensitive mode full (quad.) polarimetry', 'observation_direction': 'right "
   "looking', 'processing_level': 'level 1.1', 'processing_option': 'not specified', 'map_projection': 'not specified', 'orbit_direction': "
   "'descending'}")),
 ('IMG-VV-ALOS2225333200-180726-HBQR1.1__D-B3',
  ('returns',
   'dict',
   "{'filetype': 'IMG', 'polarization': 'VV', 'mission_name': 'ALOS2', 'orbit_accumulation': '22533', 'scene_frame': '3200', 'date': "
   "datetime.datetime(2018, 7, 26, 0, 0), 'observation_mode': 'high-sensitive mode full (quad.) polarimetry', 'observation_direction': 'right "
   "looking', 'processing_level': 'level 1.1', 'processing_option': 'not specified', 'map_projection': 'not specified', 'orbit_direction': "
   "'descending', 'processing_method': 'SPECAN method', 'scan_number': '3'}")),
 ('LED-ALOS2225333200-180726-FBSR1.1__D',
  ('returns',
   'dict',
   "{'filetype': 'LED', 'polarization': None, 'mission_name': 'ALOS2', 'orbit_accumulation': '22533', 'scene_frame': '3200', 'date': "
   "datetime.datetime(2018, 7, 26, 0, 0), 'observation_mode': 'fine mode single polarization', 'observation_direction': 'right looking', "
   "'processing_level': 'level 1.1', 'processing_option': 'not specified', 'map_projection': 'not specified', 'orbit_direction': 'descending'}")),
 ('IMG-VV-ALOS2225333200-180726-FBSR1.1__D-B3',
  ('returns',
   'dict',
   "{'filetype': 'IMG', 'polarization': 'VV', 'mission_name': 'ALOS2', 'orbit_accumulation': '22533', 'scene_frame': '3200', 'date': "
   "datetime.datetime(2018, 7, 26, 0, 0), 'observation_mode': 'fine mode single polarization', 'observation_direction': 'right looking', "
   "'processing_level': 'level 1.1', 'processing_option': 'not specified', 'map_projection': 'not specified', 'orbit_direction': 'descending', "
   "'processing_method': 'SPECAN method', 'scan_number': '3'}")),
 ('LED-ALOS2225333200-180726-FBDR1.1__D',
  ('returns',
   'dict',
   "{'filetype': 'LED', 'polarization': None, 'mission_name': 'ALOS2', 'orbit_accumulation': '22533', 'scene_frame': '3200', 'date': "
   "datetime.datetime(2018, 7, 26, 0, 0), 'observation_mode': 'fine mode dual polarization', 'observation_direction': 'right looking', "
   "'processing_level': 'level 1.1', 'processing_option': 'not specified', 'map_projection': 'not specified', 'orbit_direction': 'descending'}")),
 ('IMG-VV-ALOS2225333200-180726-FBDR1.1__D-B3',
  ('returns',
   'dict',
   "{'filetype': 'IMG', 'polarization': 'VV', 'mission_name': 'ALOS2', 'orbit_accumulation': '22533', 'scene_frame': '3200', 'date': "
   "datetime.datetime(2018, 7, 26, 0, 0), 'observation_mode': 'fine mode dual polarization', 'observation_direction': 'right looking', "
   "'processing_level': 'level 1.1', 'processing_option': 'not specified', 'map_projection': 'not specified', 'orbit_direction': 'descending', "
   "'processing_method': 'SPECAN method', 'scan_number': '3'}")),
 ('LED-ALOS2225333200-180726-FBQR1.1__D',
  ('returns',
   'dict',
   "{'filetype': 'LED', 'polarization': None, 'mission_name': 'ALOS2', 'orbit_accumulation': '22533', 'scene_frame': '3200', 'date': "
   "datetime.datetime(2018, 7, 26, 0, 0), 'observation_mode': 'fine mode full (quad.) polarimetry', 'observation_direction': 'right looking', "
   "'processing_level': 'level 1.1', 'processing_option': 'not specified', 'map_projection': 'not specified', 'orbit_direction': 'descending'}")),
 ('IMG-VV-ALOS2225333200-180726-FBQR1.1__D-B3',
  ('returns',
   'dict',
   "{'filetype': 'IMG', 'polarization': 'VV', 'mission_name': 'ALOS2', 'orbit_accumulation': '22533', 'scene_frame': '3200', 'date': "
   "datetime.datetime(2018, 7, 26, 0, 0), 'observation_mode': 'fine mode full (quad.) polarimetry', 'observation_direction': 'right looking', "
   "'processing_level': 'level 1.1', 'processing_option': 'not specified', 'map_projection': 'not specified', 'orbit_direction': 'descending', "
   "'processing_method': 'SPECAN method', 'scan_number': '3'}")),
 ('LED-ALOS2225333200-180726-WBSR1.1__D',
  ('returns',
   'dict',
   "{'filetype': 'LED', 'polarization': None, 'mission_name': 'ALOS2', 'orbit_accumulation': '22533', 'scene_frame': '3200', 'date': "
   "datetime.datetime(2018, 7, 26, 0, 0), 'observation_mode': 'ScanSAR nominal 14MHz mode single polarization', 'observation_direction': 'right "
   "looking', 'processing_level': 'level 1.1', 'processing_option': 'not specified', 'map_projection': 'not specified', 'orbit_direction': "
   "'descending'}")),
 ('IMG-VV-ALOS2225333200-180726-WBSR1.1__D-B3',
  ('returns',
   'dict',
   "{'filetype': 'IMG', 'polarization': 'VV', 'mission_name': 'ALOS2', 'orbit_accumulation': '22533', 'scene_frame': '3200', 'date': "
   "datetime.datetime(2018, 7, 26, 0, 0), 'observation_mode': 'ScanSAR nominal 14MHz mode single polarization', 'observation_direction': 'right "
   "looking', 'processing_level': 'level 1.1', 'processing_option': 'not specified', 'map_projection': 'not specified', 'orbit_direction': "
   "'descending', 'processing_method': 'SPECAN method', 'scan_number': '3'}")),
 ('LED-ALOS2225333200-180726-WBDR1.1__D',
  ('returns',
   'dict',
   "{'filetype': 'LED', 'polarization': None, 'mission_name': 'ALOS2', 'orbit_accumulation': '22533', 'scene_frame': '3200', 'date': "
   "datetime.datetime(2018, 7, 26, 0, 0), 'observation_mode': 'ScanSAR nominal 14MHz mode dual polarization', 'observation_direction': 'right "
   "looking', 'processing_level': 'level 1.1', 'processing_option': 'not specified', 'map_projection': 'not specified', 'orbit_direction': "
   "'descending'}")),
 ('IMG-VV-ALOS2225333200-180726-WBDR1.1__D-B3',
  ('returns',
   'dict',
   "{'filetype': 'IMG', 'polarization': 'VV', 'mission_name': 'ALOS2', 'orbit_accumulation': '22533', 'scene_frame': '3200', 'date': "
   "datetime.datetime(2018, 7, 26, 0, 0), 'observation_mode': 'ScanSAR nominal 14MHz mode dual polarization', 'observation_direction': 'right "
   "looking', 'processing_level': 'level 1.1', 'processing_option': 'not specified', 'map_projection': 'not specified', 'orbit_direction': "
   "'descending', 'processing_method': 'SPECAN method', 'scan_number': '3'}")),
 ('LED-ALOS2225333200-180726-WWSR1.1__D',
  ('returns',
   'dict',
   "{'filetype': 'LED', 'polarization': None, 'mission_name': 'ALOS2', 'orbit_accumulation': '22533', 'scene_frame': '3200', 'date': "
   "datetime.datetime(2018, 7, 26, 0, 0), 'observation_mode': 'ScanSAR nominal 28MHz mode single polarization', 'observation_direction': 'right "
   "looking', 'processing_level': 'level 1.1', 'processing_option': 'not specified', 'map_projection': 'not specified', 'orbit_direction': "
   "'descending'}")),
 ('IMG-VV-ALOS2225333200-180726-WWSR1.1__D-B3',
  ('returns',
   'dict',
   "{'filetype': 'IMG', 'polarization': 'VV', 'mission_name': 'ALOS2', 'orbit_accumulation': '22533', 'scene_frame': '3200', 'date': "
   "datetime.datetime(2018, 7, 26, 0, 0), 'observation_mode': 'ScanSAR nominal 28MHz mode single polarization', 'observation_direction': 'right "
   "looking', 'processing_level': 'level 1.1', 'processing_option': 'not specified', 'map_projection': 'not specified', 'orbit_direction': "
   "'descending', 'processing_method': 'SPECAN method', 'scan_number': '3'}")),
 ('LED-ALOS2225333200-180726-WWDR1.1__D',
  ('returns',
   'dict',
   "{'filetype': 'LED', 'polarization': None, 'mission_name': 'ALOS2', 'orbit_accumulation': '22533', 'scene_frame': '3200', 'date': "
   "datetime.datetime(2018, 7, 26, 0, 0), 'observation_mode': 'ScanSAR nominal 28MHz mode dual polarization', 'observation_direction': 'right "
   "looking', 'processing_level': 'level 1.1', 'processing_option': 'not specified', 'map_projection': 'not specified', 'orbit_direction': "
   "'descending'}")),
 ('IMG-VV-ALOS2225333200-180726-WWDR1.1__D-B3',
  ('returns',
   'dict',
   "{'filetype': 'IMG', 'polarization': 'VV', 'mission_name': 'ALOS2', 'orbit_accumulation': '22533', 'scene_frame': '3200', 'date': "
   "datetime.datetime(2018, 7, 26, 0, 0), 'observation_mode': 'ScanSAR nominal 28MHz mode dual polarization', 'observation_direction': 'right "
   "looking', 'processing_level': 'level 1.1', 'processing_option': 'not specified', 'map_projection': 'not specified', 'orbit_direction': "
   "'descending', 'processing_method': 'SPECAN method', 'scan_number': '3'}")),
 ('LED-ALOS2225333200-180726-VBSR1.1__D',
  ('returns',
   'dict',
   "{'filetype': 'LED', 'polarization': None, 'mission_name': 'ALOS2', 'orbit_accumulation': '22533', 'scene_frame': '3200', 'date': "
   "datetime.datetime(2018, 7, 26, 0, 0), 'observation_mode': 'ScanSAR wide mode single polarization', 'observation_direction': 'right looking', "
   "'processing_level': 'level 1.1', 'processing_option': 'not specified', 'map_projection': 'not specified', 'orbit_direction': 'descending'}")),
 ('IMG-VV-ALOS2225333200-180726-VBSR1.1__D-B3',
  ('returns',
   'dict',
   "{'filetype': 'IMG', 'polarization': 'VV', 'mission_name': 'ALOS2', 'orbit_accumulation': '22533', 'scene_frame': '3200', 'date': "
   "datetime.datetime(2018, 7, 26, 0, 0), 'observation_mode': 'ScanSAR wide mode single polarization', 'observation_direction': 'right looking', "
   "'processing_level': 'level 1.1', 'processing_option': 'not specified', 'map_projection': 'not specified', 'orbit_direction': 'descending', "
   "'processing_method': 'SPECAN method', 'scan_number': '3'}")),
 ('LED-ALOS2225333200-180726-VBDR1.1__D',
  ('returns',
   'dict',
   "{'filetype': 'LED', 'polarization': None, 'mission_name': 'ALOS2', 'orbit_accumulation': '22533', 'scene_frame': '3200', 'date': "
   "datetime.datetime(2018, 7, 26, 0, 0), 'observation_mode': 'ScanSAR wide mode dual polarization', 'observation_direction': 'right looking', "
   "'processing_level': 'level 1.1', 'processing_option': 'not specified', 'map_projection': 'not specified', 'orbit_direction': 'descending'}")),
 ('IMG-VV-ALOS2225333200-180726-VBDR1.1__D-B3',
  ('returns',
   'dict',
   "{'filetype': 'IMG', 'polarization': 'VV', 'mission_name': 'ALOS2', 'orbit_accumulation': '22533', 'scene_frame': '3200', 'date': "
   "datetime.datetime(2018, 7, 26, 0, 0), 'observation_mode': 'ScanSAR wide mode dual polarization', 'observation_direction': 'right looking', "
   "'processing_level': 'level 1.1', 'processing_option': 'not specified', 'map_projection': 'not specified', 'orbit_direction': 'descending', "
   "'processing_method': 'SPECAN method', 'scan_number': '3'}")),
 ('LED-ALOS2225333200-180726-XXXR1.1__D', ('raises', 'ValueError', 'invalid product id: XXXR1.1__D', ('ValueError', "invalid code 'XXX'"), True)),
 ('IMG-VV-ALOS2225333200-180726-XXXR1.1__D-B3',
  ('raises', 'ValueError', 'invalid product id: XXXR1.1__D', ('ValueError', "invalid code 'XXX'"), True)),
 ('LED-ALOS2225333200-180726-AB1R1.1__D', ('raises', 'ValueError', 'invalid product id: AB1R1.1__D', None, False)),
 ('IMG-VV-ALOS2225333200-180726-AB1R1.1__D-B3', ('raises', 'ValueError', 'invalid product id: AB1R1.1__D', None, False)),
 ('LED-ALOS2225333200-180726-WWDL1.0GUA',
  ('returns',
   'dict',
   "{'filetype': 'LED', 'polarization': None, 'mission_name': 'ALOS2', 'orbit_accumulation': '22533', 'scene_frame': '3200', 'date': "
   "datetime.datetime(2018, 7, 26, 0, 0), 'observation_mode': 'ScanSAR nominal 28MHz mode dual polarization', 'observation_direction': 'left "
   "looking', 'processing_level': 'level 1.0', 'processing_option': 'geo-code', 'map_projection': 'UTM', 'orbit_direction': 'ascending'}")),
 ('IMG-VV-ALOS2225333200-180726-WWDL1.0GUA-B3',
  ('returns',
   'dict',
   "{'filetype': 'IMG', 'polarization': 'VV', 'mission_name': 'ALOS2', 'orbit_accumulation': '22533', 'scene_frame': '3200', 'date': "
   "datetime.datetime(2018, 7, 26, 0, 0), 'observation_mode': 'ScanSAR nominal 28MHz mode dual polarization', 'observation_direction': 'left "
   "looking', 'processing_level': 'level 1.0', 'processing_option': 'geo-code', 'map_projection': 'UTM', 'orbit_direction': 'ascending', "
   "'processing_method': 'SPECAN method', 'scan_number': '3'}")),
 ('LED-ALOS2225333200-180726-WWDL1.1GUA',
  ('returns',
   'dict',
   "{'filetype': 'LED', 'polarization': None, 'mission_name': 'ALOS2', 'orbit_accumulation': '22533', 'scene_frame': '3200', 'date': "
   "datetime.datetime(2018, 7, 26, 0, 0), 'observation_mode': 'ScanSAR nominal 28MHz mode dual polarization', 'observation_direction': 'left "
   "looking', 'processing_level': 'level 1.1', 'processing_option': 'geo-code', 'map_projection': 'UTM', 'orbit_direction': 'ascending'}")),
 ('IMG-VV-ALOS2225333200-180726-WWDL1.1GUA-B3',
  ('returns',
   'dict',
   "{'filetype': 'IMG', 'polarization': 'VV', 'mission_name': 'ALOS2', 'orbit_accumulation': '22533', 'scene_frame': '3200', 'date': "
   "datetime.datetime(2018, 7, 26, 0, 0), 'observation_mode': 'ScanSAR nominal 28MHz mode dual polarization', 'observation_direction': 'left "
   "looking', 'processing_level': 'level 1.1', 'processing_option': 'geo-code', 'map_projection': 'UTM', 'orbit_direction': 'ascending', "
   "'processing_method': 'SPECAN method', 'scan_number': '3'}")),
 ('LED-ALOS2225333200-180726-WWDL1.5GUA',
  ('returns',
   'dict',
   "{'filetype': 'LED', 'polarization': None, 'mission_name': 'ALOS2', 'orbit_accumulation': '22533', 'scene_frame': '3200', 'date': "
   "datetime.datetime(2018, 7, 26, 0, 0), 'observation_mode': 'ScanSAR nominal 28MHz mode dual polarization', 'observation_direction': 'left "
   "looking', 'processing_level': 'level 1.5', 'processing_option': 'geo-code', 'map_projection': 'UTM', 'orbit_direction': 'ascending'}")),
 ('IMG-VV-ALOS2225333200-180726-WWDL1.5GUA-B3',
  ('returns',
   'dict',
   "{'filetype': 'IMG', 'polarization': 'VV', 'mission_name': 'ALOS2', 'orbit_accumulation': '22533', 'scene_frame': '3200', 'date': "
   "datetime.datetime(2018, 7, 26, 0, 0), 'observation_mode': 'ScanSAR nominal 28MHz mode dual polarization', 'observation_direction': 'left "
   "looking', 'processing_level': 'level 1.5', 'processing_option': 'geo-code', 'map_projection': 'UTM', 'orbit_direction': 'ascending', "
   "'processing_method': 'SPECAN method', 'scan_number': '3'}")),
 ('LED-ALOS2225333200-180726-WWDL3.1GUA',
  ('returns',
   'dict',
   "{'filetype': 'LED', 'polarization': None, 'mission_name': 'ALOS2', 'orbit_accumulation': '22533', 'scene_frame': '3200', 'date': "
   "datetime.datetime(2018, 7, 26, 0, 0), 'observation_mode': 'ScanSAR nominal 28MHz mode dual polarization', 'observation_direction': 'left "
   "looking', 'processing_level': 'level 3.1', 'processing_option': 'geo-code', 'map_projection': 'UTM', 'orbit_direction': 'ascending'}")),
 ('IMG-VV-ALOS2225333200-180726-WWDL3.1GUA-B3',
  ('returns',
   'dict',
   "{'filetype': 'IMG', 'polarization': 'VV', 'mission_name': 'ALOS2', 'orbit_accumulation': '22533', 'scene_frame': '3200', 'date': "
   "datetime.datetime(2018, 7, 26, 0, 0), 'observation_mode': 'ScanSAR nominal 28MHz mode dual polarization', 'observation_direction': 'left "
   "looking', 'processing_level': 'level 3.1', 'processing_option': 'geo-code', 'map_projection': 'UTM', 'orbit_direction': 'ascending', "
   "'processing_method': 'SPECAN method', 'scan_number': '3'}")),
 ('LED-ALOS2225333200-180726-WWDL2.1GUA', ('raises', 'ValueError', 'invalid product id: WWDL2.1GUA', None, False)),
 ('IMG-VV-ALOS2225333200-180726-WWDL2.1GUA-B3', ('raises', 'ValueError', 'invalid product id: WWDL2.1GUA', None, False)),
 ('LED-ALOS2225333200-180726-WWDL1_5GUA', ('raises', 'ValueError', 'invalid product id: WWDL1_5GUA', None, False)),
 ('IMG-VV-ALOS2225333200-180726-WWDL1_5GUA-B3', ('raises', 'ValueError', 'invalid product id: WWDL1_5GUA', None, False)),
 ('LED-ALOS2225333200-180726-WWDR1.0GUA',
  ('returns',
   'dict',
   "{'filetype': 'LED', 'polarization': None, 'mission_name': 'ALOS2', 'orbit_accumulation': '22533', 'scene_frame': '3200', 'date': "
   "datetime.datetime(2018, 7, 26, 0, 0), 'observation_mode': 'ScanSAR nominal 28MHz mode dual polarization', 'observation_direction': 'right "
   "looking', 'processing_level': 'level 1.0', 'processing_option': 'geo-code', 'map_projection': 'UTM', 'orbit_direction': 'ascending'}")),
 ('IMG-VV-ALOS2225333200-180726-WWDR1.0GUA-B3',
  ('returns',
   'dict',
   "{'filetype': 'IMG', 'polarization': 'VV', 'mission_name': 'ALOS2', 'orbit_accumulation': '22533', 'scene_frame': '3200', 'date': "
   "datetime.datetime(2018, 7, 26, 0, 0), 'observation_mode': 'ScanSAR nominal 28MHz mode dual polarization', 'observation_direction': 'right "
   "looking', 'processing_level': 'level 1.0', 'processing_option': 'geo-code', 'map_projection': 'UTM', 'orbit_direction': 'ascending', "
   "'processing_method': 'SPECAN method', 'scan_number': '3'}")),
 ('LED-ALOS2225333200-180726-WWDR1.1GUA',
  ('returns',
   'dict',
   "{'filetype': 'LED', 'polarization': None, 'mission_name': 'ALOS2', 'orbit_accumulation': '22533', 'scene_frame': '3200', 'date': "
   "datetime.datetime(2018, 7, 26, 0, 0), 'observation_mode': 'ScanSAR nominal 28MHz mode dual polarization', 'observation_direction': 'right "
   "looking', 'processing_level': 'level 1.1', 'processing_option': 'geo-code', 'map_projection': 'UTM', 'orbit_direction': 'ascending'}")),
 ('IMG-VV-ALOS2225333200-180726-WWDR1.1GUA-B3',
  ('returns',
   'dict',
   "{'filetype': 'IMG', 'polarization': 'VV', 'mission_name': 'ALOS2', 'orbit_accumulation': '22533', 'scene_frame': '3200', 'date': "
   "datetime.datetime(2018, 7, 26, 0, 0), 'observation_mode': 'ScanSAR nominal 28MHz mode dual polarization', 'observation_direction': 'right "
   "looking', 'processing_level': 'level 1.1', 'processing_option': 'geo-code', 'map_projection': 'UTM', 'orbit_direction': 'ascending', "
   "'processing_method': 'SPECAN method', 'scan_number': '3'}")),
 ('LED-ALOS2225333200-180726-WWDR1.5GUA',
  ('returns',
   'dict',
   "{'filetype': 'LED', 'polarization': None, 'mission_name': 'ALOS2', 'orbit_accumulation': '22533', 'scene_frame': '3200', 'date': "
   "datetime.datetime(2018, 7, 26, 0, 0), 'observation_mode': 'ScanSAR nominal 28MHz mode dual polarization', 'observation_direction': 'right "
   "looking', 'processing_level': 'level 1.5', 'processing_option': 'geo-code', 'map_projection': 'UTM', 'orbit_direction': 'ascending'}")),
 ('IMG-VV-ALOS2225333200-180726-WWDR1.5GUA-B3',
  ('returns',
   'dict',
   "{'filetype': 'IMG', 'polarization': 'VV', 'mission_name': 'ALOS2', 'orbit_accumulation': '22533', 'scene_frame': '3200', 'date': "
   "datetime.datetime(2018, 7, 26, 0, 0), 'observation_mode': 'ScanSAR nominal 28MHz mode dual polarization', 'observation_direction': 'right "
   "looking', 'processing_level': 'level 1.5', 'processing_option': 'geo-code', 'map_projection': 'UTM', 'orbit_direction': 'ascending', "
   "'processing_method': 'SPECAN method', 'scan_number': '3'}")),
 ('LED-ALOS2225333200-180726-WWDR3.1GUA',
  ('returns',
   'dict',
   "{'filetype': 'LED', 'polarization': None, 'mission_name': 'ALOS2', 'orbit_accumulation': '22533', 'scene_frame': '3200', 'date': "
   "datetime.datetime(2018, 7, 26, 0, 0), 'observation_mode': 'ScanSAR nominal 28MHz mode dual polarization', 'observation_direction': 'right "
   "looking', 'processing_level': 'level 3.1', 'processing_option': 'geo-code', 'map_projection': 'UTM', 'orbit_direction': 'ascending'}")),
 ('IMG-VV-ALOS2225333200-180726-WWDR3.1GUA-B3',
  ('returns',
   'dict',
   "{'filetype': 'IMG', 'polarization': 'VV', 'mission_name': 'ALOS2', 'orbit_accumulation': '22533', 'scene_frame': '3200', 'date': "
   "datetime.datetime(2018, 7, 26, 0, 0), 'observation_mode': 'ScanSAR nominal 28MHz mode dual polarization', 'observation_direction': 'right "
   "looking', 'processing_level': 'level 3.1', 'processing_option': 'geo-code', 'map_projection': 'UTM', 'orbit_direction': 'ascending', "
   "'processing_method': 'SPECAN method', 'scan_number': '3'}")),
 ('LED-ALOS2225333200-180726-WWDR2.1GUA', ('raises', 'ValueError', 'invalid product id: WWDR2.1GUA', None, False)),
 ('IMG-VV-ALOS2225333200-180726-WWDR2.1GUA-B3', ('raises', 'ValueError', 'invalid product id: WWDR2.1GUA', None, False)),
 ('LED-ALOS2225333200-180726-WWDR1_5GUA', ('raises', 'ValueError', 'invalid product id: WWDR1_5GUA', None, False)),
 ('IMG-VV-ALOS2225333200-180726-WWDR1_5GUA-B3', ('raises', 'ValueError', 'invalid product id: WWDR1_5GUA', None, False)),
 ('LED-ALOS2225333200-180726-WWDX1.0GUA', ('raises', 'ValueError', 'invalid product id: WWDX1.0GUA', None, False)),
 ('IMG-VV-ALOS2225333200-180726-WWDX1.0GUA-B3', ('raises', 'ValueError', 'invalid product id: WWDX1.0GUA', None, False)),
 ('LED-ALOS2225333200-180726-WWDX1.1GUA', ('raises', 'ValueError', 'invalid product id: WWDX1.1GUA', None, False)),
 ('IMG-VV-ALOS2225333200-180726-WWDX1.1GUA-B3', ('raises', 'ValueError', 'invalid product id: WWDX1.1GUA', None, False)),
 ('LED-ALOS2225333200-180726-WWDX1.5GUA', ('raises', 'ValueError', 'invalid product id: WWDX1.5GUA', None, False)),
 ('IMG-VV-ALOS2225333200-180726-WWDX1.5GUA-B3', ('raises', 'ValueError', 'invalid product id: WWDX1.5GUA', None, False)),
 ('LED-ALOS2225333200-180726-WWDX3.1GUA', ('raises', 'ValueError', 'invalid product id: WWDX3.1GUA', None, False)),
 ('IMG-VV-ALOS2225333200-180726-WWDX3.1GUA-B3', ('raises', 'ValueError', 'invalid product id: WWDX3.1GUA', None, False)),
 ('LED-ALOS2225333200-180726-WWDX2.1GUA', ('raises', 'ValueError', 'invalid product id: WWDX2.1GUA', None, False)),
 ('IMG-VV-ALOS2225333200-180726-WWDX2.1GUA-B3', ('raises', 'ValueError', 'invalid product id: WWDX2.1GUA', None, False)),
 ('LED-ALOS2225333200-180726-WWDX1_5GUA', ('raises', 'ValueError', 'invalid product id: WWDX1_5GUA', None, False)),
 ('IMG-VV-ALOS2225333200-180726-WWDX1_5GUA-B3', ('raises', 'ValueError', 'invalid product id: WWDX1_5GUA', None, False)),
 ('LED-ALOS2225333200-180726-FBSL1.5GUA',
  ('returns',
   'dict',
   "{'filetype': 'LED', 'polarization': None, 'mission_name': 'ALOS2', 'orbit_accumulation': '22533', 'scene_frame': '3200', 'date': "
   "datetime.datetime(2018, 7, 26, 0, 0), 'observation_mode': 'fine mode single polarization', 'observation_direction': 'left looking', "
   "'processing_level': 'level 1.5', 'processing_option': 'geo-code', 'map_projection': 'UTM', 'orbit_direction': 'ascending'}")),
 ('IMG-VV-ALOS2225333200-180726-FBSL1.5GUA-B3',
  ('returns',
   'dict',
   "{'filetype': 'IMG', 'polarization': 'VV', 'mission_name': 'ALOS2', 'orbit_accumulation': '22533', 'scene_frame': '3200', 'date': "
   "datetime.datetime(2018, 7, 26, 0, 0), 'observation_mode': 'fine mode single polarization', 'observation_direction': 'left looking', "
   "'processing_level': 'level 1.5', 'processing_option': 'geo-code', 'map_projection': 'UTM', 'orbit_direction': 'ascending', 'processing_method': "
   "'SPECAN method', 'scan_number': '3'}")),
 ('LED-ALOS2225333200-180726-FBSL1.5GUD',
  ('returns',
   'dict',
   "{'filetype': 'LED', 'polarization': None, 'mission_name': 'ALOS2', 'orbit_accumulation': '22533', 'scene_frame': '3200', 'date': "
   "datetime.datetime(2018, 7, 26, 0, 0), 'observation_mode': 'fine mode single polarization', 'observation_direction': 'left looking', "
   "'processing_level': 'level 1.5', 'processing_option': 'geo-code', 'map_projection': 'UTM', 'orbit_direction': 'descending'}")),
 ('IMG-VV-ALOS2225333200-180726-FBSL1.5GUD-B3',
  ('returns',
   'dict',
   "{'filetype': 'IMG', 'polarization': 'VV', 'mission_name': 'ALOS2', 'orbit_accumulation': '22533', 'scene_frame': '3200', 'date': "
   "datetime.datetime(2018, 7, 26, 0, 0), 'observation_mode': 'fine mode single polarization', 'observation_direction': 'left looking', "
   "'processing_level': 'level 1.5', 'processing_option': 'geo-code', 'map_projection': 'UTM', 'orbit_direction': 'descending', 'processing_method': "
   "'SPECAN method', 'scan_number': '3'}")),
 ('LED-ALOS2225333200-180726-FBSL1.5GUX', ('raises', 'ValueError', 'invalid product id: FBSL1.5GUX', None, False)),
 ('IMG-VV-ALOS2225333200-180726-FBSL1.5GUX-B3', ('raises', 'ValueError', 'invalid product id: FBSL1.5GUX', None, False)),
 ('LED-ALOS2225333200-180726-FBSL1.5GPA',
  ('returns',
   'dict',
   "{'filetype': 'LED', 'polarization': None, 'mission_name': 'ALOS2', 'orbit_accumulation': '22533', 'scene_frame': '3200', 'date': "
   "datetime.datetime(2018, 7, 26, 0, 0), 'observation_mode': 'fine mode single polarization', 'observation_direction': 'left looking', "
   "'processing_level': 'level 1.5', 'processing_option': 'geo-code', 'map_projection': 'PS', 'orbit_direction': 'ascending'}")),
 ('IMG-VV-ALOS2225333200-180726-FBSL1.5GPA-B3',
  ('returns',
   'dict',
   "{'filetype': 'IMG', 'polarization': 'VV', 'mission_name': 'ALOS2', 'orbit_accumulation': '22533', 'scene_frame': '3200', 'date': "
   "datetime.datetime(2018, 7, 26, 0, 0), 'observation_mode': 'fine mode single polarization', 'observation_direction': 'left looking', "
   "'processing_level': 'level 1.5', 'processing_option': 'geo-code', 'map_projection': 'PS', 'orbit_direction': 'ascending', 'processing_method': "
   "'SPECAN method', 'scan_number': '3'}")),
 ('LED-ALOS2225333200-180726-FBSL1.5GPD',
  ('returns',
   'dict',
   "{'filetype': 'LED', 'polarization': None, 'mission_name': 'ALOS2', 'orbit_accumulation': '22533', 'scene_frame': '3200', 'date': "
   "datetime.datetime(2018, 7, 26, 0, 0), 'observation_mode': 'fine mode single polarization', 'observation_direction': 'left looking', "
   "'processing_level': 'level 1.5', 'processing_option': 'geo-code', 'map_projection': 'PS', 'orbit_direction': 'descending'}")),
 ('IMG-VV-ALOS2225333200-180726-FBSL1.5GPD-B3',
  ('returns',
   'dict',
   "{'filetype': 'IMG', 'polarization': 'VV', 'mission_name': 'ALOS2', 'orbit_accumulation': '22533', 'scene_frame': '3200', 'date': "
   "datetime.datetime(2018, 7, 26, 0, 0), 'observation_mode': 'fine mode single polarization', 'observation_direction': 'left looking', "
   "'processing_level': 'level 1.5', 'processing_option': 'geo-code', 'map_projection': 'PS', 'orbit_direction': 'descending', 'processing_method': "
   "'SPECAN method', 'scan_number': '3'}")),
 ('LED-ALOS2225333200-180726-FBSL1.5GPX', ('raises', 'ValueError', 'invalid product id: FBSL1.5GPX', None, False)),
 ('IMG-VV-ALOS2225333200-180726-FBSL1.5GPX-B3', ('raises', 'ValueError', 'invalid product id: FBSL1.5GPX', None, False)),
 ('LED-ALOS2225333200-180726-FBSL1.5GMA',
  ('returns',
   'dict',
   "{'filetype': 'LED', 'polarization': None, 'mission_name': 'ALOS2', 'orbit_accumulation': '22533', 'scene_frame': '3200', 'date': "
   "datetime.datetime(2018, 7, 26, 0, 0), 'observation_mode': 'fine mode single polarization', 'observation_direction': 'left looking', "
   "'processing_level': 'level 1.5', 'processing_option': 'geo-code', 'map_projection': 'MER', 'orbit_direction': 'ascending'}")),
 ('IMG-VV-ALOS2225333200-180726-FBSL1.5GMA-B3',
  ('returns',
   'dict',
   "{'filetype': 'IMG', 'polarization': 'VV', 'mission_name': 'ALOS2', 'orbit_accumulation': '22533', 'scene_frame': '3200', 'date': "
   "datetime.datetime(2018, 7, 26, 0, 0), 'observation_mode': 'fine mode single polarization', 'observation_direction': 'left looking', "
   "'processing_level': 'level 1.5', 'processing_option': 'geo-code', 'map_projection': 'MER', 'orbit_direction': 'ascending', 'processing_method': "
   "'SPECAN method', 'scan_number': '3'}")),
 ('LED-ALOS2225333200-180726-FBSL1.5GMD',
  ('returns',
   'dict',
   "{'filetype': 'LED', 'polarization': None, 'mission_name': 'ALOS2', 'orbit_accumulation': '22533', 'scene_frame': '3200', 'date': "
   "datetime.datetime(2018, 7, 26, 0, 0), 'observation_mode': 'fine mode single polarization', 'observation_direction': 'left looking', "
   "'processing_level': 'level 1.5', 'processing_option': 'geo-code', 'map_projection': 'MER', 'orbit_direction': 'descending'}")),
 ('IMG-VV-ALOS2225333200-180726-FBSL1.5GMD-B3',
  ('returns',
   'dict',
   "{'filetype': 'IMG', 'polarization': 'VV', 'mission_name': 'ALOS2', 'orbit_accumulation': '22533', 'scene_frame': '3200', 'date': "
   "datetime.datetime(2018, 7, 26, 0, 0), 'observation_mode': 'fine mode single polarization', 'observation_direction': 'left looking', "
   "'processing_level': 'level 1.5', 'processing_option': 'geo-code', 'map_projection': 'MER', 'orbit_direction': 'descending', 'processing_method': "
   "'SPECAN method', 'scan_number': '3'}")),
 ('LED-ALOS2225333200-180726-FBSL1.5GMX', ('raises', 'ValueError', 'invalid product id: FBSL1.5GMX', None, False)),
 ('IMG-VV-ALOS2225333200-180726-FBSL1.5GMX-B3', ('raises', 'ValueError', 'invalid product id: FBSL1.5GMX', None, False)),
 ('LED-ALOS2225333200-180726-FBSL1.5GLA',
  ('returns',
   'dict',
   "{'filetype': 'LED', 'polarization': None, 'mission_name': 'ALOS2', 'orbit_accumulation': '22533', 'scene_frame': '3200', 'date': "
   "datetime.datetime(2018, 7, 26, 0, 0), 'observation_mode': 'fine mode single polarization', 'observation_direction': 'left looking', "
   "'processing_level': 'level 1.5', 'processing_option': 'geo-code', 'map_projection': 'LCC', 'orbit_direction': 'ascending'}")),
 ('IMG-VV-ALOS2225333200-180726-FBSL1.5GLA-B3',
  ('returns',
   'dict',
   "{'filetype': 'IMG', 'polarization': 'VV', 'mission_name': 'ALOS2', 'orbit_accumulation': '22533', 'scene_frame': '3200', 'date': "
   "datetime.datetime(2018, 7, 26, 0, 0), 'observation_mode': 'fine mode single polarization', 'observation_direction': 'left looking', "
   "'processing_level': 'level 1.5', 'processing_option': 'geo-code', 'map_projection': 'LCC', 'orbit_direction': 'ascending', 'processing_method': "
   "'SPECAN method', 'scan_number': '3'}")),
 ('LED-ALOS2225333200-180726-FBSL1.5GLD',
  ('returns',
   'dict',
   "{'filetype': 'LED', 'polarization': None, 'mission_name': 'ALOS2', 'orbit_accumulation': '22533', 'scene_frame': '3200', 'date': "
   "datetime.datetime(2018, 7, 26, 0, 0), 'observation_mode': 'fine mode single polarization', 'observation_direction': 'left looking', "
   "'processing_level': 'level 1.5', 'processing_option': 'geo-code', 'map_projection': 'LCC', 'orbit_direction': 'descending'}")),
 ('IMG-VV-ALOS2225333200-180726-FBSL1.5GLD-B3',
  ('returns',
   'dict',
   "{'filetype': 'IMG', 'polarization': 'VV', 'mission_name': 'ALOS2', 'orbit_accumulation': '22533', 'scene_frame': '3200', 'date': "
   "datetime.datetime(2018, 7, 26, 0, 0), 'observation_mode': 'fine mode single polarization', 'observation_direction': 'left looking', "
   "'processing_level': 'level 1.5', 'processing_option': 'geo-code', 'map_projection': 'LCC', 'orbit_direction': 'descending', 'processing_method': "
   "'SPECAN method', 'scan_number': '3'}")),
 ('LED-ALOS2225333200-180726-FBSL1.5GLX', ('raises', 'ValueError', 'invalid product id: FBSL1.5GLX', None, False)),
 ('IMG-VV-ALOS2225333200-180726-FBSL1.5GLX-B3', ('raises', 'ValueError', 'invalid product id: FBSL1.5GLX', None, False)),
 ('LED-ALOS2225333200-180726-FBSL1.5G_A',
  ('returns',
   'dict',
   "{'filetype': 'LED', 'polarization': None, 'mission_name': 'ALOS2', 'orbit_accumulation': '22533', 'scene_frame': '3200', 'date': "
   "datetime.datetime(2018, 7, 26, 0, 0), 'observation_mode': 'fine mode single polarization', 'observation_direction': 'left looking', "
   "'processing_level': 'level 1.5', 'processing_option': 'geo-code', 'map_projection': 'not specified', 'orbit_direction': 'ascending'}")),
 ('IMG-VV-ALOS2225333200-180726-FBSL1.5G_A-B3',
  ('returns',
   'dict',
   "{'filetype': 'IMG', 'polarization': 'VV', 'mission_name': 'ALOS2', 'orbit_accumulation': '22533', 'scene_frame': '3200', 'date': "
   "datetime.datetime(2018, 7, 26, 0, 0), 'observation_mode': 'fine mode single polarization', 'observation_direction': 'left looking', "
   "'processing_level': 'level 1.5', 'processing_option': 'geo-code', 'map_projection': 'not specified', 'orbit_direction': 'ascending', "
   "'processing_method': 'SPECAN method', 'scan_number': '3'}")),
 ('LED-ALOS2225333200-180726-FBSL1.5G_D',
  ('returns',
   'dict',
   "{'filetype': 'LED', 'polarization': None, 'mission_name': 'ALOS2', 'orbit_accumulation': '22533', 'scene_frame': '3200', 'date': "
   "datetime.datetime(2018, 7, 26, 0, 0), 'observation_mode': 'fine mode single polarization', 'observation_direction': 'left looking', "
   "'processing_level': 'level 1.5', 'processing_option': 'geo-code', 'map_projection': 'not specified', 'orbit_direction': 'descending'}")),
 ('IMG-VV-ALOS2225333200-180726-FBSL1.5G_D-B3',
  ('returns',
   'dict',
   "{'filetype': 'IMG', 'polarization': 'VV', 'mission_name': 'ALOS2', 'orbit_accumulation': '22533', 'scene_frame': '3200', 'date': "
   "datetime.datetime(2018, 7, 26, 0, 0), 'observation_mode': 'fine mode single polarization', 'observation_direction': 'left looking', "
   "'processing_level': 'level 1.5', 'processing_option': 'geo-code', 'map_projection': 'not specified', 'orbit_direction': 'descending', "
   "'processing_method': 'SPECAN method', 'scan_number': '3'}")),
 ('LED-ALOS2225333200-180726-FBSL1.5G_X', ('raises', 'ValueError', 'invalid product id: FBSL1.5G_X', None, False)),
 ('IMG-VV-ALOS2225333200-180726-FBSL1.5G_X-B3', ('raises', 'ValueError', 'invalid product id: FBSL1.5G_X', None, False)),
 ('LED-ALOS2225333200-180726-FBSL1.5GXA', ('raises', 'ValueError', 'invalid product id: FBSL1.5GXA', None, False)),
 ('IMG-VV-ALOS2225333200-180726-FBSL1.5GXA-B3', ('raises', 'ValueError', 'invalid product id: FBSL1.5GXA', None, False)),
 ('LED-ALOS2225333200-180726-FBSL1.5GXD', ('raises', 'ValueError', 'invalid product id: FBSL1.5GXD', None, False)),
 ('IMG-VV-ALOS2225333200-180726-FBSL1.5GXD-B3', ('raises', 'ValueError', 'invalid product id: FBSL1.5GXD', None, False)),
 ('LED-ALOS2225333200-180726-FBSL1.5GXX', ('raises', 'ValueError', 'invalid product id: FBSL1.5GXX', None, False)),
 ('IMG-VV-ALOS2225333200-180726-FBSL1.5GXX-B3', ('raises', 'ValueError', 'invalid product id: FBSL1.5GXX', None, False)),
 ('LED-ALOS2225333200-180726-FBSL1.5RUA',
  ('returns',
   'dict',
   "{'filetype': 'LED', 'polarization': None, 'mission_name': 'ALOS2', 'orbit_accumulation': '22533', 'scene_frame': '3200', 'date': "
   "datetime.datetime(2018, 7, 26, 0, 0), 'observation_mode': 'fine mode single polarization', 'observation_direction': 'left looking', "
   "'processing_level': 'level 1.5', 'processing_option': 'geo-reference', 'map_projection': 'UTM', 'orbit_direction': 'ascending'}")),
 ('IMG-VV-ALOS2225333200-180726-FBSL1.5RUA-B3',
  ('returns',
   'dict',
   "{'filetype': 'IMG', 'polarization': 'VV', 'mission_name': 'ALOS2', 'orbit_accumulation': '22533', 'scene_frame': '3200', 'date': "
   "datetime.datetime(2018, 7, 26, 0, 0), 'observation_mode': 'fine mode single polarization', 'observation_direction': 'left looking', "
   "'processing_level': 'level 1.5', 'processing_option': 'geo-reference', 'map_projection': 'UTM', 'orbit_direction': 'ascending', "
   "'processing_method': 'SPECAN method', 'scan_number': '3'}")),
 ('LED-ALOS2225333200-180726-FBSL1.5RUD',
  ('returns',
   'dict',
   "{'filetype': 'LED', 'polarization': None, 'mission_name': 'ALOS2', 'orbit_accumulation': '22533', 'scene_frame': '3200', 'date': "
   "datetime.datetime(2018, 7, 26, 0, 0), 'observation_mode': 'fine mode single polarization', 'observation_direction': 'left looking', "
   "'processing_level': 'level 1.5', 'processing_option': 'geo-reference', 'map_projection': 'UTM', 'orbit_direction': 'descending'}")),
 ('IMG-VV-ALOS2225333200-180726-FBSL1.5RUD-B3',
  ('returns',
   'dict',
   "{'filetype': 'IMG', 'polarization': 'VV', 'mission_name': 'ALOS2', 'orbit_accumulation': '22533', 'scene_frame': '3200', 'date': "
   "datetime.datetime(2018, 7, 26, 0, 0), 'observation_mode': 'fine mode single polarization', 'observation_direction': 'left looking', "
   "'processing_level': 'level 1.5', 'processing_option': 'geo-reference', 'map_projection': 'UTM', 'orbit_direction': 'descending', "
   "'processing_method': 'SPECAN method', 'scan_number': '3'}")),
 ('LED-ALOS2225333200-180726-FBSL1.5RUX', ('raises', 'ValueError', 'invalid product id: FBSL1.5RUX', None, False)),
 ('IMG-VV-ALOS2225333200-180726-FBSL1.5RUX-B3', ('raises', 'ValueError', 'invalid product id: FBSL1.5RUX', None, False)),
 ('LED-ALOS2225333200-180726-FBSL1.5RPA',
  ('returns',
   'dict',
   "{'filetype': 'LED', 'polarization': None, 'mission_name': 'ALOS2', 'orbit_accumulation': '22533', 'scene_frame': '3200', 'date': "
   "datetime.datetime(2018, 7, 26, 0, 0), 'observation_mode': 'fine mode single polarization', 'observation_direction': 'left looking', "
   "'processing_level': 'level 1.5', 'processing_option': 'geo-reference', 'map_projection': 'PS', 'orbit_direction': 'ascending'}")),
 ('IMG-VV-ALOS2225333200-180726-FBSL1.5RPA-B3',
  ('returns',
   'dict',
   "{'filetype': 'IMG', 'polarization': 'VV', 'mission_name': 'ALOS2', 'orbit_accumulation': '22533', 'scene_frame': '3200', 'date': "
   "datetime.datetime(2018, 7, 26, 0, 0), 'observation_mode': 'fine mode single polarization', 'observation_direction': 'left looking', "
   "'processing_level': 'level 1.5', 'processing_option': 'geo-reference', 'map_projection': 'PS', 'orbit_direction': 'ascending', "
   "'processing_method': 'SPECAN method', 'scan_number': '3'}")),
 ('LED-ALOS2225333200-180726-FBSL1.5RPD',
  ('returns',
   'dict',
   "{'filetype': 'LED', 'polarization': None, 'mission_name': 'ALOS2', 'orbit_accumulation': '22533', 'scene_frame': '3200', 'date': "
   "datetime.datetime(2018, 7, 26, 0, 0), 'observation_mode': 'fine mode single polarization', 'observation_direction': 'left looking', "
   "'processing_level': 'level 1.5', 'processing_option': 'geo-reference', 'map_projection': 'PS', 'orbit_direction': 'descending'}")),
 ('IMG-VV-ALOS2225333200-180726-FBSL1.5RPD-B3',
  ('returns',
   'dict',
   "{'filetype': 'IMG', 'polarization': 'VV', 'mission_name': 'ALOS2', 'orbit_accumulation': '22533', 'scene_frame': '3200', 'date': "
   "datetime.datetime(2018, 7, 26, 0, 0), 'observation_mode': 'fine mode single polarization', 'observation_direction': 'left looking', "
   "'processing_level': 'level 1.5', 'processing_option': 'geo-reference', 'map_projection': 'PS', 'orbit_direction': 'descending', "
   "'processing_method': 'SPECAN method', 'scan_number': '3'}")),
 ('LED-ALOS2225333200-180726-FBSL1.5RPX', ('raises', 'ValueError', 'invalid product id: FBSL1.5RPX', None, False)),
 ('IMG-VV-ALOS2225333200-180726-FBSL1.5RPX-B3', ('raises', 'ValueError', 'invalid product id: FBSL1.5RPX', None, False)),
 ('LED-ALOS2225333200-180726-FBSL1.5RMA',
  ('returns',
   'dict',
   "{'filetype': 'LED', 'polarization': None, 'mission_name': 'ALOS2', 'orbit_accumulation': '22533', 'scene_frame': '3200', 'date': "
   "datetime.datetime(2018, 7, 26, 0, 0), 'observation_mode': 'fine mode single polarization', 'observation_direction': 'left looking', "
   "'processing_level': 'level 1.5', 'processing_option': 'geo-reference', 'map_projection': 'MER', 'orbit_direction': 'ascending'}")),
 ('IMG-VV-ALOS2225333200-180726-FBSL1.5RMA-B3',
  ('returns',
   'dict',
   "{'filetype': 'IMG', 'polarization': 'VV', 'mission_name': 'ALOS2', 'orbit_accumulation': '22533', 'scene_frame': '3200', 'date': "
   "datetime.datetime(2018, 7, 26, 0, 0), 'observation_mode': 'fine mode single polarization', 'observation_direction': 'left looking', "
   "'processing_level': 'level 1.5', 'processing_option': 'geo-reference', 'map_projection': 'MER', 'orbit_direction': 'ascending', "
   "'processing_method': 'SPECAN method', 'scan_number': '3'}")),
 ('LED-ALOS2225333200-180726-FBSL1.5RMD',
  ('returns',
   'dict',
   "{'filetype': 'LED', 'polarization': None, 'mission_name': 'ALOS2', 'orbit_accumulation': '22533', 'scene_frame': '3200', 'date': "
   "datetime.datetime(2018, 7, 26, 0, 0), 'observation_mode': 'fine mode single polarization', 'observation_direction': 'left looking', "
   "'processing_level': 'level 1.5', 'processing_option': 'geo-reference', 'map_projection': 'MER', 'orbit_direction': 'descending'}")),
 ('IMG-VV-ALOS2225333200-180726-FBSL1.5RMD-B3',
  ('returns',
   'dict',
   "{'filetype': 'IMG', 'polarization': 'VV', 'mission_name': 'ALOS2', 'orbit_accumulation': '22533', 'scene_frame': '3200', 'date': "
   "datetime.datetime(2018, 7, 26, 0, 0), 'observation_mode': 'fine mode single polarization', 'observation_direction': 'left looking', "
   "'processing_level': 'level 1.5', 'processing_option': 'geo-reference', 'map_projection': 'MER', 'orbit_direction': 'descending', "
   "'processing_method': 'SPECAN method', 'scan_number': '3'}")),
 ('LED-ALOS2225333200-180726-FBSL1.5RMX', ('raises', 'ValueError', 'invalid product id: FBSL1.5RMX', None, False)),
 ('IMG-VV-ALOS2225333200-180726-FBSL1.5RMX-B3', ('raises', 'ValueError', 'invalid product id: FBSL1.5RMX', None, False)),
 ('LED-ALOS2225333200-180726-FBSL1.5RLA',
  ('returns',
   'dict',
   "{'filetype': 'LED', 'polarization': None, 'mission_name': 'ALOS2', 'orbit_accumulation': '22533', 'scene_frame': '3200', 'date': "
   "datetime.datetime(2018, 7, 26, 0, 0), 'observation_mode': 'fine mode single polarization', 'observation_direction': 'left looking', "
   "'processing_level': 'level 1.5', 'processing_option': 'geo-reference', 'map_projection': 'LCC', 'orbit_direction': 'ascending'}")),
 ('IMG-VV-ALOS2225333200-180726-FBSL1.5RLA-B3',
  ('returns',
   'dict',
   "{'filetype': 'IMG', 'polarization': 'VV', 'mission_name': 'ALOS2', 'orbit_accumulation': '22533', 'scene_frame': '3200', 'date': "
   "datetime.datetime(2018, 7, 26, 0, 0), 'observation_mode': 'fine mode single polarization', 'observation_direction': 'left looking', "
   "'processing_level': 'level 1.5', 'processing_option': 'geo-reference', 'map_projection': 'LCC', 'orbit_direction': 'ascending', "
   "'processing_method': 'SPECAN method', 'scan_number': '3'}")),
 ('LED-ALOS2225333200-180726-FBSL1.5RLD',
  ('returns',
   'dict',
   "{'filetype': 'LED', 'polarization': None, 'mission_name': 'ALOS2', 'orbit_accumulation': '22533', 'scene_frame': '3200', 'date': "
   "datetime.datetime(2018, 7, 26, 0, 0), 'observation_mode': 'fine mode single polarization', 'observation_direction': 'left looking', "
   "'processing_level': 'level 1.5', 'processing_option': 'geo-reference', 'map_projection': 'LCC', 'orbit_direction': 'descending'}")),
 ('IMG-VV-ALOS2225333200-180726-FBSL1.5RLD-B3',
  ('returns',
   'dict',
   "{'filetype': 'IMG', 'polarization': 'VV', 'mission_name': 'ALOS2', 'orbit_accumulation': '22533', 'scene_frame': '3200', 'date': "
   "datetime.datetime(2018, 7, 26, 0, 0), 'observation_mode': 'fine mode single polarization', 'observation_direction': 'left looking', "
   "'processing_level': 'level 1.5', 'processing_option': 'geo-reference', 'map_projection': 'LCC', 'orbit_direction': 'descending', "
   "'processing_method': 'SPECAN method', 'scan_number': '3'}")),
 ('LED-ALOS2225333200-180726-FBSL1.5RLX', ('raises', 'ValueError', 'invalid product id: FBSL1.5RLX', None, False)),
 ('IMG-VV-ALOS2225333200-180726-FBSL1.5RLX-B3', ('raises', 'ValueError', 'invalid product id: FBSL1.5RLX', None, False)),
 ('LED-ALOS2225333200-180726-FBSL1.5R_A',
  ('returns',
   'dict',
   "{'filetype': 'LED', 'polarization': None, 'mission_name': 'ALOS2', 'orbit_accumulation': '22533', 'scene_frame': '3200', 'date': "
   "datetime.datetime(2018, 7, 26, 0, 0), 'observation_mode': 'fine mode single polarization', 'observation_direction': 'left looking', "
   "'processing_level': 'level 1.5', 'processing_option': 'geo-reference', 'map_projection': 'not specified', 'orbit_direction': 'ascending'}")),
 ('IMG-VV-ALOS2225333200-180726-FBSL1.5R_A-B3',
  ('returns',
   'dict',
   "{'filetype': 'IMG', 'polarization': 'VV', 'mission_name': 'ALOS2', 'orbit_accumulation': '22533', 'scene_frame': '3200', 'date': "
   "datetime.datetime(2018, 7, 26, 0, 0), 'observation_mode': 'fine mode single polarization', 'observation_direction': 'left looking', "
   "'processing_level': 'level 1.5', 'processing_option': 'geo-reference', 'map_projection': 'not specified', 'orbit_direction': 'ascending', "
   "'processing_method': 'SPECAN method', 'scan_number': '3'}")),
 ('LED-ALOS2225333200-180726-FBSL1.5R_D',
  ('returns',
   'dict',
   "{'filetype': 'LED', 'polarization': None, 'mission_name': 'ALOS2', 'orbit_accumulation': '22533', 'scene_frame': '3200', 'date': "
   "datetime.datetime(2018, 7, 26, 0, 0), 'observation_mode': 'fine mode single polarization', 'observation_direction': 'left looking', "
   "'processing_level': 'level 1.5', 'processing_option': 'geo-reference', 'map_projection': 'not specified', 'orbit_direction': 'descending'}")),
 ('IMG-VV-ALOS2225333200-180726-FBSL1.5R_D-B3',
  ('returns',
   'dict',
   "{'filetype': 'IMG', 'polarization': 'VV', 'mission_name': 'ALOS2', 'orbit_accumulation': '22533', 'scene_frame': '3200', 'date': "
   "datetime.datetime(2018, 7, 26, 0, 0), 'observation_mode': 'fine mode single polarization', 'observation_direction': 'left looking', "
   "'processing_level': 'level 1.5', 'processing_option': 'geo-reference', 'map_projection': 'not specified', 'orbit_direction': 'descending', "
   "'processing_method': 'SPECAN method', 'scan_number': '3'}")),
 ('LED-ALOS2225333200-180726-FBSL1.5R_X', ('raises', 'ValueError', 'invalid product id: FBSL1.5R_X', None, False)),
 ('IMG-VV-ALOS2225333200-180726-FBSL1.5R_X-B3', ('raises', 'ValueError', 'invalid product id: FBSL1.5R_X', None, False)),
 ('LED-ALOS2225333200-180726-FBSL1.5RXA', ('raises', 'ValueError', 'invalid product id: FBSL1.5RXA', None, False)),
 ('IMG-VV-ALOS2225333200-180726-FBSL1.5RXA-B3', ('raises', 'ValueError', 'invalid product id: FBSL1.5RXA', None, False)),
 ('LED-ALOS2225333200-180726-FBSL1.5RXD', ('raises', 'ValueError', 'invalid product id: FBSL1.5RXD', None, False)),
 ('IMG-VV-ALOS2225333200-180726-FBSL1.5RXD-B3', ('raises', 'ValueError', 'invalid product id: FBSL1.5RXD', None, False)),
 ('LED-ALOS2225333200-180726-FBSL1.5RXX', ('raises', 'ValueError', 'invalid product id: FBSL1.5RXX', None, False)),
 ('IMG-VV-ALOS2225333200-180726-FBSL1.5RXX-B3', ('raises', 'ValueError', 'invalid product id: FBSL1.5RXX', None, False)),
 ('LED-ALOS2225333200-180726-FBSL1.5_UA',
  ('returns',
   'dict',
   "{'filetype': 'LED', 'polarization': None, 'mission_name': 'ALOS2', 'orbit_accumulation': '22533', 'scene_frame': '3200', 'date': "
   "datetime.datetime(2018, 7, 26, 0, 0), 'observation_mode': 'fine mode single polarization', 'observation_direction': 'left looking', "
   "'processing_level': 'level 1.5', 'processing_option': 'not specified', 'map_projection': 'UTM', 'orbit_direction': 'ascending'}")),
 ('IMG-VV-ALOS2225333200-180726-FBSL1.5_UA-B3',
  ('returns',
   'dict',
   "{'filetype': 'IMG', 'polarization': 'VV', 'mission_name': 'ALOS2', 'orbit_accumulation': '22533', 'scene_frame': '3200', 'date': "
   "datetime.datetime(2018, 7, 26, 0, 0), 'observation_mode': 'fine mode single polarization', 'observation_direction': 'left looking', "
   "'processing_level': 'level 1.5', 'processing_option': 'not specified', 'map_projection': 'UTM', 'orbit_direction': 'ascending', "
   "'processing_method': 'SPECAN method', 'scan_number': '3'}")),
 ('LED-ALOS2225333200-180726-FBSL1.5_UD',
  ('returns',
   'dict',
   "{'filetype': 'LED', 'polarization': None, 'mission_name': 'ALOS2', 'orbit_accumulation': '22533', 'scene_frame': '3200', 'date': "
   "datetime.datetime(2018, 7, 26, 0, 0), 'observation_mode': 'fine mode single polarization', 'observation_direction': 'left looking', "
   "'processing_level': 'level 1.5', 'processing_option': 'not specified', 'map_projection': 'UTM', 'orbit_direction': 'descending'}")),
 ('IMG-VV-ALOS2225333200-180726-FBSL1.5_UD-B3',
  ('returns',
   'dict',
   "{'filetype': 'IMG', 'polarization': 'VV', 'mission_name': 'ALOS2', 'orbit_accumulation': '22533', 'scene_frame': '3200', 'date': "
   "datetime.datetime(2018, 7, 26, 0, 0), 'observation_mode': 'fine mode single polarization', 'observation_direction': 'left looking', "
   "'processing_level': 'level 1.5', 'processing_option': 'not specified', 'map_projection': 'UTM', 'orbit_direction': 'descending', "
   "'processing_method': 'SPECAN method', 'scan_number': '3'}")),
 ('LED-ALOS2225333200-180726-FBSL1.5_UX', ('raises', 'ValueError', 'invalid product id: FBSL1.5_UX', None, False)),
 ('IMG-VV-ALOS2225333200-180726-FBSL1.5_UX-B3', ('raises', 'ValueError', 'invalid product id: FBSL1.5_UX', None, False)),
 ('LED-ALOS2225333200-180726-FBSL1.5_PA',
  ('returns',
   'dict',
   "{'filetype': 'LED', 'polarization': None, 'mission_name': 'ALOS2', 'orbit_accumulation': '22533', 'scene_frame': '3200', 'date': "
   "datetime.datetime(2018, 7, 26, 0, 0), 'observation_mode': 'fine mode single polarization', 'observation_direction': 'left looking', "
   "'processing_level': 'level 1.5', 'processing_option': 'not specified', 'map_projection': 'PS', 'orbit_direction': 'ascending'}")),
 ('IMG-VV-ALOS2225333200-180726-FBSL1.5_PA-B3',
  ('returns',
   'dict',
   "{'filetype': 'IMG', 'polarization': 'VV', 'mission_name': 'ALOS2', 'orbit_accumulation': '22533', 'scene_frame': '3200', 'date': "
   "datetime.datetime(2018, 7, 26, 0, 0), 'observation_mode': 'fine mode single polarization', 'observation_direction': 'left looking', "
   "'processing_level': 'level 1.5', 'processing_option': 'not specified', 'map_projection': 'PS', 'orbit_direction': 'ascending', "
   "'processing_method': 'SPECAN method', 'scan_number': '3'}")),
 ('LED-ALOS2225333200-180726-FBSL1.5_PD',
  ('returns',
   'dict',
   "{'filetype': 'LED', 'polarization': None, 'mission_name': 'ALOS2', 'orbit_accumulation': '22533', 'scene_frame': '3200', 'date': "
   "datetime.datetime(2018, 7, 26, 0, 0), 'observation_mode': 'fine mode single polarization', 'observation_direction': 'left looking', "
   "'processing_level': 'level 1.5', 'processing_option': 'not specified', 'map_projection': 'PS', 'orbit_direction': 'descending'}")),
 ('IMG-VV-ALOS2225333200-180726-FBSL1.5_PD-B3',
  ('returns',
   'dict',
   "{'filetype': 'IMG', 'polarization': 'VV', 'mission_name': 'ALOS2', 'orbit_accumulation': '22533', 'scene_frame': '3200', 'date': "
   "datetime.datetime(2018, 7, 26, 0, 0), 'observation_mode': 'fine mode single polarization', 'observation_direction': 'left looking', "
   "'processing_level': 'level 1.5', 'processing_option': 'not specified', 'map_projection': 'PS', 'orbit_direction': 'descending', "
   "'processing_method': 'SPECAN method', 'scan_number': '3'}")),
 ('LED-ALOS2225333200-180726-FBSL1.5_PX', ('raises', 'ValueError', 'invalid product id: FBSL1.5_PX', None, False)),
 ('IMG-VV-ALOS2225333200-180726-FBSL1.5_PX-B3', ('raises', 'ValueError', 'invalid product id: FBSL1.5_PX', None, False)),
 ('LED-ALOS2225333200-180726-FBSL1.5_MA',
  ('returns',
   'dict',
   "{'filetype': 'LED', 'polarization': None, 'mission_name': 'ALOS2', 'orbit_accumulation': '22533', 'scene_frame': '3200', 'date': "
   "datetime.datetime(2018, 7, 26, 0, 0), 'observation_mode': 'fine mode single polarization', 'observation_direction': 'left looking', "
   "'processing_level': 'level 1.5', 'processing_option': 'not specified', 'map_projection': 'MER', 'orbit_direction': 'ascending'}")),
 ('IMG-VV-ALOS2225333200-180726-FBSL1.5_MA-B3',
  ('returns',
   'dict',
   "{'filetype': 'IMG', 'polarization': 'VV', 'mission_name': 'ALOS2', 'orbit_accumulation': '22533', 'scene_frame': '3200', 'date': "
   "datetime.datetime(2018, 7, 26, 0, 0), 'observation_mode': 'fine mode single polarization', 'observation_direction': 'left looking', "
   "'processing_level': 'level 1.5', 'processing_option': 'not specified', 'map_projection': 'MER', 'orbit_direction': 'ascending', "
   "'processing_method': 'SPECAN method', 'scan_number': '3'}")),
 ('LED-ALOS2225333200-180726-FBSL1.5_MD',
  ('returns',
   'dict',
   "{'filetype': 'LED', 'polarization': None, 'mission_name': 'ALOS2', 'orbit_accumulation': '22533', 'scene_frame': '3200', 'date': "
   "datetime.datetime(2018, 7, 26, 0, 0), 'observation_mode': 'fine mode single polarization', 'observation_direction': 'left looking', "
   "'processing_level': 'level 1.5', 'processing_option': 'not specified', 'map_projection': 'MER', 'orbit_direction': 'descending'}")),
 ('IMG-VV-ALOS2225333200-180726-FBSL1.5_MD-B3',
  ('returns',
   'dict',
   "{'filetype': 'IMG', 'polarization': 'VV', 'mission_name': 'ALOS2', 'orbit_accumulation': '22533', 'scene_frame': '3200', 'date': "
   "datetime.datetime(2018, 7, 26, 0, 0), 'observation_mode': 'fine mode single polarization', 'observation_direction': 'left looking', "
   "'processing_level': 'level 1.5', 'processing_option': 'not specified', 'map_projection': 'MER', 'orbit_direction': 'descending', "
   "'processing_method': 'SPECAN method', 'scan_number': '3'}")),
 ('LED-ALOS2225333200-180726-FBSL1.5_MX', ('raises', 'ValueError', 'invalid product id: FBSL1.5_MX', None, False)),
 ('IMG-VV-ALOS2225333200-180726-FBSL1.5_MX-B3', ('raises', 'ValueError', 'invalid product id: FBSL1.5_MX', None, False)),
 ('LED-ALOS2225333200-180726-FBSL1.5_LA',
  ('returns',
   'dict',
   "{'filetype': 'LED', 'polarization': None, 'mission_name': 'ALOS2', 'orbit_accumulation': '22533', 'scene_frame': '3200', 'date': "
   "datetime.datetime(2018, 7, 26, 0, 0), 'observation_mode': 'fine mode single polarization', 'observation_direction': 'left looking', "
   "'processing_level': 'level 1.5', 'processing_option': 'not specified', 'map_projection': 'LCC', 'orbit_direction': 'ascending'}")),
 ('IMG-VV-ALOS2225333200-180726-FBSL1.5_LA-B3',
  ('returns',
   'dict',
   "{'filetype': 'IMG', 'polarization': 'VV', 'mission_name': 'ALOS2', 'orbit_accumulation': '22533', 'scene_frame': '3200', 'date': "
   "datetime.datetime(2018, 7, 26, 0, 0), 'observation_mode': 'fine mode single polarization', 'observation_direction': 'left looking', "
   "'processing_level': 'level 1.5', 'processing_option': 'not specified', 'map_projection': 'LCC', 'orbit_direction': 'ascending', "
   "'processing_method': 'SPECAN method', 'scan_number': '3'}")),
 ('LED-ALOS2225333200-180726-FBSL1.5_LD',
  ('returns',
   'dict',
   "{'filetype': 'LED', 'polarization': None, 'mission_name': 'ALOS2', 'orbit_accumulation': '22533', 'scene_frame': '3200', 'date': "
   "datetime.datetime(2018, 7, 26, 0, 0), 'observation_mode': 'fine mode single polarization', 'observation_direction': 'left looking', "
   "'processing_level': 'level 1.5', 'processing_option': 'not specified', 'map_projection': 'LCC', 'orbit_direction': 'descending'}")),
 ('IMG-VV-ALOS2225333200-180726-FBSL1.5_LD-B3',
  ('returns',
   'dict',
   "{'filetype': 'IMG', 'polarization': 'VV', 'mission_name': 'ALOS2', 'orbit_accumulation': '22533', 'scene_frame': '3200', 'date': "
   "datetime.datetime(2018, 7, 26, 0, 0), 'observation_mode': 'fine mode single polarization', 'observation_direction': 'left looking', "
   "'processing_level': 'level 1.5', 'processing_option': 'not specified', 'map_projection': 'LCC', 'orbit_direction': 'descending', "
   "'processing_method': 'SPECAN method', 'scan_number': '3'}")),
 ('LED-ALOS2225333200-180726-FBSL1.5_LX', ('raises', 'ValueError', 'invalid product id: FBSL1.5_LX', None, False)),
 ('IMG-VV-ALOS2225333200-180726-FBSL1.5_LX-B3', ('raises', 'ValueError', 'invalid product id: FBSL1.5_LX', None, False)),
 ('LED-ALOS2225333200-180726-FBSL1.5__A',
  ('returns',
   'dict',
   "{'filetype': 'LED', 'polarization': None, 'mission_name': 'ALOS2', 'orbit_accumulation': '22533', 'scene_frame': '3200', 'date': "
   "datetime.datetime(2018, 7, 26, 0, 0), 'observation_mode': 'fine mode single polarization', 'observation_direction': 'left looking', "
   "'processing_level': 'level 1.5', 'processing_option': 'not specified', 'map_projection': 'not specified', 'orbit_direction': 'ascending'}")),
 ('IMG-VV-ALOS2225333200-180726-FBSL1.5__A-B3',
  ('returns',
   'dict',
   "{'filetype': 'IMG', 'polarization': 'VV', 'mission_name': 'ALOS2', 'orbit_accumulation': '22533', 'scene_frame': '3200', 'date': "
   "datetime.datetime(2018, 7, 26, 0, 0), 'observation_mode': 'fine mode single polarization', 'observation_direction': 'left looking', "
   "'processing_level': 'level 1.5', 'processing_option': 'not specified', 'map_projection': 'not specified', 'orbit_direction': 'ascending', "
   "'processing_method': 'SPECAN method', 'scan_number': '3'}")),
 ('LED-ALOS2225333200-180726-FBSL1.5__D',
  ('returns',
   'dict',
   "{'filetype': 'LED', 'polarization': None, 'mission_name': 'ALOS2', 'orbit_accumulation': '22533', 'scene_frame': '3200', 'date': "
   "datetime.datetime(2018, 7, 26, 0, 0), 'observation_mode': 'fine mode single polarization', 'observation_direction': 'left looking', "
   "'processing_level': 'level 1.5', 'processing_option': 'not specified', 'map_projection': 'not specified', 'orbit_direction': 'descending'}")),
 ('IMG-VV-ALOS2225333200-180726-FBSL1.5__D-B3',
  ('returns',
   'dict',
   "{'filetype': 'IMG', 'polarization': 'VV', 'mission_name': 'ALOS2', 'orbit_accumulation': '22533', 'scene_frame': '3200', 'date': "
   "datetime.datetime(2018, 7, 26, 0, 0), 'observation_mode': 'fine mode single polarization', 'observation_direction': 'left looking', "
   "'processing_level': 'level 1.5', 'processing_option': 'not specified', 'map_projection': 'not specified', 'orbit_direction': 'descending', "
   "'processing_method': 'SPECAN method', 'scan_number': '3'}")),
 ('LED-ALOS2225333200-180726-FBSL1.5__X', ('raises', 'ValueError', 'invalid product id: FBSL1.5__X', None, False)),
 ('IMG-VV-ALOS2225333200-180726-FBSL1.5__X-B3', ('raises', 'ValueError', 'invalid product id: FBSL1.5__X', None, False)),
 ('LED-ALOS2225333200-180726-FBSL1.5_XA', ('raises', 'ValueError', 'invalid product id: FBSL1.5_XA', None, False)),
 ('IMG-VV-ALOS2225333200-180726-FBSL1.5_XA-B3', ('raises', 'ValueError', 'invalid product id: FBSL1.5_XA', None, False)),
 ('LED-ALOS2225333200-180726-FBSL1.5_XD', ('raises', 'ValueError', 'invalid product id: FBSL1.5_XD', None, False)),
 ('IMG-VV-ALOS2225333200-180726-FBSL1.5_XD-B3', ('raises', 'ValueError', 'invalid product id: FBSL1.5_XD', None, False)),
 ('LED-ALOS2225333200-180726-FBSL1.5_XX', ('raises', 'ValueError', 'invalid product id: FBSL1.5_XX', None, False)),
 ('IMG-VV-ALOS2225333200-180726-FBSL1.5_XX-B3', ('raises', 'ValueError', 'invalid product id: FBSL1.5_XX', None, False)),
 ('LED-ALOS2225333200-180726-FBSL1.5XUA', ('raises', 'ValueError', 'invalid product id: FBSL1.5XUA', None, False)),
 ('IMG-VV-ALOS2225333200-180726-FBSL1.5XUA-B3', ('raises', 'ValueError', 'invalid product id: FBSL1.5XUA', None, False)),
 ('LED-ALOS2225333200-180726-FBSL1.5XUD', ('raises', 'ValueError', 'invalid product id: FBSL1.5XUD', None, False)),
 ('IMG-VV-ALOS2225333200-180726-FBSL1.5XUD-B3', ('raises', 'ValueError', 'invalid product id: FBSL1.5XUD', None, False)),
 ('LED-ALOS2225333200-180726-FBSL1.5XUX', ('raises', 'ValueError', 'invalid product id: FBSL1.5XUX', None, False)),
 ('IMG-VV-ALOS2225333200-180726-FBSL1.5XUX-B3', ('raises', 'ValueError', 'invalid product id: FBSL1.5XUX', None, False)),
 ('LED-ALOS2225333200-180726-FBSL1.5XPA', ('raises', 'ValueError', 'invalid product id: FBSL1.5XPA', None, False)),
 ('IMG-VV-ALOS2225333200-180726-FBSL1.5XPA-B3', ('raises', 'ValueError', 'invalid product id: FBSL1.5XPA', None, False)),
 ('LED-ALOS2225333200-180726-FBSL1.5XPD', ('raises', 'ValueError', 'invalid product id: FBSL1.5XPD', None, False)),
 ('IMG-VV-ALOS2225333200-180726-FBSL1.5XPD-B3', ('raises', 'ValueError', 'invalid product id: FBSL1.5XPD', None, False)),
 ('LED-ALOS2225333200-180726-FBSL1.5XPX', ('raises', 'ValueError', 'invalid product id: FBSL1.5XPX', None, False)),
 ('IMG-VV-ALOS2225333200-180726-FBSL1.5XPX-B3', ('raises', 'ValueError', 'invalid product id: FBSL1.5XPX', None, False)),
 ('LED-ALOS2225333200-180726-FBSL1.5XMA', ('raises', 'ValueError', 'invalid product id: FBSL1.5XMA', None, False)),
 ('IMG-VV-ALOS2225333200-180726-FBSL1.5XMA-B3', ('raises', 'ValueError', 'invalid product id: FBSL1.5XMA', None, False)),
 ('LED-ALOS2225333200-180726-FBSL1.5XMD', ('raises', 'ValueError', 'invalid product id: FBSL1.5XMD', None, False)),
 ('IMG-VV-ALOS2225333200-180726-FBSL1.5XMD-B3', ('raises', 'ValueError', 'invalid product id: FBSL1.5XMD', None, False)),
 ('LED-ALOS2225333200-180726-FBSL1.5XMX', ('raises', 'ValueError', 'invalid product id: FBSL1.5XMX', None, False)),
 ('IMG-VV-ALOS2225333200-180726-FBSL1.5XMX-B3', ('raises', 'ValueError', 'invalid product id: FBSL1.5XMX', None, False)),
 ('LED-ALOS2225333200-180726-FBSL1.5XLA', ('raises', 'ValueError', 'invalid product id: FBSL1.5XLA', None, False)),
 ('IMG-VV-ALOS2225333200-180726-FBSL1.5XLA-B3', ('raises', 'ValueError', 'invalid product id: FBSL1.5XLA', None, False)),
 ('LED-ALOS2225333200-180726-FBSL1.5XLD', ('raises', 'ValueError', 'invalid product id: FBSL1.5XLD', None, False)),
 ('IMG-VV-ALOS2225333200-180726-FBSL1.5XLD-B3', ('raises', 'ValueError', 'invalid product id: FBSL1.5XLD', None, False)),
 ('LED-ALOS2225333200-180726-FBSL1.5XLX', ('raises', 'ValueError', 'invalid product id: FBSL1.5XLX', None, False)),
 ('IMG-VV-ALOS2225333200-180726-FBSL1.5XLX-B3', ('raises', 'ValueError', 'invalid product id: FBSL1.5XLX', None, False)),
 ('LED-ALOS2225333200-180726-FBSL1.5X_A', ('raises', 'ValueError', 'invalid product id: FBSL1.5X_A', None, False)),
 ('IMG-VV-ALOS2225333200-180726-FBSL1.5X_A-B3', ('raises', 'ValueError', 'invalid product id: FBSL1.5X_A', None, False)),
 ('LED-ALOS2225333200-180726-FBSL1.5X_D', ('raises', 'ValueError', 'invalid product id: FBSL1.5X_D', None, False)),
 ('IMG-VV-ALOS2225333200-180726-FBSL1.5X_D-B3', ('raises', 'ValueError', 'invalid product id: FBSL1.5X_D', None, False)),
 ('LED-ALOS2225333200-180726-FBSL1.5X_X', ('raises', 'ValueError', 'invalid product id: FBSL1.5X_X', None, False)),
 ('IMG-VV-ALOS2225333200-180726-FBSL1.5X_X-B3', ('raises', 'ValueError', 'invalid product id: FBSL1.5X_X', None, False)),
 ('LED-ALOS2225333200-180726-FBSL1.5XXA', ('raises', 'ValueError', 'invalid product id: FBSL1.5XXA', None, False)),
 ('IMG-VV-ALOS2225333200-180726-FBSL1.5XXA-B3', ('raises', 'ValueError', 'invalid product id: FBSL1.5XXA', None, False)),
 ('LED-ALOS2225333200-180726-FBSL1.5XXD', ('raises', 'ValueError', 'invalid product id: FBSL1.5XXD', None, False)),
 ('IMG-VV-ALOS2225333200-180726-FBSL1.5XXD-B3', ('raises', 'ValueError', 'invalid product id: FBSL1.5XXD', None, False)),
 ('LED-ALOS2225333200-180726-FBSL1.5XXX', ('raises', 'ValueError', 'invalid product id: FBSL1.5XXX', None, False)),
 ('IMG-VV-ALOS2225333200-180726-FBSL1.5XXX-B3', ('raises', 'ValueError', 'invalid product id: FBSL1.5XXX', None, False)),
 ('', ('raises', 'ValueError', 'invalid file name: ', None, False)),
 ('-', ('raises', 'ValueError', 'invalid file name: -', None, False)),
 ('IMG', ('raises', 'ValueError', 'invalid file name: IMG', None, False)),
 ('IMG-HH', ('raises', 'ValueError', 'invalid file name: IMG-HH', None, False)),
 ('IMG-HH-ALOS2225333200-180726', ('raises', 'ValueError', 'invalid file name: IMG-HH-ALOS2225333200-180726', None, False)),
 ('IMG-HH-ALOS2225333200-180726-WWDR1.1__D-', ('raises', 'ValueError', 'invalid file name: IMG-HH-ALOS2225333200-180726-WWDR1.1__D-', None, False)),
 ('IMG-HH-ALOS2225333200-180726-WWDR1.1__D-B4-',
  ('raises', 'ValueError', 'invalid file name: IMG-HH-ALOS2225333200-180726-WWDR1.1__D-B4-', None, False)),
 ('IMG-HH-ALOS2225333200-180726-WWDR1.1__D-B4\n',
  ('raises', 'ValueError', 'invalid file name: IMG-HH-ALOS2225333200-180726-WWDR1.1__D-B4\n', None, False)),
 (' IMG-HH-ALOS2225333200-180726-WWDR1.1__D-B4',
  ('raises', 'ValueError', 'invalid file name:  IMG-HH-ALOS2225333200-180726-WWDR1.1__D-B4', None, False)),
 ('IMG-HH-ALOS2225333200-180726-WWDR1.1__D.B4',
  ('raises', 'ValueError', 'invalid file name: IMG-HH-ALOS2225333200-180726-WWDR1.1__D.B4', None, False)),
 ('IMG-HH--ALOS2225333200-180726-WWDR1.1__D', ('raises', 'ValueError', 'invalid file name: IMG-HH--ALOS2225333200-180726-WWDR1.1__D', None, False)),
 ('IMG-HH-ALOS2225333200-180726-WWDR1.1__D-B4/IMG-HH-ALOS2225333200-180726-WWDR1.1__D-B4',
  ('raises', 'ValueError', 'invalid file name: IMG-HH-ALOS2225333200-180726-WWDR1.1__D-B4/IMG-HH-ALOS2225333200-180726-WWDR1.1__D-B4', None, False)),
 ('IMG-HH-ALOS2225333200-180726-WWDR1.1__DD', ('raises', 'ValueError', 'invalid file name: IMG-HH-ALOS2225333200-180726-WWDR1.1__DD', None, False)),
 ('IMG-HH-ALOS2225333200-180726-WWDR1.1_D', ('raises', 'ValueError', 'invalid file name: IMG-HH-ALOS2225333200-180726-WWDR1.1_D', None, False)),
 ('IMG-HH-ALOS2225333200-180726-__________', ('raises', 'ValueError', 'invalid product id: __________', None, False)),
 ('IMG-HH-ALOS2225333200-180726-..........', ('raises', 'ValueError', 'invalid product id: ..........', None, False)),
 ('None', ('raises', 'TypeError', "expected string or bytes-like object, got 'NoneType'", None, False)),
 ('5', ('raises', 'TypeError', "expected string or bytes-like object, got 'int'", None, False)),
 ('1.5', ('raises', 'TypeError', "expected string or bytes-like object, got 'float'", None, False)),
 ("b'IMG-HH-ALOS2225333200-180726-WWDR1.1__D-B4'", ('raises', 'TypeError', 'cannot use a string pattern on a bytes-like object', None, False)),
 ("['IMG']", ('raises', 'TypeError', "expected string or bytes-like object, got 'list'", None, False)),
 ("('IMG',)", ('raises', 'TypeError', "expected string or bytes-like object, got 'tuple'", None, False)),
 ('{}', ('raises', 'TypeError', "expected string or bytes-like object, got 'dict'", None, False)),
 ('Name(valid)',
  ('returns',
   'dict',
   "{'filetype': 'LED', 'polarization': None, 'mission_name': 'ALOS2', 'orbit_accumulation': '22533', 'scene_frame': '3200', 'date': "
   "datetime.datetime(2018, 7, 26, 0, 0), 'observation_mode': 'ScanSAR nominal 28MHz mode dual polarization', 'observation_direction': 'right "
   "looking', 'processing_level': 'level 1.1', 'processing_option': 'not specified', 'map_projection': 'not specified', 'orbit_direction': "
   "'descending'}")),
 ('Name(invalid)', ('raises', 'ValueError', 'invalid file name: <formatted>', None, False)),
 ('dicts',
  'IMG-HH-ALOS2225333200-180726-WWDR1.1__D-B4',
  ('returns',
   'dict',
   "{'filetype': 'overridden', 'polarization': 'HH', 'scene': 'overridden', 'shared': 'product', 'product': 'WWDR1.1__D', 'scan': 'B4'}"),
  [('scene_id', 'ALOS2225333200-180726'), ('product_id', 'WWDR1.1__D'), ('scan_info', 'B4')]),
 ('dicts',
  'LED-ALOS2225333200-180726-WWDR1.1__D',
  ('returns',
   'dict',
   "{'filetype': 'overridden', 'polarization': None, 'scene': 'overridden', 'shared': 'product', 'product': 'WWDR1.1__D', 'scan': None}"),
  [('scene_id', 'ALOS2225333200-180726'), ('product_id', 'WWDR1.1__D'), ('scan_info', None)]),
 ('scalar-scene',
  'IMG-HH-ALOS2225333200-180726-WWDR1.1__D-B4',
  ('returns', 'dict', "{'filetype': 'IMG', 'polarization': 'HH', 'scene_id': 'ALOS2225333200-180726', 'b': 1, 'a': 2}"),
  [('scene_id', 'ALOS2225333200-180726'), ('product_id', 'WWDR1.1__D'), ('scan_info', 'B4')]),
 ('scalar-scene',
  'LED-ALOS2225333200-180726-WWDR1.1__D',
  ('returns', 'dict', "{'filetype': 'LED', 'polarization': None, 'scene_id': 'ALOS2225333200-180726', 'b': 1, 'a': 2}"),
  [('scene_id', 'ALOS2225333200-180726'), ('product_id', 'WWDR1.1__D'), ('scan_info', None)]),
 ('all-scalar',
  'IMG-HH-ALOS2225333200-180726-WWDR1.1__D-B4',
  ('returns', 'dict', "{'filetype': 'IMG', 'polarization': 'HH', 'scene_id': 1, 'product_id': (2,), 'scan_info': None}"),
  [('scene_id', 'ALOS2225333200-180726'), ('product_id', 'WWDR1.1__D'), ('scan_info', 'B4')]),
 ('all-scalar',
  'LED-ALOS2225333200-180726-WWDR1.1__D',
  ('returns', 'dict', "{'filetype': 'LED', 'polarization': None, 'scene_id': 1, 'product_id': (2,), 'scan_info': None}"),
  [('scene_id', 'ALOS2225333200-180726'), ('product_id', 'WWDR1.1__D'), ('scan_info', None)]),
 ('dict-subclass',
  'IMG-HH-ALOS2225333200-180726-WWDR1.1__D-B4',
  ('returns', 'dict', "{'filetype': 'IMG', 'polarization': 'HH', 'scan_info': [('z', 1)], 'x': 2, 'y': 3}"),
  [('scene_id', 'ALOS2225333200-180726'), ('product_id', 'WWDR1.1__D'), ('scan_info', 'B4')]),
 ('dict-subclass',
  'LED-ALOS2225333200-180726-WWDR1.1__D',
  ('returns', 'dict', "{'filetype': 'LED', 'polarization': None, 'scan_info': [('z', 1)], 'x': 2, 'y': 3}"),
  [('scene_id', 'ALOS2225333200-180726'), ('product_id', 'WWDR1.1__D'), ('scan_info', None)]),
 ('failing-product',
  'IMG-HH-ALOS2225333200-180726-WWDR1.1__D-B4',
  ('raises', 'KeyError', "'product'", None, False),
  [('scene_id', 'ALOS2225333200-180726'), ('product_id', 'WWDR1.1__D')]),
 ('failing-product',
  'LED-ALOS2225333200-180726-WWDR1.1__D',
  ('raises', 'KeyError', "'product'", None, False),
  [('scene_id', 'ALOS2225333200-180726'), ('product_id', 'WWDR1.1__D')]),
 ('fresh', True, True, True)]
# fmt: on


def main():
    observed = observe()
    if "--record" in sys.argv:
        import pprint

        pprint.pprint(observed, width=150)
        return

    assert len(observed) == len(EXPECTED), (len(observed), len(EXPECTED))
    for new, old in zip(observed, EXPECTED):
        assert new == old, f"\nobserved: {new!r}\nexpected: {old!r}"
    n_ok = sum(1 for entry in observed if isinstance(entry[1], tuple) and entry[1][0] == "returns")
    print(f"ok: {len(observed)} observations identical ({n_ok} of the plain calls return)")


def test_equivalence():
    observed = observe()
    assert observed == EXPECTED


if __name__ == "__main__":
    main()
