"""Equivalence check for refactoring 1 (``Array.__getitem__``).

Runs ``Array.__getitem__`` on a recording in-memory file system and compares
results *and* the I/O trace (open / seek / read / close) with values recorded
from the unchanged code.  Must pass with and without ``patch.diff`` applied.

    PYTHONPATH=/tmp/wt2/e01 /venv/bin/python _eq/1/equiv.py          # check
    PYTHONPATH=/tmp/wt2/e01 /venv/bin/python _eq/1/equiv.py --print  # dump observed values
"""

import io
import pprint
import struct
import sys

import numpy as np

from ceos_alos2.array import Array


class RecordingFile:
    def __init__(self, content, log):
        self._f = io.BytesIO(content)
        self._log = log

    def seek(self, offset):
        self._log.append(("seek", offset))
        return self._f.seek(offset)

    def read(self, size):
        self._log.append(("read", size))
        return self._f.read(size)

    def __enter__(self):
        return self

    def __exit__(self, *exc):
        self._log.append(("close", None if exc[0] is None else exc[0].__name__))
        return False


class RecordingFS:
    def __init__(self, files):
        self.files = files
        self.log = []

    def open(self, url, mode):
        self.log.append(("open", url, mode))
        return RecordingFile(self.files[url], self.log)


def layout(rows, header=6):
    """rows: list of bytes -> (file content, byte ranges); a header precedes every row"""
    content = b""
    byte_ranges = []
    for n, row in enumerate(rows):
        content += bytes([0xA0 + n]) * header
        byte_ranges.append((len(content), len(content) + len(row)))
        content += row
    return content, byte_ranges


def iu2_array(records_per_chunk, type_code="IU2", n_rows=5, n_cols=4):
    values = np.arange(n_rows * n_cols, dtype=">u2").reshape(n_rows, n_cols) * 257
    content, byte_ranges = layout([row.tobytes() for row in values])
    fs = RecordingFS({"img": content})
    arr = Array(
        fs=fs,
        url="img",
        byte_ranges=byte_ranges,
        shape=(n_rows, n_cols),
        dtype="uint16",
        type_code=type_code,
        records_per_chunk=records_per_chunk,
    )
    return fs, arr


SPECIAL = [
    (float("nan"), 1.0),
    (float("inf"), float("-inf")),
    (-0.0, 0.0),
    (1.5, float("nan")),
    (3.0e38, -1.0e-45),
    (0.0, float("inf")),
]


def c8_array(records_per_chunk):
    rows = [
        b"".join(struct.pack(">ff", *SPECIAL[(r + c) % len(SPECIAL)]) for c in range(3))
        for r in range(4)
    ]
    # a signalling-looking NaN payload must survive decoding bit for bit
    rows[2] = bytes.fromhex("7fc00001ffc12345") + rows[2][8:]
    content, byte_ranges = layout(rows, header=3)
    fs = RecordingFS({"c8": content})
    arr = Array(
        fs=fs,
        url="c8",
        byte_ranges=byte_ranges,
        shape=(4, 3),
        dtype="complex64",
        type_code="C*8",
        records_per_chunk=records_per_chunk,
    )
    return fs, arr


def describe(result):
    result = np.asarray(result)
    native = result.astype(result.dtype.newbyteorder("<"))
    return (result.dtype.name, result.shape, native.tobytes().hex())


def run(fs, arr, indexers):
    del fs.log[:]
    try:
        outcome = describe(arr[indexers])
    except Exception as e:  # noqa: BLE001
        outcome = ("raises", type(e).__name__)
    return outcome, list(fs.log)


def observe():
    observed = {}

    iu2_indexers = {
        "all": (slice(None), slice(None)),
        "int-row": (2, slice(None)),
        "negative-int-row": (-1, slice(1, 3)),
        "bool-row": (True, slice(None)),
        "int-int": (1, 2),
        "row-only-slice": (slice(1, 4),),
        "row-only-int": (3,),
        "empty-slice": (slice(3, 1), slice(None)),
        "empty-list": ([], slice(None, 2)),
        "reversed-strided": (slice(None, None, -2), slice(None, None, 2)),
        "list-with-duplicates": ([0, 3, 3, -5], slice(None)),
        "list-and-int-col": ([4, 0], 1),
        "list-out-of-range": ([0, 5], slice(None)),
        "numpy-int-row": (np.int64(2), slice(None)),
        "no-indexers": (),
        "ellipsis-col": (slice(0, 2), Ellipsis),
        "too-many": (0, 0, 0),
    }
    # None -> 1024 (more than the number of rows), "auto" -> everything in one
    # chunk, 7 -> clipped to the number of rows, 2 -> three chunks (the last one short)
    for rpc in (None, "auto", 2, 7):
        fs, arr = iu2_array(rpc)
        for name, indexers in iu2_indexers.items():
            observed[f"iu2-rpc={rpc!r}-{name}"] = run(fs, arr, indexers)
    for rpc in (1, 3, "20B", -1):
        fs, arr = iu2_array(rpc)
        for name in ("all", "reversed-strided", "list-with-duplicates", "empty-slice"):
            observed[f"iu2-rpc={rpc!r}-{name}"] = run(fs, arr, iu2_indexers[name])

    # unknown type code: fails while decoding the first row of the first chunk
    fs, arr = iu2_array(2, type_code="F*8")
    observed["bad-type-code-all"] = run(fs, arr, (slice(None), slice(None)))
    observed["bad-type-code-empty"] = run(fs, arr, (slice(0, 0), slice(None)))

    # rows whose size is not a multiple of the item size
    fs, arr = iu2_array(2)
    arr.byte_ranges[3] = (arr.byte_ranges[3][0], arr.byte_ranges[3][1] - 1)
    observed["odd-row-size"] = run(fs, arr, (slice(None), slice(None)))
    # rows with different lengths can't be stacked
    arr.byte_ranges[3] = (arr.byte_ranges[3][0], arr.byte_ranges[3][1] - 1)
    observed["ragged-rows"] = run(fs, arr, (slice(None), slice(None)))
    observed["ragged-rows-single"] = run(fs, arr, (3, slice(None)))

    for rpc in (None, 1, 3):
        fs, arr = c8_array(rpc)
        observed[f"c8-rpc={rpc!r}-all"] = run(fs, arr, (slice(None), slice(None)))
        observed[f"c8-rpc={rpc!r}-int-row"] = run(fs, arr, (2, slice(None)))
        observed[f"c8-rpc={rpc!r}-rev"] = run(fs, arr, (slice(None, None, -1), slice(1, None)))
        observed[f"c8-rpc={rpc!r}-empty"] = run(fs, arr, (slice(0, 0), slice(None)))

    return observed


# recorded with the unchanged code (clean HEAD)
EXPECTED = {'bad-type-code-all': (('raises', 'ValueError'),
                       [('open', 'img', 'rb'), ('seek', 6), ('read', 22), ('close', 'ValueError')]),
 'bad-type-code-empty': (('uint16', (0, 4), ''), [('open', 'img', 'rb'), ('close', None)]),
 'c8-rpc=1-all': (('complex64',
                   (4, 3),
                   '0000c07f0000803f0000807f000080ff00000080000000000000807f000080ff00000080000000000000c03f0000c07f0100c07f4523c1ff0000c03f0000c07fe6b1617f010000800000c03f0000c07fe6b1617f01000080000000000000807f'),
                  [('open', 'c8', 'rb'),
                   ('seek', 3),
                   ('read', 24),
                   ('seek', 30),
                   ('read', 24),
                   ('seek', 57),
                   ('read', 24),
                   ('seek', 84),
                   ('read', 24),
                   ('close', None)]),
 'c8-rpc=1-empty': (('complex64', (0, 3), ''), [('open', 'c8', 'rb'), ('close', None)]),
 'c8-rpc=1-int-row': (('complex64', (3,), '0100c07f4523c1ff0000c03f0000c07fe6b1617f01000080'),
                      [('open', 'c8', 'rb'), ('seek', 57), ('read', 24), ('close', None)]),
 'c8-rpc=1-rev': (('complex64',
                   (4, 2),
                   'e6b1617f01000080000000000000807f0000c03f0000c07fe6b1617f0100008000000080000000000000c03f0000c07f0000807f000080ff0000008000000000'),
                  [('open', 'c8', 'rb'),
                   ('seek', 84),
                   ('read', 24),
                   ('seek', 57),
                   ('read', 24),
                   ('seek', 30),
                   ('read', 24),
                   ('seek', 3),
                   ('read', 24),
                   ('close', None)]),
 'c8-rpc=3-all': (('complex64',
                   (4, 3),
                   '0000c07f0000803f0000807f000080ff00000080000000000000807f000080ff00000080000000000000c03f0000c07f0100c07f4523c1ff0000c03f0000c07fe6b1617f010000800000c03f0000c07fe6b1617f01000080000000000000807f'),
                  [('open', 'c8', 'rb'),
                   ('seek', 3),
                   ('read', 78),
                   ('seek', 84),
                   ('read', 24),
                   ('close', None)]),
 'c8-rpc=3-empty': (('complex64', (0, 3), ''), [('open', 'c8', 'rb'), ('close', None)]),
 'c8-rpc=3-int-row': (('complex64', (3,), '0100c07f4523c1ff0000c03f0000c07fe6b1617f01000080'),
                      [('open', 'c8', 'rb'), ('seek', 3), ('read', 78), ('close', None)]),
 'c8-rpc=3-rev': (('complex64',
                   (4, 2),
                   'e6b1617f01000080000000000000807f0000c03f0000c07fe6b1617f0100008000000080000000000000c03f0000c07f0000807f000080ff0000008000000000'),
                  [('open', 'c8', 'rb'),
                   ('seek', 84),
                   ('read', 24),
                   ('seek', 3),
                   ('read', 78),
                   ('close', None)]),
 'c8-rpc=None-all': (('complex64',
                      (4, 3),
                      '0000c07f0000803f0000807f000080ff00000080000000000000807f000080ff00000080000000000000c03f0000c07f0100c07f4523c1ff0000c03f0000c07fe6b1617f010000800000c03f0000c07fe6b1617f01000080000000000000807f'),
                     [('open', 'c8', 'rb'), ('seek', 3), ('read', 105), ('close', None)]),
 'c8-rpc=None-empty': (('complex64', (0, 3), ''), [('open', 'c8', 'rb'), ('close', None)]),
 'c8-rpc=None-int-row': (('complex64', (3,), '0100c07f4523c1ff0000c03f0000c07fe6b1617f01000080'),
                         [('open', 'c8', 'rb'), ('seek', 3), ('read', 105), ('close', None)]),
 'c8-rpc=None-rev': (('complex64',
                      (4, 2),
                      'e6b1617f01000080000000000000807f0000c03f0000c07fe6b1617f0100008000000080000000000000c03f0000c07f0000807f000080ff0000008000000000'),
                     [('open', 'c8', 'rb'), ('seek', 3), ('read', 105), ('close', None)]),
 "iu2-rpc='20B'-all": (('uint16',
                        (5, 4),
                        '00000101020203030404050506060707080809090a0a0b0b0c0c0d0d0e0e0f0f1010111112121313'),
                       [('open', 'img', 'rb'),
                        ('seek', 6),
                        ('read', 22),
                        ('seek', 34),
                        ('read', 22),
                        ('seek', 62),
                        ('read', 8),
                        ('close', None)]),
 "iu2-rpc='20B'-empty-slice": (('uint16', (0, 4), ''), [('open', 'img', 'rb'), ('close', None)]),
 "iu2-rpc='20B'-list-with-duplicates": (('uint16',
                                         (4, 4),
                                         '000001010202030300000101020203030c0c0d0d0e0e0f0f0c0c0d0d0e0e0f0f'),
                                        [('open', 'img', 'rb'),
                                         ('seek', 6),
                                         ('read', 22),
                                         ('seek', 34),
                                         ('read', 22),
                                         ('close', None)]),
 "iu2-rpc='20B'-reversed-strided": (('uint16', (3, 2), '1010121208080a0a00000202'),
                                    [('open', 'img', 'rb'),
                                     ('seek', 62),
                                     ('read', 8),
                                     ('seek', 34),
                                     ('read', 22),
                                     ('seek', 6),
                                     ('read', 22),
                                     ('close', None)]),
 "iu2-rpc='auto'-all": (('uint16',
                         (5, 4),
                         '00000101020203030404050506060707080809090a0a0b0b0c0c0d0d0e0e0f0f1010111112121313'),
                        [('open', 'img', 'rb'), ('seek', 6), ('read', 64), ('close', None)]),
 "iu2-rpc='auto'-bool-row": (('uint16', (4,), '0404050506060707'),
                             [('open', 'img', 'rb'), ('seek', 6), ('read', 64), ('close', None)]),
 "iu2-rpc='auto'-ellipsis-col": (('uint16', (2, 4), '00000101020203030404050506060707'),
                                 [('open', 'img', 'rb'), ('seek', 6), ('read', 64), ('close', None)]),
 "iu2-rpc='auto'-empty-list": (('uint16', (0, 2), ''), [('open', 'img', 'rb'), ('close', None)]),
 "iu2-rpc='auto'-empty-slice": (('uint16', (0, 4), ''), [('open', 'img', 'rb'), ('close', None)]),
 "iu2-rpc='auto'-int-int": (('uint16', (), '0606'),
                            [('open', 'img', 'rb'), ('seek', 6), ('read', 64), ('close', None)]),
 "iu2-rpc='auto'-int-row": (('uint16', (4,), '080809090a0a0b0b'),
                            [('open', 'img', 'rb'), ('seek', 6), ('read', 64), ('close', None)]),
 "iu2-rpc='auto'-list-and-int-col": (('uint16', (2,), '11110101'),
                                     [('open', 'img', 'rb'), ('seek', 6), ('read', 64), ('close', None)]),
 "iu2-rpc='auto'-list-out-of-range": (('raises', 'IndexError'), []),
 "iu2-rpc='auto'-list-with-duplicates": (('uint16',
                                          (4, 4),
                                          '00000101020203030c0c0d0d0e0e0f0f0c0c0d0d0e0e0f0f0000010102020303'),
                                         [('open', 'img', 'rb'), ('seek', 6), ('read', 64), ('close', None)]),
 "iu2-rpc='auto'-negative-int-row": (('uint16', (2,), '11111212'),
                                     [('open', 'img', 'rb'), ('seek', 6), ('read', 64), ('close', None)]),
 "iu2-rpc='auto'-no-indexers": (('raises', 'IndexError'), []),
 "iu2-rpc='auto'-numpy-int-row": (('raises', 'TypeError'), []),
 "iu2-rpc='auto'-reversed-strided": (('uint16', (3, 2), '1010121208080a0a00000202'),
                                     [('open', 'img', 'rb'), ('seek', 6), ('read', 64), ('close', None)]),
 "iu2-rpc='auto'-row-only-int": (('uint16', (4,), '0c0c0d0d0e0e0f0f'),
                                 [('open', 'img', 'rb'), ('seek', 6), ('read', 64), ('close', None)]),
 "iu2-rpc='auto'-row-only-slice": (('uint16', (3, 4), '0404050506060707080809090a0a0b0b0c0c0d0d0e0e0f0f'),
                                   [('open', 'img', 'rb'), ('seek', 6), ('read', 64), ('close', None)]),
 "iu2-rpc='auto'-too-many": (('raises', 'IndexError'),
                             [('open', 'img', 'rb'), ('seek', 6), ('read', 64), ('close', None)]),
 'iu2-rpc=-1-all': (('uint16',
                     (5, 4),
                     '00000101020203030404050506060707080809090a0a0b0b0c0c0d0d0e0e0f0f1010111112121313'),
                    [('open', 'img', 'rb'), ('seek', 6), ('read', 64), ('close', None)]),
 'iu2-rpc=-1-empty-slice': (('uint16', (0, 4), ''), [('open', 'img', 'rb'), ('close', None)]),
 'iu2-rpc=-1-list-with-duplicates': (('uint16',
                                      (4, 4),
                                      '00000101020203030c0c0d0d0e0e0f0f0c0c0d0d0e0e0f0f0000010102020303'),
                                     [('open', 'img', 'rb'), ('seek', 6), ('read', 64), ('close', None)]),
 'iu2-rpc=-1-reversed-strided': (('uint16', (3, 2), '1010121208080a0a00000202'),
                                 [('open', 'img', 'rb'), ('seek', 6), ('read', 64), ('close', None)]),
 'iu2-rpc=1-all': (('uint16',
                    (5, 4),
                    '00000101020203030404050506060707080809090a0a0b0b0c0c0d0d0e0e0f0f1010111112121313'),
                   [('open', 'img', 'rb'),
                    ('seek', 6),
                    ('read', 8),
                    ('seek', 20),
                    ('read', 8),
                    ('seek', 34),
                    ('read', 8),
                    ('seek', 48),
                    ('read', 8),
                    ('seek', 62),
                    ('read', 8),
                    ('close', None)]),
 'iu2-rpc=1-empty-slice': (('uint16', (0, 4), ''), [('open', 'img', 'rb'), ('close', None)]),
 'iu2-rpc=1-list-with-duplicates': (('uint16',
                                     (4, 4),
                                     '000001010202030300000101020203030c0c0d0d0e0e0f0f0c0c0d0d0e0e0f0f'),
                                    [('open', 'img', 'rb'),
                                     ('seek', 6),
                                     ('read', 8),
                                     ('seek', 48),
                                     ('read', 8),
                                     ('close', None)]),
 'iu2-rpc=1-reversed-strided': (('uint16', (3, 2), '1010121208080a0a00000202'),
                                [('open', 'img', 'rb'),
                                 ('seek', 62),
                                 ('read', 8),
                                 ('seek', 34),
                                 ('read', 8),
                                 ('seek', 6),
                                 ('read', 8),
                                 ('close', None)]),
 'iu2-rpc=2-all': (('uint16',
                    (5, 4),
                    '00000101020203030404050506060707080809090a0a0b0b0c0c0d0d0e0e0f0f1010111112121313'),
                   [('open', 'img', 'rb'),
                    ('seek', 6),
                    ('read', 22),
                    ('seek', 34),
                    ('read', 22),
                    ('seek', 62),
                    ('read', 8),
                    ('close', None)]),
 'iu2-rpc=2-bool-row': (('uint16', (4,), '0404050506060707'),
                        [('open', 'img', 'rb'), ('seek', 6), ('read', 22), ('close', None)]),
 'iu2-rpc=2-ellipsis-col': (('uint16', (2, 4), '00000101020203030404050506060707'),
                            [('open', 'img', 'rb'), ('seek', 6), ('read', 22), ('close', None)]),
 'iu2-rpc=2-empty-list': (('uint16', (0, 2), ''), [('open', 'img', 'rb'), ('close', None)]),
 'iu2-rpc=2-empty-slice': (('uint16', (0, 4), ''), [('open', 'img', 'rb'), ('close', None)]),
 'iu2-rpc=2-int-int': (('uint16', (), '0606'),
                       [('open', 'img', 'rb'), ('seek', 6), ('read', 22), ('close', None)]),
 'iu2-rpc=2-int-row': (('uint16', (4,), '080809090a0a0b0b'),
                       [('open', 'img', 'rb'), ('seek', 34), ('read', 22), ('close', None)]),
 'iu2-rpc=2-list-and-int-col': (('uint16', (2,), '11110101'),
                                [('open', 'img', 'rb'),
                                 ('seek', 62),
                                 ('read', 8),
                                 ('seek', 6),
                                 ('read', 22),
                                 ('close', None)]),
 'iu2-rpc=2-list-out-of-range': (('raises', 'IndexError'), []),
 'iu2-rpc=2-list-with-duplicates': (('uint16',
                                     (4, 4),
                                     '000001010202030300000101020203030c0c0d0d0e0e0f0f0c0c0d0d0e0e0f0f'),
                                    [('open', 'img', 'rb'),
                                     ('seek', 6),
                                     ('read', 22),
                                     ('seek', 34),
                                     ('read', 22),
                                     ('close', None)]),
 'iu2-rpc=2-negative-int-row': (('uint16', (2,), '11111212'),
                                [('open', 'img', 'rb'), ('seek', 62), ('read', 8), ('close', None)]),
 'iu2-rpc=2-no-indexers': (('raises', 'IndexError'), []),
 'iu2-rpc=2-numpy-int-row': (('raises', 'TypeError'), []),
 'iu2-rpc=2-reversed-strided': (('uint16', (3, 2), '1010121208080a0a00000202'),
                                [('open', 'img', 'rb'),
                                 ('seek', 62),
                                 ('read', 8),
                                 ('seek', 34),
                                 ('read', 22),
                                 ('seek', 6),
                                 ('read', 22),
                                 ('close', None)]),
 'iu2-rpc=2-row-only-int': (('uint16', (4,), '0c0c0d0d0e0e0f0f'),
                            [('open', 'img', 'rb'), ('seek', 34), ('read', 22), ('close', None)]),
 'iu2-rpc=2-row-only-slice': (('uint16', (3, 4), '0404050506060707080809090a0a0b0b0c0c0d0d0e0e0f0f'),
                              [('open', 'img', 'rb'),
                               ('seek', 6),
                               ('read', 22),
                               ('seek', 34),
                               ('read', 22),
                               ('close', None)]),
 'iu2-rpc=2-too-many': (('raises', 'IndexError'),
                        [('open', 'img', 'rb'), ('seek', 6), ('read', 22), ('close', None)]),
 'iu2-rpc=3-all': (('uint16',
                    (5, 4),
                    '00000101020203030404050506060707080809090a0a0b0b0c0c0d0d0e0e0f0f1010111112121313'),
                   [('open', 'img', 'rb'),
                    ('seek', 6),
                    ('read', 36),
                    ('seek', 48),
                    ('read', 22),
                    ('close', None)]),
 'iu2-rpc=3-empty-slice': (('uint16', (0, 4), ''), [('open', 'img', 'rb'), ('close', None)]),
 'iu2-rpc=3-list-with-duplicates': (('uint16',
                                     (4, 4),
                                     '000001010202030300000101020203030c0c0d0d0e0e0f0f0c0c0d0d0e0e0f0f'),
                                    [('open', 'img', 'rb'),
                                     ('seek', 6),
                                     ('read', 36),
                                     ('seek', 48),
                                     ('read', 22),
                                     ('close', None)]),
 'iu2-rpc=3-reversed-strided': (('uint16', (3, 2), '1010121208080a0a00000202'),
                                [('open', 'img', 'rb'),
                                 ('seek', 48),
                                 ('read', 22),
                                 ('seek', 6),
                                 ('read', 36),
                                 ('close', None)]),
 'iu2-rpc=7-all': (('uint16',
                    (5, 4),
                    '00000101020203030404050506060707080809090a0a0b0b0c0c0d0d0e0e0f0f1010111112121313'),
                   [('open', 'img', 'rb'), ('seek', 6), ('read', 64), ('close', None)]),
 'iu2-rpc=7-bool-row': (('uint16', (4,), '0404050506060707'),
                        [('open', 'img', 'rb'), ('seek', 6), ('read', 64), ('close', None)]),
 'iu2-rpc=7-ellipsis-col': (('uint16', (2, 4), '00000101020203030404050506060707'),
                            [('open', 'img', 'rb'), ('seek', 6), ('read', 64), ('close', None)]),
 'iu2-rpc=7-empty-list': (('uint16', (0, 2), ''), [('open', 'img', 'rb'), ('close', None)]),
 'iu2-rpc=7-empty-slice': (('uint16', (0, 4), ''), [('open', 'img', 'rb'), ('close', None)]),
 'iu2-rpc=7-int-int': (('uint16', (), '0606'),
                       [('open', 'img', 'rb'), ('seek', 6), ('read', 64), ('close', None)]),
 'iu2-rpc=7-int-row': (('uint16', (4,), '080809090a0a0b0b'),
                       [('open', 'img', 'rb'), ('seek', 6), ('read', 64), ('close', None)]),
 'iu2-rpc=7-list-and-int-col': (('uint16', (2,), '11110101'),
                                [('open', 'img', 'rb'), ('seek', 6), ('read', 64), ('close', None)]),
 'iu2-rpc=7-list-out-of-range': (('raises', 'IndexError'), []),
 'iu2-rpc=7-list-with-duplicates': (('uint16',
                                     (4, 4),
                                     '00000101020203030c0c0d0d0e0e0f0f0c0c0d0d0e0e0f0f0000010102020303'),
                                    [('open', 'img', 'rb'), ('seek', 6), ('read', 64), ('close', None)]),
 'iu2-rpc=7-negative-int-row': (('uint16', (2,), '11111212'),
                                [('open', 'img', 'rb'), ('seek', 6), ('read', 64), ('close', None)]),
 'iu2-rpc=7-no-indexers': (('raises', 'IndexError'), []),
 'iu2-rpc=7-numpy-int-row': (('raises', 'TypeError'), []),
 'iu2-rpc=7-reversed-strided': (('uint16', (3, 2), '1010121208080a0a00000202'),
                                [('open', 'img', 'rb'), ('seek', 6), ('read', 64), ('close', None)]),
 'iu2-rpc=7-row-only-int': (('uint16', (4,), '0c0c0d0d0e0e0f0f'),
                            [('open', 'img', 'rb'), ('seek', 6), ('read', 64), ('close', None)]),
 'iu2-rpc=7-row-only-slice': (('uint16', (3, 4), '0404050506060707080809090a0a0b0b0c0c0d0d0e0e0f0f'),
                              [('open', 'img', 'rb'), ('seek', 6), ('read', 64), ('close', None)]),
 'iu2-rpc=7-too-many': (('raises', 'IndexError'),
                        [('open', 'img', 'rb'), ('seek', 6), ('read', 64), ('close', None)]),
 'iu2-rpc=None-all': (('uint16',
                       (5, 4),
                       '00000101020203030404050506060707080809090a0a0b0b0c0c0d0d0e0e0f0f1010111112121313'),
                      [('open', 'img', 'rb'), ('seek', 6), ('read', 64), ('close', None)]),
 'iu2-rpc=None-bool-row': (('uint16', (4,), '0404050506060707'),
                           [('open', 'img', 'rb'), ('seek', 6), ('read', 64), ('close', None)]),
 'iu2-rpc=None-ellipsis-col': (('uint16', (2, 4), '00000101020203030404050506060707'),
                               [('open', 'img', 'rb'), ('seek', 6), ('read', 64), ('close', None)]),
 'iu2-rpc=None-empty-list': (('uint16', (0, 2), ''), [('open', 'img', 'rb'), ('close', None)]),
 'iu2-rpc=None-empty-slice': (('uint16', (0, 4), ''), [('open', 'img', 'rb'), ('close', None)]),
 'iu2-rpc=None-int-int': (('uint16', (), '0606'),
                          [('open', 'img', 'rb'), ('seek', 6), ('read', 64), ('close', None)]),
 'iu2-rpc=None-int-row': (('uint16', (4,), '080809090a0a0b0b'),
                          [('open', 'img', 'rb'), ('seek', 6), ('read', 64), ('close', None)]),
 'iu2-rpc=None-list-and-int-col': (('uint16', (2,), '11110101'),
                                   [('open', 'img', 'rb'), ('seek', 6), ('read', 64), ('close', None)]),
 'iu2-rpc=None-list-out-of-range': (('raises', 'IndexError'), []),
 'iu2-rpc=None-list-with-duplicates': (('uint16',
                                        (4, 4),
                                        '00000101020203030c0c0d0d0e0e0f0f0c0c0d0d0e0e0f0f0000010102020303'),
                                       [('open', 'img', 'rb'), ('seek', 6), ('read', 64), ('close', None)]),
 'iu2-rpc=None-negative-int-row': (('uint16', (2,), '11111212'),
                                   [('open', 'img', 'rb'), ('seek', 6), ('read', 64), ('close', None)]),
 'iu2-rpc=None-no-indexers': (('raises', 'IndexError'), []),
 'iu2-rpc=None-numpy-int-row': (('raises', 'TypeError'), []),
 'iu2-rpc=None-reversed-strided': (('uint16', (3, 2), '1010121208080a0a00000202'),
                                   [('open', 'img', 'rb'), ('seek', 6), ('read', 64), ('close', None)]),
 'iu2-rpc=None-row-only-int': (('uint16', (4,), '0c0c0d0d0e0e0f0f'),
                               [('open', 'img', 'rb'), ('seek', 6), ('read', 64), ('close', None)]),
 'iu2-rpc=None-row-only-slice': (('uint16', (3, 4), '0404050506060707080809090a0a0b0b0c0c0d0d0e0e0f0f'),
                                 [('open', 'img', 'rb'), ('seek', 6), ('read', 64), ('close', None)]),
 'iu2-rpc=None-too-many': (('raises', 'IndexError'),
                           [('open', 'img', 'rb'), ('seek', 6), ('read', 64), ('close', None)]),
 'odd-row-size': (('raises', 'ValueError'),
                  [('open', 'img', 'rb'),
                   ('seek', 6),
                   ('read', 22),
                   ('seek', 34),
                   ('read', 22),
                   ('close', 'ValueError')]),
 'ragged-rows': (('raises', 'ValueError'),
                 [('open', 'img', 'rb'),
                  ('seek', 6),
                  ('read', 22),
                  ('seek', 34),
                  ('read', 22),
                  ('seek', 62),
                  ('read', 8),
                  ('close', 'ValueError')]),
 'ragged-rows-single': (('uint16', (3,), '0c0c0d0d0e0e'),
                        [('open', 'img', 'rb'), ('seek', 34), ('read', 22), ('close', None)])}


if __name__ == "__main__":
    import ceos_alos2

    observed = observe()
    if "--print" in sys.argv:
        pprint.pprint(observed, width=110)
        sys.exit(0)

    assert set(observed) == set(EXPECTED), set(observed) ^ set(EXPECTED)
    for key, value in EXPECTED.items():
        assert observed[key] == value, (key, observed[key], value)
    print(f"ok: {len(observed)} cases identical ({ceos_alos2.__file__})")
