"""Equivalence check for refactoring 1 (ceos_alos2/sar_leader/metadata.py).

Run as

    cd /tmp/wt4/e24 && PYTHONPATH=/tmp/wt4/e24 /venv/bin/python _eq/1/equiv.py

(or through pytest).  Every case renders the result (or the exception type and
message) of ``fix_attitude_time`` / ``transform_metadata`` together with the
state of the arguments after the call into a type-, order- and value-sensitive
string and compares it with the string recorded from the unchanged code.
"""
# --------------------------------------------------------------------------
# generic harness: canonical, type-aware rendering of results + byte synthesis
# --------------------------------------------------------------------------
import math
import os
import struct as _struct
import sys

import construct
import numpy as np

HERE = os.path.dirname(os.path.abspath(__file__))
ROOT = os.path.dirname(os.path.dirname(HERE))
if ROOT not in sys.path:
    sys.path.insert(0, ROOT)

from ceos_alos2 import datatypes  # noqa: E402
from ceos_alos2.hierarchy import Group, Variable  # noqa: E402
from ceos_alos2.utils import to_dict  # noqa: E402


def canon(obj):
    """Render ``obj`` as a string that is sensitive to types, order and values."""
    if isinstance(obj, Group):
        return (
            f"Group(path={obj.path!r}, url={obj.url!r},"
            f" attrs={canon(obj.attrs)}, data={canon(obj.data)})"
        )
    if isinstance(obj, Variable):
        return f"Variable(dims={canon(obj.dims)}, data={canon(obj.data)}, attrs={canon(obj.attrs)})"
    if isinstance(obj, np.ndarray):
        if obj.dtype.kind in "mM":
            values = obj.astype("int64").tolist()
        else:
            values = obj.tolist()
        return f"ndarray[{obj.dtype.str}, {obj.shape}]({canon(values)})"
    if isinstance(obj, np.generic):
        return f"{type(obj).__name__}({obj!r})"
    if isinstance(obj, dict):
        items = ", ".join(f"{canon(k)}: {canon(v)}" for k, v in obj.items())
        return f"{type(obj).__name__}{{{items}}}"
    if isinstance(obj, (list, tuple)):
        items = ", ".join(canon(v) for v in obj)
        return f"{type(obj).__name__}[{items}]"
    if isinstance(obj, float):
        if math.isnan(obj):
            return "float(nan)"
        return f"float({obj!r})"
    if isinstance(obj, complex):
        return f"complex({canon(obj.real)}, {canon(obj.imag)})"
    if isinstance(obj, BaseException):
        return f"raised {type(obj).__module__}.{type(obj).__qualname__}({str(obj)!r})"
    if obj is None or isinstance(obj, (bool, int, str, bytes)):
        return f"{type(obj).__name__}({obj!r})"
    return f"<{type(obj).__module__}.{type(obj).__qualname__}>"


def outcome(func, *args, **kwargs):
    """Call ``func`` and render result (or exception) and the arguments afterwards."""
    try:
        result = func(*args, **kwargs)
    except Exception as e:  # noqa: BLE001
        result = e
    return f"{canon(result)} || args after: {canon(list(args))} {canon(kwargs)}"


# --- byte synthesis for the fixed-width construct definitions -------------


def _width(con):
    return con.sizeof()


def synth(con, counter, overrides=None, path=""):
    """Build bytes that ``con`` parses, numbering the fields with ``counter``."""
    overrides = overrides or {}
    if isinstance(con, construct.Renamed):
        new_path = f"{path}.{con.name}" if path else con.name
        if new_path in overrides:
            return overrides[new_path]
        return synth(con.subcon, counter, overrides, new_path)
    if isinstance(con, construct.Struct):
        return b"".join(synth(sub, counter, overrides, path) for sub in con.subcons)
    if isinstance(con, construct.Array):
        return b"".join(
            synth(con.subcon, counter, overrides, f"{path}[{i}]") for i in range(con.count)
        )
    if isinstance(con, construct.Enum):
        choices = list(con.encmapping.values())
        value = choices[next(counter) % len(choices)]
        n = _width(con.subcon)
        if isinstance(value, int):
            return str(value).rjust(n).encode("ascii")
        return str(value).ljust(n).encode("ascii")
    if isinstance(con, (datatypes.Metadata, datatypes.Factor)):
        return synth(con.subcon, counter, overrides, path)
    if isinstance(con, datatypes.AsciiComplex):
        return synth(con.subcon, counter, overrides, path)
    if isinstance(con, datatypes.AsciiInteger):
        n = _width(con)
        i = next(counter)
        if i % 11 == 10:
            return b" " * n
        return str(i % 10 ** min(n, 6)).rjust(n).encode("ascii")
    if isinstance(con, datatypes.AsciiFloat):
        n = _width(con)
        i = next(counter)
        if i % 13 == 12:
            return b" " * n
        text = f"{(-1) ** i * (i + 0.25) * 1.5:.{max(n - 9, 1)}E}" if n >= 14 else f"{i % 90}.5"
        return text.rjust(n).encode("ascii")[:n]
    if isinstance(con, datatypes.PaddedString):
        n = _width(con)
        i = next(counter)
        return f"s{i}".ljust(n).encode("ascii")[:n]
    if isinstance(con, construct.FormatField):
        return _struct.pack(con.fmtstr, next(counter) % 200)
    raise TypeError(f"cannot synthesise {con!r} at {path}")


def describe(con, depth=0):
    """Structural fingerprint of a construct definition (names, classes, sizes, attrs)."""
    if isinstance(con, construct.Renamed):
        return f"{con.name!r}/" + describe(con.subcon, depth)
    if isinstance(con, construct.Struct):
        inner = ", ".join(describe(sub, depth + 1) for sub in con.subcons)
        return f"Struct({inner})"
    if isinstance(con, construct.Array):
        count = con.count if isinstance(con.count, int) else "<expr>"
        return f"Array[{count}]({describe(con.subcon, depth + 1)})"
    if isinstance(con, construct.Enum):
        return f"Enum({describe(con.subcon)}, {sorted(con.encmapping.items(), key=repr)!r})"
    if isinstance(con, datatypes.Metadata):
        return f"Metadata({describe(con.subcon)}, {con.attrs!r})"
    if isinstance(con, datatypes.Factor):
        return f"Factor({describe(con.subcon)}, {con.factor!r})"
    if isinstance(con, datatypes.AsciiComplex):
        return f"AsciiComplex({describe(con.subcon)})"
    if isinstance(con, (datatypes.AsciiInteger, datatypes.AsciiFloat, datatypes.PaddedString)):
        try:
            size = con.sizeof()
        except Exception:  # noqa: BLE001 - size depends on the parsing context
            size = "<expr>"
        return f"{type(con).__name__}({size})"
    if isinstance(con, construct.FormatField):
        return f"FormatField({con.fmtstr!r})"
    return f"<{type(con).__name__}>"


def counter_from(start):
    import itertools

    return itertools.count(start)


def shorten(text, limit=400):
    """Keep the recording small: long renderings become head + length + sha256."""
    if len(text) <= limit:
        return text
    import hashlib

    digest = hashlib.sha256(text.encode("utf-8")).hexdigest()
    return f"{text[:limit]} ... [{len(text)} chars, sha256 {digest}]"


def report(cases, expected):
    """Evaluate ``cases`` (name -> thunk returning str) against ``expected``."""
    actual = {name: shorten(thunk()) for name, thunk in cases.items()}
    if "--record" in sys.argv:
        import pprint

        with open(os.path.join(HERE, "expected.txt"), "w") as f:
            f.write("EXPECTED = " + pprint.pformat(actual, width=110, sort_dicts=False) + "\n")
        print(f"recorded {len(actual)} cases")
        return []

    failures = []
    if list(actual) != list(expected):
        failures.append(f"case names differ: {sorted(set(actual) ^ set(expected))}")
    for name, value in actual.items():
        if expected.get(name) != value:
            failures.append(f"{name}:\n  expected {expected.get(name)}\n  actual   {value}")
    return failures


# --------------------------------------------------------------------------
# cases: ceos_alos2.sar_leader.metadata (fix_attitude_time, transform_metadata)
# --------------------------------------------------------------------------
from ceos_alos2.sar_leader import metadata  # noqa: E402
from ceos_alos2.sar_leader.attitude import attitude_record  # noqa: E402
from ceos_alos2.sar_leader.data_quality_summary import data_quality_summary_record  # noqa: E402
from ceos_alos2.sar_leader.dataset_summary import dataset_summary_record  # noqa: E402
from ceos_alos2.sar_leader.map_projection import map_projection_record  # noqa: E402
from ceos_alos2.sar_leader.platform_position import platform_position_record  # noqa: E402
from ceos_alos2.sar_leader.radiometric_data import radiometric_data_record  # noqa: E402


def G(data=None, attrs=None, path=None, url=None):
    return Group(path=path, url=url, data=data or {}, attrs=attrs or {})


def timedelta_var(values, attrs=None, dims="points", unit="ns"):
    return Variable(dims, np.array(values, dtype=f"timedelta64[{unit}]"), attrs or {})


def attitude_group(n_sub=2, values=(0, 86400 * 10**9, 123456789), attrs=None, with_time=True):
    names = ["attitude", "rates", "third"][:n_sub]
    subgroups = {}
    for index, name in enumerate(names):
        data = {"pitch": Variable("points", np.arange(len(values)) * 1.5 + index, {"units": "deg"})}
        if with_time:
            data["time"] = timedelta_var(
                [v + index for v in values], attrs={"long_name": f"time {index}"}
            )
        subgroups[name] = G(data=data, attrs={"coordinates": ["time"]})
    return G(data=subgroups, attrs=attrs or {})


def platform_group(datetime="2011-07-16T00:00:00", attrs=None):
    if attrs is None:
        attrs = {"datetime_of_first_point": datetime}
    return G(attrs=attrs)


def fix_case(group):
    def thunk():
        try:
            result = metadata.fix_attitude_time(group)
        except Exception as e:  # noqa: BLE001
            return f"{canon(e)} || group after: {canon(group)}"
        return f"same object: {result is group} || {canon(result)}"

    return thunk


def identity_case():
    time = timedelta_var([1, 2, 3], attrs={"a": 1})
    sub = G(data={"time": time})
    group = G(data={"platform_position": platform_group(), "attitude": G(data={"attitude": sub})})
    # Group copies its children: fetch the objects actually stored
    stored_sub = group["attitude"]["attitude"]
    stored_time = stored_sub.data["time"]
    result = metadata.fix_attitude_time(group)
    new_time = result["attitude"]["attitude"].data["time"]
    return canon(
        {
            "result is group": result is group,
            "subgroup kept": result["attitude"]["attitude"] is stored_sub,
            "attrs shared": new_time.attrs is stored_time.attrs,
            "dims shared": new_time.dims is stored_time.dims,
            "variable replaced": new_time is not stored_time,
            "old variable untouched": canon(stored_time),
            "dtype": str(new_time.data.dtype),
        }
    )


CASES = {}

CASES["fix/plain dict without keys"] = fix_case({})
CASES["fix/dict only platform_position"] = fix_case({"platform_position": platform_group()})
CASES["fix/dict only attitude"] = fix_case({"attitude": attitude_group()})
CASES["fix/group without platform_position"] = fix_case(G(data={"attitude": attitude_group()}))
CASES["fix/group without attitude"] = fix_case(G(data={"platform_position": platform_group()}))
CASES["fix/dict with both"] = fix_case(
    {"platform_position": platform_group(), "attitude": attitude_group()}
)
CASES["fix/group with both"] = fix_case(
    G(data={"platform_position": platform_group("2020-02-29T23:59:59.5"), "attitude": attitude_group()})
)
CASES["fix/three subgroups, other order"] = fix_case(
    G(
        data={
            "attitude": attitude_group(n_sub=3, values=(5, -5, 10**15)),
            "extra": G(attrs={"x": 1}),
            "platform_position": platform_group("1999-12-31T00:00:00"),
        },
        attrs={"top": True},
    )
)
CASES["fix/no subgroups"] = fix_case(
    G(data={"platform_position": platform_group(), "attitude": attitude_group(n_sub=0)})
)
CASES["fix/no subgroups, missing attr"] = fix_case(
    G(data={"platform_position": platform_group(attrs={}), "attitude": attitude_group(n_sub=0)})
)
CASES["fix/missing attr with subgroups"] = fix_case(
    G(data={"platform_position": platform_group(attrs={"other": 1}), "attitude": attitude_group()})
)
CASES["fix/subgroup without time"] = fix_case(
    G(data={"platform_position": platform_group(), "attitude": attitude_group(with_time=False)})
)
CASES["fix/second subgroup without time"] = fix_case(
    G(
        data={
            "platform_position": platform_group(),
            "attitude": G(
                data={
                    "attitude": G(data={"time": timedelta_var([1, 2])}),
                    "rates": G(data={"pitch": Variable("points", np.array([1.0]), {})}),
                }
            ),
        }
    )
)
CASES["fix/variables next to subgroups"] = fix_case(
    G(
        data={
            "platform_position": platform_group(),
            "attitude": G(
                data={
                    "time": timedelta_var([7, 8]),
                    "attitude": G(data={"time": timedelta_var([1, 2], dims=["points"])}),
                }
            ),
        }
    )
)
CASES["fix/short year"] = fix_case(
    G(data={"platform_position": platform_group("20"), "attitude": attitude_group()})
)
CASES["fix/invalid year"] = fix_case(
    G(data={"platform_position": platform_group("abcd-01-01"), "attitude": attitude_group()})
)
CASES["fix/empty datetime"] = fix_case(
    G(data={"platform_position": platform_group(""), "attitude": attitude_group()})
)
CASES["fix/non-string datetime"] = fix_case(
    G(data={"platform_position": platform_group(attrs={"datetime_of_first_point": 2011}), "attitude": attitude_group()})
)
CASES["fix/bytes datetime"] = fix_case(
    G(data={"platform_position": platform_group(attrs={"datetime_of_first_point": b"2011-07"}), "attitude": attitude_group()})
)
CASES["fix/millisecond timedeltas"] = fix_case(
    G(
        data={
            "platform_position": platform_group(),
            "attitude": G(data={"a": G(data={"time": timedelta_var([1, 2000], unit="ms")})}),
        }
    )
)
CASES["fix/day timedeltas, 2d"] = fix_case(
    G(
        data={
            "platform_position": platform_group(),
            "attitude": G(
                data={
                    "a": G(
                        data={
                            "time": Variable(
                                ["x", "y"],
                                np.array([[1, 2], [3, 4]], dtype="timedelta64[D]"),
                                {"k": "v"},
                            )
                        }
                    )
                }
            ),
        }
    )
)
CASES["fix/integer time"] = fix_case(
    G(
        data={
            "platform_position": platform_group(),
            "attitude": G(data={"a": G(data={"time": Variable("points", np.array([1, 2]), {})})}),
        }
    )
)
CASES["fix/float time"] = fix_case(
    G(
        data={
            "platform_position": platform_group(),
            "attitude": G(data={"a": G(data={"time": Variable("points", np.array([1.5]), {})})}),
        }
    )
)
CASES["fix/time is a list"] = fix_case(
    G(
        data={
            "platform_position": platform_group(),
            "attitude": G(data={"a": G(data={"time": Variable("points", [1, 2], {})})}),
        }
    )
)
CASES["fix/attitude is a variable"] = fix_case(
    {"platform_position": platform_group(), "attitude": timedelta_var([1])}
)
CASES["fix/platform_position is a dict"] = fix_case(
    {"platform_position": {"datetime_of_first_point": "2011"}, "attitude": attitude_group()}
)
CASES["fix/identity"] = identity_case


# --- transform_metadata ----------------------------------------------------


def parse(con, start, overrides=None):
    return to_dict(con.parse(synth(con, counter_from(start), overrides)))


def attitude_bytes(n_points, start):
    from ceos_alos2.sar_leader.attitude import attitude_point

    counter = counter_from(start)
    points = b"".join(synth(attitude_point, counter) for _ in range(n_points))
    length = 12 + 4 + n_points * 120 + 20
    preamble = _struct.pack(">IBBBBI", 5, 18, 40, 18, 20, length)
    return preamble + str(n_points).rjust(4).encode() + points + b" " * 20


def quality_bytes(n_channels, start):
    from ceos_alos2.sar_leader.data_quality_summary import data_quality_summary_record as rec

    counter = counter_from(start)
    subcons = {sub.name: sub for sub in rec.subcons}
    out = synth(subcons["preamble"], counter)
    out += synth(subcons["record_number"], counter)
    out += synth(subcons["sar_channel_id"], counter)
    out += synth(subcons["date_of_the_last_calibration_update"], counter)
    out += str(n_channels).rjust(4).encode()
    out += synth(subcons["absolute_radiometric_data_quality"], counter)
    for _ in range(n_channels):
        out += synth(datatypes.AsciiFloat(16), counter) + synth(datatypes.AsciiFloat(16), counter)
    out += b" " * (512 - n_channels * 32)
    out += synth(subcons["absolute_geometric_quality"], counter)
    for _ in range(n_channels):
        out += synth(datatypes.AsciiFloat(16), counter) + synth(datatypes.AsciiFloat(16), counter)
    out += b" " * (534 + (8 - n_channels) * 32)
    return out


def full_mapping(start, n_points=3, n_channels=2, designator="UTM-PROJECTION", n_map=1):
    summary = parse(
        dataset_summary_record, start, {"scene_center_time": b"20110716123456789".ljust(32)}
    )
    projections = [
        parse(
            map_projection_record,
            start + 1000 + index,
            {"map_projection_designator": designator.ljust(32).encode()},
        )
        for index in range(n_map)
    ]
    position = parse(
        platform_position_record,
        start + 2000,
        {"datetime_of_first_point.date": b"2011 07  16 "},
    )
    attitude = to_dict(attitude_record.parse(attitude_bytes(n_points, start + 3000)))
    radiometric = parse(radiometric_data_record, start + 4000)
    quality = to_dict(data_quality_summary_record.parse(quality_bytes(n_channels, start + 5000)))
    return {
        "file_descriptor": {"a": 1},
        "dataset_summary": summary,
        "map_projection": projections,
        "platform_position": position,
        "attitude": attitude,
        "radiometric_data": radiometric,
        "data_quality_summary": quality,
        "facility_related_data_1": {"b": 1},
        "facility_related_data_2": {"b": 2},
        "facility_related_data_3": {"b": 3},
        "facility_related_data_4": {"b": 4},
        "facility_related_data_5": {"prf_switching_flag": 1, "conversion": {}},
    }


def subset(mapping, keys):
    return {k: mapping[k] for k in keys}


def meta_case(mapping):
    return lambda: outcome(metadata.transform_metadata, mapping)


CASES["meta/empty"] = meta_case({})
CASES["meta/only ignored"] = meta_case(
    {
        "file_descriptor": {"a": ""},
        "facility_related_data_1": {},
        "facility_related_data_2": {"x": 1},
        "facility_related_data_3": {},
        "facility_related_data_4": {},
    }
)
CASES["meta/falsy values dropped"] = meta_case(
    {
        "dataset_summary": {},
        "map_projection": [],
        "platform_position": None,
        "attitude": 0,
        "radiometric_data": "",
        "data_quality_summary": (),
        "facility_related_data_5": {},
    }
)
CASES["meta/record5 only"] = meta_case({"facility_related_data_5": {"prf_switching_flag": 0}})
CASES["meta/record5 truthy flag"] = meta_case({"facility_related_data_5": {"prf_switching_flag": 1}})
CASES["meta/unknown keys pass through"] = meta_case(
    {
        "zzz": G(attrs={"a": 1}),
        "yyy": G(data={"v": Variable("x", np.array([1.5]), {})}, attrs={"a": 2}),
        "xxx": [1, 2],
        "transformations": Variable("x", np.array([1, 2]), {}),
        "facility_related_data_5": {"prf_switching_flag": 0},
    }
)
CASES["meta/name clash after translation"] = meta_case(
    {
        "facility_related_data_5": {"prf_switching_flag": 0},
        "transformations": G(attrs={"clash": True}),
    }
)
CASES["meta/name clash, other order"] = meta_case(
    {
        "transformations": G(attrs={"clash": True}),
        "facility_related_data_5": {"prf_switching_flag": 1},
    }
)
CASES["meta/map projection not a sequence"] = meta_case({"map_projection": 5})
CASES["meta/map projection generator (empty)"] = meta_case({"map_projection": iter(())})
CASES["meta/map projection dict"] = meta_case({"map_projection": {"preamble": {}, "x": 1}})
CASES["meta/broken record"] = meta_case({"attitude": {"no_data_points": 1}})
CASES["meta/broken platform position"] = meta_case({"platform_position": {"positions": 3}})
CASES["meta/mapping is not a mapping"] = meta_case([("a", 1)])
CASES["meta/mapping is None"] = meta_case(None)

for _start, _kwargs in [
    (1, {}),
    (37, {"n_points": 1, "n_channels": 1, "designator": "UPS-X"}),
    (101, {"n_points": 0, "n_channels": 0, "designator": "LCC-CONFORMAL", "n_map": 2}),
    (202, {"n_points": 2, "n_channels": 8, "designator": "lcc-lower", "n_map": 2}),
    (555, {"n_points": 5, "n_channels": 4, "designator": "MER-CATOR", "n_map": 3}),
    (900, {"designator": "XYZ-UNKNOWN"}),
    (901, {"designator": "NODASH"}),
]:
    _full = full_mapping(_start, **_kwargs)
    CASES[f"meta/full {_start} {_kwargs}"] = meta_case(_full)
    CASES[f"meta/full {_start} without map projection"] = meta_case(
        {k: v for k, v in _full.items() if k != "map_projection"}
    )
    CASES[f"meta/full {_start} empty map projection list"] = meta_case(
        _full | {"map_projection": []}
    )
    CASES[f"meta/full {_start} attitude only"] = meta_case(subset(_full, ["attitude"]))
    CASES[f"meta/full {_start} attitude before platform position"] = meta_case(
        subset(_full, ["attitude", "facility_related_data_5", "platform_position"])
    )
    CASES[f"meta/full {_start} platform position only"] = meta_case(
        subset(_full, ["platform_position"])
    )
    CASES[f"meta/full {_start} reversed"] = meta_case(dict(reversed(list(_full.items()))))


# --------------------------------------------------------------------------
# expectations recorded from the UNCHANGED code (git HEAD 405b008), `--record`
# --------------------------------------------------------------------------
# fmt: off
EXPECTED = {'fix/plain dict without keys': 'same object: True || dict{}',
 'fix/dict only platform_position': "same object: True || dict{str('platform_position'): Group(path='/', "
                                    "url=None, attrs=dict{str('datetime_of_first_point'): "
                                    "str('2011-07-16T00:00:00')}, data=dict{})}",
 'fix/dict only attitude': "same object: True || dict{str('attitude'): Group(path='/', url=None, "
                           "attrs=dict{}, data=dict{str('attitude'): Group(path='/attitude', url=None, "
                           "attrs=dict{str('coordinates'): list[str('time')]}, data=dict{str('pitch'): "
                           "Variable(dims=list[str('points')], data=ndarray[<f8, (3,)](list[float(0.0), "
                           "float(1.5), float(3.0)]), attrs=dict{str('units'): str('deg')}), str('time'): "
                           "Variable(dims=list[str('poi ... [974 chars, sha256 "
                           '8da2f03eb7d9a536b5cd0566e13fcba6518c2b5b91ebe7f1d51290ad84deee6e]',
 'fix/group without platform_position': "same object: True || Group(path='/', url=None, attrs=dict{}, "
                                        "data=dict{str('attitude'): Group(path='/attitude', url=None, "
                                        "attrs=dict{}, data=dict{str('attitude'): "
                                        "Group(path='/attitude/attitude', url=None, "
                                        "attrs=dict{str('coordinates'): list[str('time')]}, "
                                        "data=dict{str('pitch'): Variable(dims=list[str('points')], "
                                        'data=ndarray[<f8, (3,)](list[float(0.0), float(1.5), float(3.0)]), '
                                        "attrs=dict{str('u ... [1046 chars, sha256 "
                                        '2eb7c9d24e60a4bb02ae413e17fe399a65309c4b97a248e959829d5c85298361]',
 'fix/group without attitude': "same object: True || Group(path='/', url=None, attrs=dict{}, "
                               "data=dict{str('platform_position'): Group(path='/platform_position', "
                               "url=None, attrs=dict{str('datetime_of_first_point'): "
                               "str('2011-07-16T00:00:00')}, data=dict{})})",
 'fix/dict with both': "same object: True || dict{str('platform_position'): Group(path='/', url=None, "
                       "attrs=dict{str('datetime_of_first_point'): str('2011-07-16T00:00:00')}, "
                       "data=dict{}), str('attitude'): Group(path='/', url=None, attrs=dict{}, "
                       "data=dict{str('attitude'): Group(path='/attitude', url=None, "
                       "attrs=dict{str('coordinates'): list[str('time')]}, data=dict{str('pitch'): "
                       "Variable(dims=list[str('points')], data=nda ... [1178 chars, sha256 "
                       'b984721f21cefd07cdcb1242e9508cce6c07f7899188acc82ddd8cada8a35fc7]',
 'fix/group with both': "same object: True || Group(path='/', url=None, attrs=dict{}, "
                        "data=dict{str('platform_position'): Group(path='/platform_position', url=None, "
                        "attrs=dict{str('datetime_of_first_point'): str('2020-02-29T23:59:59.5')}, "
                        "data=dict{}), str('attitude'): Group(path='/attitude', url=None, attrs=dict{}, "
                        "data=dict{str('attitude'): Group(path='/attitude/attitude', url=None, "
                        "attrs=dict{str('coordinates'): list[s ... [1269 chars, sha256 "
                        '9963499ee9e162026861e094c426ccff9e82bd3af0a2ab544fd88ef068fe3423]',
 'fix/three subgroups, other order': "same object: True || Group(path='/', url=None, attrs=dict{str('top'): "
                                     "bool(True)}, data=dict{str('attitude'): Group(path='/attitude', "
                                     "url=None, attrs=dict{}, data=dict{str('attitude'): "
                                     "Group(path='/attitude/attitude', url=None, "
                                     "attrs=dict{str('coordinates'): list[str('time')]}, "
                                     "data=dict{str('pitch'): Variable(dims=list[str('points')], "
                                     'data=ndarray[<f8, (3,)](list[float(0.0), float(1.5), float(3.0 ... '
                                     '[1848 chars, sha256 '
                                     '4301e94a9c25c2e7e4d8ce13b1afd5b6bed95901474a922a33ac09c887545ad8]',
 'fix/no subgroups': "same object: True || Group(path='/', url=None, attrs=dict{}, "
                     "data=dict{str('platform_position'): Group(path='/platform_position', url=None, "
                     "attrs=dict{str('datetime_of_first_point'): str('2011-07-16T00:00:00')}, data=dict{}), "
                     "str('attitude'): Group(path='/attitude', url=None, attrs=dict{}, data=dict{})})",
 'fix/no subgroups, missing attr': 'raised builtins.KeyError("\'datetime_of_first_point\'") || group after: '
                                   "Group(path='/', url=None, attrs=dict{}, "
                                   "data=dict{str('platform_position'): Group(path='/platform_position', "
                                   "url=None, attrs=dict{}, data=dict{}), str('attitude'): "
                                   "Group(path='/attitude', url=None, attrs=dict{}, data=dict{})})",
 'fix/missing attr with subgroups': 'raised builtins.KeyError("\'datetime_of_first_point\'") || group after: '
                                    "Group(path='/', url=None, attrs=dict{}, "
                                    "data=dict{str('platform_position'): Group(path='/platform_position', "
                                    "url=None, attrs=dict{str('other'): int(1)}, data=dict{}), "
                                    "str('attitude'): Group(path='/attitude', url=None, attrs=dict{}, "
                                    "data=dict{str('attitude'): Group(path='/attitude/attitude', url=None, "
                                    "attrs=dict{str('coordinates' ... [1212 chars, sha256 "
                                    'c67b2d416e1555be538a4030c51399d0e6e6b1fb29defd6fe5fc7769b1edf81f]',
 'fix/subgroup without time': 'raised builtins.KeyError("\'time\'") || group after: Group(path=\'/\', '
                              "url=None, attrs=dict{}, data=dict{str('platform_position'): "
                              "Group(path='/platform_position', url=None, "
                              "attrs=dict{str('datetime_of_first_point'): str('2011-07-16T00:00:00')}, "
                              "data=dict{}), str('attitude'): Group(path='/attitude', url=None, "
                              "attrs=dict{}, data=dict{str('attitude'): Group(path='/attitude/attitude', "
                              'url=None, attrs=dic ... [883 chars, sha256 '
                              '1bb20ee3e74b2596f7a8ab5c55e166c5b39a61c9d7f78bf53ed5effb39a1b8d5]',
 'fix/second subgroup without time': 'raised builtins.KeyError("\'time\'") || group after: Group(path=\'/\', '
                                     "url=None, attrs=dict{}, data=dict{str('platform_position'): "
                                     "Group(path='/platform_position', url=None, "
                                     "attrs=dict{str('datetime_of_first_point'): "
                                     "str('2011-07-16T00:00:00')}, data=dict{}), str('attitude'): "
                                     "Group(path='/attitude', url=None, attrs=dict{}, "
                                     "data=dict{str('attitude'): Group(path='/attitude/attitude', url=None, "
                                     'attrs=dic ... [756 chars, sha256 '
                                     '58c7d1078cd07a268adc0bae81c170c6c2c6fb23a6e2c684747bf734606a70fd]',
 'fix/variables next to subgroups': "same object: True || Group(path='/', url=None, attrs=dict{}, "
                                    "data=dict{str('platform_position'): Group(path='/platform_position', "
                                    "url=None, attrs=dict{str('datetime_of_first_point'): "
                                    "str('2011-07-16T00:00:00')}, data=dict{}), str('attitude'): "
                                    "Group(path='/attitude', url=None, attrs=dict{}, data=dict{str('time'): "
                                    "Variable(dims=list[str('points')], data=ndarray[<m8[ns], "
                                    '(2,)](list[int(7), int(8)]),  ... [653 chars, sha256 '
                                    '5459d1d28c39cc50b05d494de5c3406f1ee96657e7112e0dab4917742be1b3ea]',
 'fix/short year': "same object: True || Group(path='/', url=None, attrs=dict{}, "
                   "data=dict{str('platform_position'): Group(path='/platform_position', url=None, "
                   "attrs=dict{str('datetime_of_first_point'): str('20')}, data=dict{}), str('attitude'): "
                   "Group(path='/attitude', url=None, attrs=dict{}, data=dict{str('attitude'): "
                   "Group(path='/attitude/attitude', url=None, attrs=dict{str('coordinates'): "
                   "list[str('time')]}, data= ... [1256 chars, sha256 "
                   'de68fbb3dd19b5a20877d17eed7b0198bf0fea112e9199739b625c35a5974cd8]',
 'fix/invalid year': 'raised builtins.ValueError(\'Error parsing datetime string "abcd-01-01" at position '
                     "0') || group after: Group(path='/', url=None, attrs=dict{}, "
                     "data=dict{str('platform_position'): Group(path='/platform_position', url=None, "
                     "attrs=dict{str('datetime_of_first_point'): str('abcd-01-01')}, data=dict{}), "
                     "str('attitude'): Group(path='/attitude', url=None, attrs=dict{}, "
                     "data=dict{str('attitude'): Group(pat ... [1274 chars, sha256 "
                     '5fa1933ef5688750fd65fd0f0cacedfc93f8addf9c758db6cfa4f998c6d225ac]',
 'fix/empty datetime': "same object: True || Group(path='/', url=None, attrs=dict{}, "
                       "data=dict{str('platform_position'): Group(path='/platform_position', url=None, "
                       "attrs=dict{str('datetime_of_first_point'): str('')}, data=dict{}), str('attitude'): "
                       "Group(path='/attitude', url=None, attrs=dict{}, data=dict{str('attitude'): "
                       "Group(path='/attitude/attitude', url=None, attrs=dict{str('coordinates'): "
                       "list[str('time')]}, data=di ... [1254 chars, sha256 "
                       '9a2becb0cdae0c1ea1032da7b825951d04336a8f5930c442a0587268dd38af78]',
 'fix/non-string datetime': 'raised builtins.TypeError("\'int\' object is not subscriptable") || group '
                            "after: Group(path='/', url=None, attrs=dict{}, "
                            "data=dict{str('platform_position'): Group(path='/platform_position', url=None, "
                            "attrs=dict{str('datetime_of_first_point'): int(2011)}, data=dict{}), "
                            "str('attitude'): Group(path='/attitude', url=None, attrs=dict{}, "
                            "data=dict{str('attitude'): Group(path='/attitude/attitude', url=None ... [1242 "
                            'chars, sha256 01c5693c4363656e5570b2ea297a5e4d56b5fa01b54b41023cea61f80fa944cd]',
 'fix/bytes datetime': 'raised builtins.ValueError(\'Error parsing datetime string "b\\\'2011\\\'-01-01" at '
                       "position 0') || group after: Group(path='/', url=None, attrs=dict{}, "
                       "data=dict{str('platform_position'): Group(path='/platform_position', url=None, "
                       "attrs=dict{str('datetime_of_first_point'): bytes(b'2011-07')}, data=dict{}), "
                       "str('attitude'): Group(path='/attitude', url=None, attrs=dict{}, "
                       "data=dict{str('attitude'): Grou ... [1279 chars, sha256 "
                       '32a0894e1089ac11c55dda1bd2eb6e3d5729cbcec0b646037e0841cf438ce8f4]',
 'fix/millisecond timedeltas': "same object: True || Group(path='/', url=None, attrs=dict{}, "
                               "data=dict{str('platform_position'): Group(path='/platform_position', "
                               "url=None, attrs=dict{str('datetime_of_first_point'): "
                               "str('2011-07-16T00:00:00')}, data=dict{}), str('attitude'): "
                               "Group(path='/attitude', url=None, attrs=dict{}, data=dict{str('a'): "
                               "Group(path='/attitude/a', url=None, attrs=dict{}, data=dict{str('time'): "
                               'Variable(dims=li ... [525 chars, sha256 '
                               '2c495af50fc84f11c7e74dce58fe7471523c72ad63a953ceff76112f4c103b75]',
 'fix/day timedeltas, 2d': "same object: True || Group(path='/', url=None, attrs=dict{}, "
                           "data=dict{str('platform_position'): Group(path='/platform_position', url=None, "
                           "attrs=dict{str('datetime_of_first_point'): str('2011-07-16T00:00:00')}, "
                           "data=dict{}), str('attitude'): Group(path='/attitude', url=None, attrs=dict{}, "
                           "data=dict{str('a'): Group(path='/attitude/a', url=None, attrs=dict{}, "
                           "data=dict{str('time'): Variable(dims=li ... [614 chars, sha256 "
                           'cb695ad733cb354e083bcdd8a4c14f692b09e9dd8dbd7891ed8eeff81a4cd764]',
 'fix/integer time': "same object: True || Group(path='/', url=None, attrs=dict{}, "
                     "data=dict{str('platform_position'): Group(path='/platform_position', url=None, "
                     "attrs=dict{str('datetime_of_first_point'): str('2011-07-16T00:00:00')}, data=dict{}), "
                     "str('attitude'): Group(path='/attitude', url=None, attrs=dict{}, data=dict{str('a'): "
                     "Group(path='/attitude/a', url=None, attrs=dict{}, data=dict{str('time'): "
                     'Variable(dims=li ... [525 chars, sha256 '
                     'b57770127ccf520d24784c03a5bb3e5ebcde7eded389dab9cc635bfad5185eac]',
 'fix/float time': 'raised numpy._core._exceptions._UFuncBinaryResolutionError("ufunc \'add\' cannot use '
                   'operands with types dtype(\'<M8[ns]\') and dtype(\'float64\')") || group after: '
                   "Group(path='/', url=None, attrs=dict{}, data=dict{str('platform_position'): "
                   "Group(path='/platform_position', url=None, attrs=dict{str('datetime_of_first_point'): "
                   "str('2011-07-16T00:00:00')}, data=dict{}), str('attitude'): Group(path='/attitu ... [619 "
                   'chars, sha256 960fe67160c8e84f173ef6e3189f29198ec7eadc3834ca8ad93672289011fe3f]',
 'fix/time is a list': "same object: True || Group(path='/', url=None, attrs=dict{}, "
                       "data=dict{str('platform_position'): Group(path='/platform_position', url=None, "
                       "attrs=dict{str('datetime_of_first_point'): str('2011-07-16T00:00:00')}, "
                       "data=dict{}), str('attitude'): Group(path='/attitude', url=None, attrs=dict{}, "
                       "data=dict{str('a'): Group(path='/attitude/a', url=None, attrs=dict{}, "
                       "data=dict{str('time'): Variable(dims=li ... [525 chars, sha256 "
                       'b57770127ccf520d24784c03a5bb3e5ebcde7eded389dab9cc635bfad5185eac]',
 'fix/attitude is a variable': 'raised builtins.AttributeError("\'Variable\' object has no attribute '
                               '\'groups\'") || group after: dict{str(\'platform_position\'): '
                               "Group(path='/', url=None, attrs=dict{str('datetime_of_first_point'): "
                               "str('2011-07-16T00:00:00')}, data=dict{}), str('attitude'): "
                               "Variable(dims=list[str('points')], data=ndarray[<m8[ns], "
                               '(1,)](list[int(1)]), attrs=dict{})}',
 'fix/platform_position is a dict': 'raised builtins.AttributeError("\'dict\' object has no attribute '
                                    '\'attrs\'") || group after: dict{str(\'platform_position\'): '
                                    "dict{str('datetime_of_first_point'): str('2011')}, str('attitude'): "
                                    "Group(path='/', url=None, attrs=dict{}, data=dict{str('attitude'): "
                                    "Group(path='/attitude', url=None, attrs=dict{str('coordinates'): "
                                    "list[str('time')]}, data=dict{str('pitch'): "
                                    "Variable(dims=list[str('points')], d ... [1119 chars, sha256 "
                                    '4b3b341be913d9602cb6d0890bc58ca25737a45dbbc189650cfc565c79efb93e]',
 'fix/identity': "dict{str('result is group'): bool(True), str('subgroup kept'): bool(True), str('attrs "
                 "shared'): bool(True), str('dims shared'): bool(True), str('variable replaced'): "
                 'bool(True), str(\'old variable untouched\'): str("Variable(dims=list[str(\'points\')], '
                 "data=ndarray[<m8[ns], (3,)](list[int(1), int(2), int(3)]), attrs=dict{str('a'): "
                 'int(1)})"), str(\'dtype\'): str(\'datetime64[ns]\')}',
 'meta/empty': "Group(path='/', url=None, attrs=dict{}, data=dict{}) || args after: list[dict{}] dict{}",
 'meta/only ignored': "Group(path='/', url=None, attrs=dict{}, data=dict{}) || args after: "
                      "list[dict{str('file_descriptor'): dict{str('a'): str('')}, "
                      "str('facility_related_data_1'): dict{}, str('facility_related_data_2'): "
                      "dict{str('x'): int(1)}, str('facility_related_data_3'): dict{}, "
                      "str('facility_related_data_4'): dict{}}] dict{}",
 'meta/falsy values dropped': "Group(path='/', url=None, attrs=dict{}, data=dict{}) || args after: "
                              "list[dict{str('dataset_summary'): dict{}, str('map_projection'): list[], "
                              "str('platform_position'): NoneType(None), str('attitude'): int(0), "
                              "str('radiometric_data'): str(''), str('data_quality_summary'): tuple[], "
                              "str('facility_related_data_5'): dict{}}] dict{}",
 'meta/record5 only': "Group(path='/', url=None, attrs=dict{}, data=dict{str('transformations'): "
                      "Group(path='/transformations', url=None, attrs=dict{str('prf_switching'): "
                      "bool(False)}, data=dict{})}) || args after: list[dict{str('facility_related_data_5'): "
                      "dict{str('prf_switching_flag'): int(0)}}] dict{}",
 'meta/record5 truthy flag': "Group(path='/', url=None, attrs=dict{}, data=dict{str('transformations'): "
                             "Group(path='/transformations', url=None, attrs=dict{str('prf_switching'): "
                             'bool(True)}, data=dict{})}) || args after: '
                             "list[dict{str('facility_related_data_5'): dict{str('prf_switching_flag'): "
                             'int(1)}}] dict{}',
 'meta/unknown keys pass through': "Group(path='/', url=None, attrs=dict{}, data=dict{str('yyy'): "
                                   "Group(path='/yyy', url=None, attrs=dict{str('a'): int(2)}, "
                                   "data=dict{str('v'): Variable(dims=list[str('x')], data=ndarray[<f8, "
                                   "(1,)](list[float(1.5)]), attrs=dict{})}), str('xxx'): list[int(1), "
                                   "int(2)], str('transformations'): Group(path='/transformations', "
                                   "url=None, attrs=dict{str('prf_switching'): bool(False)}, data=dict{})}) "
                                   '|| args  ... [907 chars, sha256 '
                                   '0046fa8af55b243231484765499ffc90b45a561aa5bf815a162d65b136e887e0]',
 'meta/name clash after translation': "Group(path='/', url=None, attrs=dict{}, "
                                      "data=dict{str('transformations'): Group(path='/transformations', "
                                      "url=None, attrs=dict{str('prf_switching'): bool(False)}, "
                                      'data=dict{})}) || args after: '
                                      "list[dict{str('facility_related_data_5'): "
                                      "dict{str('prf_switching_flag'): int(0)}, str('transformations'): "
                                      "Group(path='/', url=None, attrs=dict{str('clash'): bool(True)}, "
                                      'data=dict{})}] dict{}',
 'meta/name clash, other order': "Group(path='/', url=None, attrs=dict{}, data=dict{str('transformations'): "
                                 "Group(path='/transformations', url=None, attrs=dict{str('prf_switching'): "
                                 'bool(True)}, data=dict{})}) || args after: '
                                 "list[dict{str('transformations'): Group(path='/', url=None, "
                                 "attrs=dict{str('clash'): bool(True)}, data=dict{}), "
                                 "str('facility_related_data_5'): dict{str('prf_switching_flag'): int(1)}}] "
                                 'dict{}',
 'meta/map projection not a sequence': 'raised builtins.TypeError("\'int\' object is not iterable") || args '
                                       "after: list[dict{str('map_projection'): int(5)}] dict{}",
 'meta/map projection generator (empty)': "raised builtins.StopIteration('') || args after: "
                                          "list[dict{str('map_projection'): <builtins.tuple_iterator>}] "
                                          'dict{}',
 'meta/map projection dict': 'raised builtins.AttributeError("\'str\' object has no attribute \'items\'") || '
                             "args after: list[dict{str('map_projection'): dict{str('preamble'): dict{}, "
                             "str('x'): int(1)}}] dict{}",
 'meta/broken record': 'raised builtins.KeyError("\'data_points\'") || args after: '
                       "list[dict{str('attitude'): dict{str('no_data_points'): int(1)}}] dict{}",
 'meta/broken platform position': "raised builtins.TypeError('toolz.dicttoolz.merge_with() argument after * "
                                  "must be an iterable, not int') || args after: "
                                  "list[dict{str('platform_position'): dict{str('positions'): int(3)}}] "
                                  'dict{}',
 'meta/mapping is not a mapping': 'raised builtins.AttributeError("\'list\' object has no attribute '
                                  '\'items\'") || args after: list[list[tuple[str(\'a\'), int(1)]]] dict{}',
 'meta/mapping is None': 'raised builtins.AttributeError("\'NoneType\' object has no attribute \'items\'") '
                         '|| args after: list[NoneType(None)] dict{}',
 'meta/full 1 {}': "Group(path='/', url=None, attrs=dict{}, data=dict{str('dataset_summary'): "
                   "Group(path='/dataset_summary', url=None, attrs=dict{str('scene_id'): str('s9'), "
                   "str('scene_center_time'): str('2011-07-16T12:34:56.789000'), "
                   "str('ellipsoid_designator'): str('s15'), str('ellipsoid_j2_parameter'): float(30.375), "
                   "str('ellipsoid_j3_parameter'): float(-31.875), str('ellipsoid_j4_parameter'): "
                   "float(33.375), str(' ... [76614 chars, sha256 "
                   '03fbccedaabf121e4afcc38ef555f73b03d8f6a69c047554fe0e1a3a6e2fa49c]',
 'meta/full 1 without map projection': "Group(path='/', url=None, attrs=dict{}, "
                                       "data=dict{str('dataset_summary'): Group(path='/dataset_summary', "
                                       "url=None, attrs=dict{str('scene_id'): str('s9'), "
                                       "str('scene_center_time'): str('2011-07-16T12:34:56.789000'), "
                                       "str('ellipsoid_designator'): str('s15'), "
                                       "str('ellipsoid_j2_parameter'): float(30.375), "
                                       "str('ellipsoid_j3_parameter'): float(-31.875), "
                                       "str('ellipsoid_j4_parameter'): float(33.375), str(' ... [64217 "
                                       'chars, sha256 '
                                       '8c4e74a2c756ec89e2b82ad5da35143453aa1f827a2062c0e2b21ddced3b89ed]',
 'meta/full 1 empty map projection list': "Group(path='/', url=None, attrs=dict{}, "
                                          "data=dict{str('dataset_summary'): Group(path='/dataset_summary', "
                                          "url=None, attrs=dict{str('scene_id'): str('s9'), "
                                          "str('scene_center_time'): str('2011-07-16T12:34:56.789000'), "
                                          "str('ellipsoid_designator'): str('s15'), "
                                          "str('ellipsoid_j2_parameter'): float(30.375), "
                                          "str('ellipsoid_j3_parameter'): float(-31.875), "
                                          "str('ellipsoid_j4_parameter'): float(33.375), str(' ... [64248 "
                                          'chars, sha256 '
                                          'd1db9de8d6da674ec2606352e5c5d878888ab825cd46ecde3472edf93a5b8b57]',
 'meta/full 1 attitude only': "Group(path='/', url=None, attrs=dict{}, data=dict{str('attitude'): "
                              "Group(path='/attitude', url=None, attrs=dict{}, data=dict{str('attitude'): "
                              "Group(path='/attitude/attitude', url=None, attrs=dict{str('coordinates'): "
                              "list[str('time')]}, data=dict{str('pitch_error'): "
                              "Variable(dims=list[str('points')], data=list[bool(True), bool(True), "
                              "bool(True)], attrs=dict{}), str('roll_error'): Variable(dims=list ... [4851 "
                              'chars, sha256 '
                              '1b8bea00812403b792f9988335ce07a5dc3d5fbf99c1cca77b96f2ac4a2676de]',
 'meta/full 1 attitude before platform position': "Group(path='/', url=None, attrs=dict{}, "
                                                  "data=dict{str('attitude'): Group(path='/attitude', "
                                                  "url=None, attrs=dict{}, data=dict{str('attitude'): "
                                                  "Group(path='/attitude/attitude', url=None, "
                                                  "attrs=dict{str('coordinates'): list[str('time')]}, "
                                                  "data=dict{str('pitch_error'): "
                                                  "Variable(dims=list[str('points')], data=list[bool(True), "
                                                  'bool(True), bool(True)], attrs=dict{}), '
                                                  "str('roll_error'): Variable(dims=list ... [25402 chars, "
                                                  'sha256 '
                                                  '3363177174ed3139e51b2621c2c6f781f71bd6ffbf35d85b57fb9303026e5731]',
 'meta/full 1 platform position only': "Group(path='/', url=None, attrs=dict{}, "
                                       "data=dict{str('platform_position'): Group(path='/platform_position', "
                                       "url=None, attrs=dict{str('datetime_of_first_point'): "
                                       "str('2011-07-16T00:50:24.375000'), "
                                       "str('reference_coordinate_system'): str('s2018'), "
                                       "str('leap_second'): bool(True)}, "
                                       "data=dict{str('sampling_frequency'): Variable(dims=tuple[], "
                                       "data=float(-3025.875), attrs=dict{str('units'): str('s')}),  ... "
                                       '[20306 chars, sha256 '
                                       '664eace95a6b9f481e23e3cd6ef1ca142eb48631a785936643fb46c02ece6ee5]',
 'meta/full 1 reversed': "Group(path='/', url=None, attrs=dict{}, data=dict{str('transformations'): "
                         "Group(path='/transformations', url=None, attrs=dict{str('prf_switching'): "
                         "bool(True)}, data=dict{str('conversion'): "
                         "Group(path='/transformations/conversion', url=None, attrs=dict{}, data=dict{})}), "
                         "str('data_quality_summary'): Group(path='/data_quality_summary', url=None, "
                         "attrs=dict{str('sar_channel_id'): str('s500'), str('d ... [76614 chars, sha256 "
                         'eb0f9d21ac81f5c1f5f029d3b5b5112e6212de59573b46f3c785a60a0d158bcf]',
 "meta/full 37 {'n_points': 1, 'n_channels': 1, 'designator': 'UPS-X'}": "Group(path='/', url=None, "
                                                                         'attrs=dict{}, '
                                                                         "data=dict{str('dataset_summary'): "
                                                                         "Group(path='/dataset_summary', "
                                                                         'url=None, '
                                                                         "attrs=dict{str('scene_id'): "
                                                                         "str('s45'), "
                                                                         "str('scene_center_time'): "
                                                                         "str('2011-07-16T12:34:56.789000'), "
                                                                         "str('ellipsoid_designator'): "
                                                                         "str('s51'), "
                                                                         "str('ellipsoid_j2_parameter'): "
                                                                         'float(84.375), '
                                                                         "str('ellipsoid_j3_parameter'): "
                                                                         'float(-85.875), '
                                                                         "str('ellipsoid_j4_parameter'): "
                                                                         'float(87.375), str( ... [74394 '
                                                                         'chars, sha256 '
                                                                         'b5df4b2e3ce34f801803276de577e31a90a211253c1a88ad6183dc4f311b4b06]',
 'meta/full 37 without map projection': "Group(path='/', url=None, attrs=dict{}, "
                                        "data=dict{str('dataset_summary'): Group(path='/dataset_summary', "
                                        "url=None, attrs=dict{str('scene_id'): str('s45'), "
                                        "str('scene_center_time'): str('2011-07-16T12:34:56.789000'), "
                                        "str('ellipsoid_designator'): str('s51'), "
                                        "str('ellipsoid_j2_parameter'): float(84.375), "
                                        "str('ellipsoid_j3_parameter'): float(-85.875), "
                                        "str('ellipsoid_j4_parameter'): float(87.375), str( ... [62025 "
                                        'chars, sha256 '
                                        '7bc8a196fd38d49430cebf24b019ae0e43174b53b8f955426c404885a9c9b3c2]',
 'meta/full 37 empty map projection list': "Group(path='/', url=None, attrs=dict{}, "
                                           "data=dict{str('dataset_summary'): Group(path='/dataset_summary', "
                                           "url=None, attrs=dict{str('scene_id'): str('s45'), "
                                           "str('scene_center_time'): str('2011-07-16T12:34:56.789000'), "
                                           "str('ellipsoid_designator'): str('s51'), "
                                           "str('ellipsoid_j2_parameter'): float(84.375), "
                                           "str('ellipsoid_j3_parameter'): float(-85.875), "
                                           "str('ellipsoid_j4_parameter'): float(87.375), str( ... [62056 "
                                           'chars, sha256 '
                                           '9072b87e9c3d40167cc96fe32a6fafece3fd530e3b147f32223d2613cb8ffd45]',
 'meta/full 37 attitude only': "Group(path='/', url=None, attrs=dict{}, data=dict{str('attitude'): "
                               "Group(path='/attitude', url=None, attrs=dict{}, data=dict{str('attitude'): "
                               "Group(path='/attitude/attitude', url=None, attrs=dict{str('coordinates'): "
                               "list[str('time')]}, data=dict{str('pitch_error'): "
                               "Variable(dims=list[str('points')], data=list[bool(True)], attrs=dict{}), "
                               "str('roll_error'): Variable(dims=list[str('points')], data=li ... [2965 "
                               'chars, sha256 '
                               '1fc4afd40a3071c5bcd8dfe12dcb86705271158be782719c43a30caf346522ea]',
 'meta/full 37 attitude before platform position': "Group(path='/', url=None, attrs=dict{}, "
                                                   "data=dict{str('attitude'): Group(path='/attitude', "
                                                   "url=None, attrs=dict{}, data=dict{str('attitude'): "
                                                   "Group(path='/attitude/attitude', url=None, "
                                                   "attrs=dict{str('coordinates'): list[str('time')]}, "
                                                   "data=dict{str('pitch_error'): "
                                                   "Variable(dims=list[str('points')], "
                                                   "data=list[bool(True)], attrs=dict{}), str('roll_error'): "
                                                   "Variable(dims=list[str('points')], data=li ... [23508 "
                                                   'chars, sha256 '
                                                   'ce9bdf5ea23c0c31851c0883b14763f741ba0d29aec4c7658fba7811f8c95f24]',
 'meta/full 37 platform position only': "Group(path='/', url=None, attrs=dict{}, "
                                        "data=dict{str('platform_position'): "
                                        "Group(path='/platform_position', url=None, "
                                        "attrs=dict{str('datetime_of_first_point'): "
                                        "str('2011-07-16T00:51:18.375000'), "
                                        "str('reference_coordinate_system'): str('s2054'), "
                                        "str('leap_second'): bool(True)}, "
                                        "data=dict{str('sampling_frequency'): Variable(dims=tuple[], "
                                        "data=float(nan), attrs=dict{str('units'): str('s')}), str('o ... "
                                        '[20302 chars, sha256 '
                                        '0f5ee08fcc16da145dbee8b60cfd3fb3f36d60c5e61144730dcbf0359ef95ee7]',
 'meta/full 37 reversed': "Group(path='/', url=None, attrs=dict{}, data=dict{str('transformations'): "
                          "Group(path='/transformations', url=None, attrs=dict{str('prf_switching'): "
                          "bool(True)}, data=dict{str('conversion'): "
                          "Group(path='/transformations/conversion', url=None, attrs=dict{}, data=dict{})}), "
                          "str('data_quality_summary'): Group(path='/data_quality_summary', url=None, "
                          "attrs=dict{str('sar_channel_id'): str('s504'), str('d ... [74394 chars, sha256 "
                          '4d28227b8d9da4a6258abecbbd1da9ba33a9f46afec1edc218a01f6b290b84b6]',
 "meta/full 101 {'n_points': 0, 'n_channels': 0, 'designator': 'LCC-CONFORMAL', 'n_map': 2}": 'raised '
                                                                                              'builtins.AttributeError("\'list\' '
                                                                                              'object has no '
                                                                                              'attribute '
                                                                                              '\'keys\'") || '
                                                                                              'args after: '
                                                                                              "list[dict{str('file_descriptor'): "
                                                                                              "dict{str('a'): "
                                                                                              'int(1)}, '
                                                                                              "str('dataset_summary'): "
                                                                                              "dict{str('preamble'): "
                                                                                              "dict{str('record_sequence_number'): "
                                                                                              'int(101), '
                                                                                              "str('first_record_subtype'): "
                                                                                              'int(102), '
                                                                                              "str('record_type'): "
                                                                                              'int(103), '
                                                                                              "str('second_record_subtype'): "
                                                                                              'int(104), '
                                                                                              "str('third_record_subtype'): "
                                                                                              'int(105), '
                                                                                              "str('record_len "
                                                                                              '... [51960 '
                                                                                              'chars, sha256 '
                                                                                              '5cb5ab2e0b80f38639822f01464f689f37391623be51bd94d213fe66f792003f]',
 'meta/full 101 without map projection': 'raised builtins.AttributeError("\'list\' object has no attribute '
                                         '\'keys\'") || args after: list[dict{str(\'file_descriptor\'): '
                                         "dict{str('a'): int(1)}, str('dataset_summary'): "
                                         "dict{str('preamble'): dict{str('record_sequence_number'): "
                                         "int(101), str('first_record_subtype'): int(102), "
                                         "str('record_type'): int(103), str('second_record_subtype'): "
                                         "int(104), str('third_record_subtype'): int(105), str('record_len "
                                         '... [37810 chars, sha256 '
                                         '72f76db36abb9cdbc6a5607f8a079b5d3b4677f1eb7bbed19788795ff6888f49]',
 'meta/full 101 empty map projection list': 'raised builtins.AttributeError("\'list\' object has no '
                                            'attribute \'keys\'") || args after: '
                                            "list[dict{str('file_descriptor'): dict{str('a'): int(1)}, "
                                            "str('dataset_summary'): dict{str('preamble'): "
                                            "dict{str('record_sequence_number'): int(101), "
                                            "str('first_record_subtype'): int(102), str('record_type'): "
                                            "int(103), str('second_record_subtype'): int(104), "
                                            "str('third_record_subtype'): int(105), str('record_len ... "
                                            '[37841 chars, sha256 '
                                            'bd78c369beddef48e2778bac716a6f58e03703dc47a99d644754aa63e565d67a]',
 'meta/full 101 attitude only': 'raised builtins.AttributeError("\'list\' object has no attribute \'keys\'") '
                                "|| args after: list[dict{str('attitude'): dict{str('preamble'): "
                                "dict{str('record_sequence_number'): int(5), str('first_record_subtype'): "
                                "int(18), str('record_type'): int(40), str('second_record_subtype'): "
                                "int(18), str('third_record_subtype'): int(20), str('record_length'): "
                                "int(36)}, str('number_of_points'): int(0), str('data_p ... [449 chars, "
                                'sha256 564c737d1635d0fee8ce890c7ef9a1ee819552909ece243235523e36b8cabfa8]',
 'meta/full 101 attitude before platform position': 'raised builtins.AttributeError("\'list\' object has no '
                                                    'attribute \'keys\'") || args after: '
                                                    "list[dict{str('attitude'): dict{str('preamble'): "
                                                    "dict{str('record_sequence_number'): int(5), "
                                                    "str('first_record_subtype'): int(18), "
                                                    "str('record_type'): int(40), "
                                                    "str('second_record_subtype'): int(18), "
                                                    "str('third_record_subtype'): int(20), "
                                                    "str('record_length'): int(36)}, "
                                                    "str('number_of_points'): int(0), str('data_p ... [14809 "
                                                    'chars, sha256 '
                                                    '516ec401be27c167f43d644a8775a47a77ad115efa907756882f6766058b8a82]',
 'meta/full 101 platform position only': "Group(path='/', url=None, attrs=dict{}, "
                                         "data=dict{str('platform_position'): "
                                         "Group(path='/platform_position', url=None, "
                                         "attrs=dict{str('datetime_of_first_point'): "
                                         "str('2011-07-16T00:52:54.375000'), "
                                         "str('reference_coordinate_system'): str('s2118'), "
                                         "str('leap_second'): bool(True)}, "
                                         "data=dict{str('sampling_frequency'): Variable(dims=tuple[], "
                                         "data=float(-3175.875), attrs=dict{str('units'): str('s')}),  ... "
                                         '[20312 chars, sha256 '
                                         '5398fa763e05046a73c66c56300dd02661d05f25b5cdd073002bf63b635401d4]',
 'meta/full 101 reversed': 'raised builtins.AttributeError("\'list\' object has no attribute \'keys\'") || '
                           "args after: list[dict{str('facility_related_data_5'): "
                           "dict{str('prf_switching_flag'): int(1), str('conversion'): dict{}}, "
                           "str('facility_related_data_4'): dict{str('b'): int(4)}, "
                           "str('facility_related_data_3'): dict{str('b'): int(3)}, "
                           "str('facility_related_data_2'): dict{str('b'): int(2)}, "
                           "str('facility_related_data_1'): dic ... [51960 chars, sha256 "
                           'd9cc0716690cefe8c6f4dc999eb0d2dec5dbbbfca51350901f71f1afc4e8095c]',
 "meta/full 202 {'n_points': 2, 'n_channels': 8, 'designator': 'lcc-lower', 'n_map': 2}": "Group(path='/', "
                                                                                          'url=None, '
                                                                                          'attrs=dict{}, '
                                                                                          "data=dict{str('dataset_summary'): "
                                                                                          "Group(path='/dataset_summary', "
                                                                                          'url=None, '
                                                                                          "attrs=dict{str('scene_id'): "
                                                                                          "str('s210'), "
                                                                                          "str('scene_center_time'): "
                                                                                          "str('2011-07-16T12:34:56.789000'), "
                                                                                          "str('ellipsoid_designator'): "
                                                                                          "str('s216'), "
                                                                                          "str('ellipsoid_j2_parameter'): "
                                                                                          'float(-331.875), '
                                                                                          "str('ellipsoid_j3_parameter'): "
                                                                                          'float(333.375), '
                                                                                          "str('ellipsoid_j4_parameter'): "
                                                                                          'float(-334.875) '
                                                                                          '... [85209 chars, '
                                                                                          'sha256 '
                                                                                          '223e90de955eb410b9497da366cf9f1971616269767335869903107bb4a57f80]',
 'meta/full 202 without map projection': "Group(path='/', url=None, attrs=dict{}, "
                                         "data=dict{str('dataset_summary'): Group(path='/dataset_summary', "
                                         "url=None, attrs=dict{str('scene_id'): str('s210'), "
                                         "str('scene_center_time'): str('2011-07-16T12:34:56.789000'), "
                                         "str('ellipsoid_designator'): str('s216'), "
                                         "str('ellipsoid_j2_parameter'): float(-331.875), "
                                         "str('ellipsoid_j3_parameter'): float(333.375), "
                                         "str('ellipsoid_j4_parameter'): float(-334.875) ... [65504 chars, "
                                         'sha256 '
                                         'a6c1a5ab5fcaf8e23e78ebdbb91ae4ec79b989761f6e1efc019c864aa8f07b93]',
 'meta/full 202 empty map projection list': "Group(path='/', url=None, attrs=dict{}, "
                                            "data=dict{str('dataset_summary'): "
                                            "Group(path='/dataset_summary', url=None, "
                                            "attrs=dict{str('scene_id'): str('s210'), "
                                            "str('scene_center_time'): str('2011-07-16T12:34:56.789000'), "
                                            "str('ellipsoid_designator'): str('s216'), "
                                            "str('ellipsoid_j2_parameter'): float(-331.875), "
                                            "str('ellipsoid_j3_parameter'): float(333.375), "
                                            "str('ellipsoid_j4_parameter'): float(-334.875) ... [65535 "
                                            'chars, sha256 '
                                            '8594feb18334e4591a0421cb7692e9c1223b90a6ec1e45e0680c6d9e7613c432]',
 'meta/full 202 attitude only': "Group(path='/', url=None, attrs=dict{}, data=dict{str('attitude'): "
                                "Group(path='/attitude', url=None, attrs=dict{}, data=dict{str('attitude'): "
                                "Group(path='/attitude/attitude', url=None, attrs=dict{str('coordinates'): "
                                "list[str('time')]}, data=dict{str('pitch_error'): "
                                "Variable(dims=list[str('points')], data=list[bool(True), bool(True)], "
                                "attrs=dict{}), str('roll_error'): Variable(dims=list[str('points ... [3916 "
                                'chars, sha256 '
                                'c1f6f6070e119f369725569f690b66372c672e35532a472a5c5a25ee9d862999]',
 'meta/full 202 attitude before platform position': "Group(path='/', url=None, attrs=dict{}, "
                                                    "data=dict{str('attitude'): Group(path='/attitude', "
                                                    "url=None, attrs=dict{}, data=dict{str('attitude'): "
                                                    "Group(path='/attitude/attitude', url=None, "
                                                    "attrs=dict{str('coordinates'): list[str('time')]}, "
                                                    "data=dict{str('pitch_error'): "
                                                    "Variable(dims=list[str('points')], "
                                                    'data=list[bool(True), bool(True)], attrs=dict{}), '
                                                    "str('roll_error'): Variable(dims=list[str('points ... "
                                                    '[24441 chars, sha256 '
                                                    '1d616354281f39de1cdb72c1c58904380f4e391819ffff741f97cb4cb0b5410b]',
 'meta/full 202 platform position only': "Group(path='/', url=None, attrs=dict{}, "
                                         "data=dict{str('platform_position'): "
                                         "Group(path='/platform_position', url=None, "
                                         "attrs=dict{str('datetime_of_first_point'): "
                                         "str('2011-07-15T23:04:34.125000'), "
                                         "str('reference_coordinate_system'): str('s2219'), "
                                         "str('leap_second'): bool(True)}, "
                                         "data=dict{str('sampling_frequency'): Variable(dims=tuple[], "
                                         "data=float(3327.375), attrs=dict{str('units'): str('s')}), s ... "
                                         '[20282 chars, sha256 '
                                         '0163e31d8759fd5d047c7a08c762de1baa35247e59cffaf9aedfca41909dfb36]',
 'meta/full 202 reversed': "Group(path='/', url=None, attrs=dict{}, data=dict{str('transformations'): "
                           "Group(path='/transformations', url=None, attrs=dict{str('prf_switching'): "
                           "bool(True)}, data=dict{str('conversion'): "
                           "Group(path='/transformations/conversion', url=None, attrs=dict{}, "
                           "data=dict{})}), str('data_quality_summary'): Group(path='/data_quality_summary', "
                           "url=None, attrs=dict{str('sar_channel_id'): str('s520'), str('d ... [85209 "
                           'chars, sha256 c8135f29af3718cd8b1a11dc026a3d0eb9157966a618b28dd173e62d6ff71b2a]',
 "meta/full 555 {'n_points': 5, 'n_channels': 4, 'designator': 'MER-CATOR', 'n_map': 3}": "Group(path='/', "
                                                                                          'url=None, '
                                                                                          'attrs=dict{}, '
                                                                                          "data=dict{str('dataset_summary'): "
                                                                                          "Group(path='/dataset_summary', "
                                                                                          'url=None, '
                                                                                          "attrs=dict{str('scene_id'): "
                                                                                          "str('s563'), "
                                                                                          "str('scene_center_time'): "
                                                                                          "str('2011-07-16T12:34:56.789000'), "
                                                                                          "str('ellipsoid_designator'): "
                                                                                          "str('s569'), "
                                                                                          "str('ellipsoid_j2_parameter'): "
                                                                                          'float(861.375), '
                                                                                          "str('ellipsoid_j3_parameter'): "
                                                                                          'float(-862.875), '
                                                                                          "str('ellipsoid_j4_parameter'): "
                                                                                          'float(864.375), '
                                                                                          '... [93808 chars, '
                                                                                          'sha256 '
                                                                                          '145e17ef007dd8b4c36eaf42b46f400df15862aa5803ee4798219e8d917344dd]',
 'meta/full 555 without map projection': "Group(path='/', url=None, attrs=dict{}, "
                                         "data=dict{str('dataset_summary'): Group(path='/dataset_summary', "
                                         "url=None, attrs=dict{str('scene_id'): str('s563'), "
                                         "str('scene_center_time'): str('2011-07-16T12:34:56.789000'), "
                                         "str('ellipsoid_designator'): str('s569'), "
                                         "str('ellipsoid_j2_parameter'): float(861.375), "
                                         "str('ellipsoid_j3_parameter'): float(-862.875), "
                                         "str('ellipsoid_j4_parameter'): float(864.375), ... [67017 chars, "
                                         'sha256 '
                                         '8e177dca1ad1cc1c4d796ecedf84fe1d9ef434dc97465f881e1b8352e7a864ad]',
 'meta/full 555 empty map projection list': "Group(path='/', url=None, attrs=dict{}, "
                                            "data=dict{str('dataset_summary'): "
                                            "Group(path='/dataset_summary', url=None, "
                                            "attrs=dict{str('scene_id'): str('s563'), "
                                            "str('scene_center_time'): str('2011-07-16T12:34:56.789000'), "
                                            "str('ellipsoid_designator'): str('s569'), "
                                            "str('ellipsoid_j2_parameter'): float(861.375), "
                                            "str('ellipsoid_j3_parameter'): float(-862.875), "
                                            "str('ellipsoid_j4_parameter'): float(864.375), ... [67048 "
                                            'chars, sha256 '
                                            'a216223a268b2d174fb98bd3679f2cbf5797ab266a9698571f848b94093bd2fe]',
 'meta/full 555 attitude only': "Group(path='/', url=None, attrs=dict{}, data=dict{str('attitude'): "
                                "Group(path='/attitude', url=None, attrs=dict{}, data=dict{str('attitude'): "
                                "Group(path='/attitude/attitude', url=None, attrs=dict{str('coordinates'): "
                                "list[str('time')]}, data=dict{str('pitch_error'): "
                                "Variable(dims=list[str('points')], data=list[bool(True), bool(True), "
                                "bool(True), bool(True), bool(True)], attrs=dict{}), str('roll_err ... [6755 "
                                'chars, sha256 '
                                'a8f0aa4758e6b0b48330b14afa47a3c178ce0c71229568ffba009df90c2195e9]',
 'meta/full 555 attitude before platform position': "Group(path='/', url=None, attrs=dict{}, "
                                                    "data=dict{str('attitude'): Group(path='/attitude', "
                                                    "url=None, attrs=dict{}, data=dict{str('attitude'): "
                                                    "Group(path='/attitude/attitude', url=None, "
                                                    "attrs=dict{str('coordinates'): list[str('time')]}, "
                                                    "data=dict{str('pitch_error'): "
                                                    "Variable(dims=list[str('points')], "
                                                    'data=list[bool(True), bool(True), bool(True), '
                                                    "bool(True), bool(True)], attrs=dict{}), str('roll_err "
                                                    '... [27325 chars, sha256 '
                                                    '6d3883d164d12e22ac13607b63bd5942dd566316024fe7b010e8f1ddc8cf17ed]',
 'meta/full 555 platform position only': "Group(path='/', url=None, attrs=dict{}, "
                                         "data=dict{str('platform_position'): "
                                         "Group(path='/platform_position', url=None, "
                                         "attrs=dict{str('datetime_of_first_point'): "
                                         "str('2011-07-16T01:04:15.375000'), "
                                         "str('reference_coordinate_system'): str('s2572'), "
                                         "str('leap_second'): bool(True)}, "
                                         "data=dict{str('sampling_frequency'): Variable(dims=tuple[], "
                                         "data=float(-3856.875), attrs=dict{str('units'): str('s')}),  ... "
                                         '[20321 chars, sha256 '
                                         '2df0df63e30ef593106c94004a394371a52517ef74d05dbb471be9fd85471300]',
 'meta/full 555 reversed': "Group(path='/', url=None, attrs=dict{}, data=dict{str('transformations'): "
                           "Group(path='/transformations', url=None, attrs=dict{str('prf_switching'): "
                           "bool(True)}, data=dict{str('conversion'): "
                           "Group(path='/transformations/conversion', url=None, attrs=dict{}, "
                           "data=dict{})}), str('data_quality_summary'): Group(path='/data_quality_summary', "
                           "url=None, attrs=dict{str('sar_channel_id'): str('s556'), str('d ... [93808 "
                           'chars, sha256 2a49119e46d51f264c91688fbe74ebd966f21ed0c362dd44250abbb748ef94a7]',
 "meta/full 900 {'designator': 'XYZ-UNKNOWN'}": "Group(path='/', url=None, attrs=dict{}, "
                                                "data=dict{str('dataset_summary'): "
                                                "Group(path='/dataset_summary', url=None, "
                                                "attrs=dict{str('scene_id'): str('s908'), "
                                                "str('scene_center_time'): "
                                                "str('2011-07-16T12:34:56.789000'), "
                                                "str('ellipsoid_designator'): str('s914'), "
                                                "str('ellipsoid_j2_parameter'): float(-1378.875), "
                                                "str('ellipsoid_j3_parameter'): float(1380.375), "
                                                "str('ellipsoid_j4_parameter'): float(-1381.8 ... [76580 "
                                                'chars, sha256 '
                                                '83fc609026e27d6558ea25a7c2d64d783434d935fed80383997ccd96912c179c]',
 'meta/full 900 without map projection': "Group(path='/', url=None, attrs=dict{}, "
                                         "data=dict{str('dataset_summary'): Group(path='/dataset_summary', "
                                         "url=None, attrs=dict{str('scene_id'): str('s908'), "
                                         "str('scene_center_time'): str('2011-07-16T12:34:56.789000'), "
                                         "str('ellipsoid_designator'): str('s914'), "
                                         "str('ellipsoid_j2_parameter'): float(-1378.875), "
                                         "str('ellipsoid_j3_parameter'): float(1380.375), "
                                         "str('ellipsoid_j4_parameter'): float(-1381.8 ... [64695 chars, "
                                         'sha256 '
                                         '293e8099050dc4d82d4c8deaf10c1921e5cde28cca5bc9783d3b0efb07c18300]',
 'meta/full 900 empty map projection list': "Group(path='/', url=None, attrs=dict{}, "
                                            "data=dict{str('dataset_summary'): "
                                            "Group(path='/dataset_summary', url=None, "
                                            "attrs=dict{str('scene_id'): str('s908'), "
                                            "str('scene_center_time'): str('2011-07-16T12:34:56.789000'), "
                                            "str('ellipsoid_designator'): str('s914'), "
                                            "str('ellipsoid_j2_parameter'): float(-1378.875), "
                                            "str('ellipsoid_j3_parameter'): float(1380.375), "
                                            "str('ellipsoid_j4_parameter'): float(-1381.8 ... [64726 chars, "
                                            'sha256 '
                                            '44735a303192d3962d5f4244afa562af63a377920b03242f8df18b7506c67fb6]',
 'meta/full 900 attitude only': "Group(path='/', url=None, attrs=dict{}, data=dict{str('attitude'): "
                                "Group(path='/attitude', url=None, attrs=dict{}, data=dict{str('attitude'): "
                                "Group(path='/attitude/attitude', url=None, attrs=dict{str('coordinates'): "
                                "list[str('time')]}, data=dict{str('pitch_error'): "
                                "Variable(dims=list[str('points')], data=list[bool(True), bool(True), "
                                "bool(True)], attrs=dict{}), str('roll_error'): Variable(dims=list ... [4861 "
                                'chars, sha256 '
                                'ffa85f72d90853ef7f36a5bbf76165288b08b2eec0613e0a0dffd3159e218569]',
 'meta/full 900 attitude before platform position': "Group(path='/', url=None, attrs=dict{}, "
                                                    "data=dict{str('attitude'): Group(path='/attitude', "
                                                    "url=None, attrs=dict{}, data=dict{str('attitude'): "
                                                    "Group(path='/attitude/attitude', url=None, "
                                                    "attrs=dict{str('coordinates'): list[str('time')]}, "
                                                    "data=dict{str('pitch_error'): "
                                                    "Variable(dims=list[str('points')], "
                                                    'data=list[bool(True), bool(True), bool(True)], '
                                                    "attrs=dict{}), str('roll_error'): Variable(dims=list "
                                                    '... [25416 chars, sha256 '
                                                    '2faa53fb8e607db7e2173252e02d7db73c5f19125d5f5c608b8291292f35c7de]',
 'meta/full 900 platform position only': "Group(path='/', url=None, attrs=dict{}, "
                                         "data=dict{str('platform_position'): "
                                         "Group(path='/platform_position', url=None, "
                                         "attrs=dict{str('datetime_of_first_point'): "
                                         "str('2011-07-15T22:47:07.125000'), "
                                         "str('reference_coordinate_system'): str('s2917'), "
                                         "str('leap_second'): bool(True)}, "
                                         "data=dict{str('sampling_frequency'): Variable(dims=tuple[], "
                                         "data=float(4374.375), attrs=dict{str('units'): str('s')}), s ... "
                                         '[20310 chars, sha256 '
                                         '58da6471a3e18f524e213b084eb1283259c94d19ef8af6bb46b7e8d7ad4c9a06]',
 'meta/full 900 reversed': "Group(path='/', url=None, attrs=dict{}, data=dict{str('transformations'): "
                           "Group(path='/transformations', url=None, attrs=dict{str('prf_switching'): "
                           "bool(True)}, data=dict{str('conversion'): "
                           "Group(path='/transformations/conversion', url=None, attrs=dict{}, "
                           "data=dict{})}), str('data_quality_summary'): Group(path='/data_quality_summary', "
                           "url=None, attrs=dict{str('sar_channel_id'): str('s590'), str('d ... [76580 "
                           'chars, sha256 649690baf939b67d506c57e77b680d9152d8c1907bf228ab7df7c8794fbd0aed]',
 "meta/full 901 {'designator': 'NODASH'}": "raised builtins.ValueError('not enough values to unpack "
                                           "(expected 2, got 1)') || args after: "
                                           "list[dict{str('file_descriptor'): dict{str('a'): int(1)}, "
                                           "str('dataset_summary'): dict{str('preamble'): "
                                           "dict{str('record_sequence_number'): int(101), "
                                           "str('first_record_subtype'): int(102), str('record_type'): "
                                           "int(103), str('second_record_subtype'): int(104), "
                                           "str('third_record_subtype'): int(105), str('reco ... [47910 "
                                           'chars, sha256 '
                                           '70903a62d54c10fd4c7da8a0596c589dbfb0d9891a30d9249bfa49f26c4c5597]',
 'meta/full 901 without map projection': "Group(path='/', url=None, attrs=dict{}, "
                                         "data=dict{str('dataset_summary'): Group(path='/dataset_summary', "
                                         "url=None, attrs=dict{str('scene_id'): str('s909'), "
                                         "str('scene_center_time'): str('2011-07-16T12:34:56.789000'), "
                                         "str('ellipsoid_designator'): str('s915'), "
                                         "str('ellipsoid_j2_parameter'): float(1380.375), "
                                         "str('ellipsoid_j3_parameter'): float(-1381.875), "
                                         "str('ellipsoid_j4_parameter'): float(nan), s ... [64636 chars, "
                                         'sha256 '
                                         'd41287460000d11627d33750220ed88a1e3b048306d08d9e79f16721dca8ba6d]',
 'meta/full 901 empty map projection list': "Group(path='/', url=None, attrs=dict{}, "
                                            "data=dict{str('dataset_summary'): "
                                            "Group(path='/dataset_summary', url=None, "
                                            "attrs=dict{str('scene_id'): str('s909'), "
                                            "str('scene_center_time'): str('2011-07-16T12:34:56.789000'), "
                                            "str('ellipsoid_designator'): str('s915'), "
                                            "str('ellipsoid_j2_parameter'): float(1380.375), "
                                            "str('ellipsoid_j3_parameter'): float(-1381.875), "
                                            "str('ellipsoid_j4_parameter'): float(nan), s ... [64667 chars, "
                                            'sha256 '
                                            '115e5dfeed4dbb8205d23e0d6610dbb96dd3bc1471715e47f7a2288dd66a2562]',
 'meta/full 901 attitude only': "Group(path='/', url=None, attrs=dict{}, data=dict{str('attitude'): "
                                "Group(path='/attitude', url=None, attrs=dict{}, data=dict{str('attitude'): "
                                "Group(path='/attitude/attitude', url=None, attrs=dict{str('coordinates'): "
                                "list[str('time')]}, data=dict{str('pitch_error'): "
                                "Variable(dims=list[str('points')], data=list[bool(True), bool(True), "
                                "bool(True)], attrs=dict{}), str('roll_error'): Variable(dims=list ... [4853 "
                                'chars, sha256 '
                                '65918c01e25e9e3f2bfcd9494d5f6f0289057f8793b09fa228f1aaa08446bb66]',
 'meta/full 901 attitude before platform position': "Group(path='/', url=None, attrs=dict{}, "
                                                    "data=dict{str('attitude'): Group(path='/attitude', "
                                                    "url=None, attrs=dict{}, data=dict{str('attitude'): "
                                                    "Group(path='/attitude/attitude', url=None, "
                                                    "attrs=dict{str('coordinates'): list[str('time')]}, "
                                                    "data=dict{str('pitch_error'): "
                                                    "Variable(dims=list[str('points')], "
                                                    'data=list[bool(True), bool(True), bool(True)], '
                                                    "attrs=dict{}), str('roll_error'): Variable(dims=list "
                                                    '... [25398 chars, sha256 '
                                                    '4ad478431616b442d19c6081708c19204ae6da4096edfe9a1afd8e720006037d]',
 'meta/full 901 platform position only': "Group(path='/', url=None, attrs=dict{}, "
                                         "data=dict{str('platform_position'): "
                                         "Group(path='/platform_position', url=None, "
                                         "attrs=dict{str('datetime_of_first_point'): "
                                         "str('2011-07-16T01:12:54.375000'), "
                                         "str('reference_coordinate_system'): str('s2918'), "
                                         "str('leap_second'): bool(True)}, "
                                         "data=dict{str('sampling_frequency'): Variable(dims=tuple[], "
                                         "data=float(-4375.875), attrs=dict{str('units'): str('s')}),  ... "
                                         '[20294 chars, sha256 '
                                         '30639c50593e23446da1d7421c454cac925162d5975bbdd75b0c01889b6a83c7]',
 'meta/full 901 reversed': "raised builtins.ValueError('not enough values to unpack (expected 2, got 1)') || "
                           "args after: list[dict{str('facility_related_data_5'): "
                           "dict{str('prf_switching_flag'): int(1), str('conversion'): dict{}}, "
                           "str('facility_related_data_4'): dict{str('b'): int(4)}, "
                           "str('facility_related_data_3'): dict{str('b'): int(3)}, "
                           "str('facility_related_data_2'): dict{str('b'): int(2)}, "
                           "str('facility_related_data_1' ... [47910 chars, sha256 "
                           '9be3bb0bc62051fe151dbd0517e484b3cdf48de4fa77c137be7d204b5c9b2c96]'}
# fmt: on


def test_equivalence():
    failures = report(CASES, EXPECTED)
    assert not failures, "\n".join(failures)


if __name__ == "__main__":
    import ceos_alos2

    print("ceos_alos2 from", ceos_alos2.__file__)
    failures = report(CASES, EXPECTED)
    if "--record" not in sys.argv:
        for failure in failures:
            print("MISMATCH", failure)
        print(f"{len(CASES) - len(failures)} of {len(CASES)} cases identical to the recording")
        sys.exit(1 if failures else 0)
