"""Equivalence check for refactoring 2 (ceos_alos2/dicttoolz.py).

Run as:  PYTHONPATH=<worktree> python equiv.py            (asserts against recorded values)
         PYTHONPATH=<worktree> python equiv.py --record   (prints the observations as JSON)

EXPECTED_JSON below was recorded with the unchanged code (HEAD 343c5cf).
"""

import collections
import copy
import hashlib
import json
import random
import sys
import types

import numpy as np

from ceos_alos2 import dicttoolz


class Loud(collections.abc.Mapping):
    """mapping that is not a dict and logs how it is accessed"""

    def __init__(self, data, log, name):
        self._data = dict(data)
        self._log = log
        self._name = name

    def __getitem__(self, key):
        self._log.append((self._name, "getitem", key))
        return self._data[key]

    def __iter__(self):
        self._log.append((self._name, "iter"))
        return iter(self._data)

    def __len__(self):
        return len(self._data)

    def get(self, key, default=None):
        self._log.append((self._name, "get", key))
        return self._data.get(key, default)

    def items(self):
        self._log.append((self._name, "items"))
        return self._data.items()


def describe(value):
    """repr with type information for containers"""
    if isinstance(value, tuple):
        return ["tuple", [describe(v) for v in value]]
    if isinstance(value, dict):
        return [
            type(value).__name__,
            [[describe(k), describe(v)] for k, v in value.items()],
        ]
    if isinstance(value, list):
        return ["list", [describe(v) for v in value]]
    return [type(value).__name__, repr(value)]


def outcome(func, *args, **kwargs):
    try:
        result = func(*args, **kwargs)
    except BaseException as e:  # noqa: B902
        return ["raise", type(e).__name__, str(e)]
    return ["return", describe(result)]


def raiser(x):
    raise RuntimeError(f"boom {x!r}")


def split_observations():
    data = {"a": 0, "b": 1, "c": 2, "d": None, "e": "", "f": "x", 3: 3.0, (1, 2): [1], "g": 1.0}
    predicates = {
        "is_zero": lambda x: x == 0,
        "truthy": lambda x: bool(x),
        "raw": lambda x: x,  # non-boolean group keys: only 1/0/True/False/1.0/0.0 are kept
        "is_str": lambda x: isinstance(x, str),
        "np_bool": lambda x: np.bool_(isinstance(x, str)),
        "none": lambda x: None,
        "int2": lambda x: 2,
        "always": lambda x: True,
        "never": lambda x: False,
        "raises": raiser,
    }
    obs = []
    for name, pred in predicates.items():
        for dname, d in {
            "data": data,
            "empty": {},
            "ordered": collections.OrderedDict([("z", 1), ("y", 0), ("x", "s")]),
        }.items():
            obs.append([name, dname, "valsplit", outcome(dicttoolz.valsplit, pred, d)])
            obs.append([name, dname, "keysplit", outcome(dicttoolz.keysplit, pred, d)])
    log = []
    loud = Loud({"k1": 1, "k2": 2, "k3": 3}, log, "m")
    obs.append(["loud", outcome(dicttoolz.valsplit, lambda v: v % 2 == 1, loud)])
    obs.append(["loud", outcome(dicttoolz.keysplit, lambda k: k > "k1", loud)])
    obs.append(["loud-log", describe(log)])
    obs.append(["not-a-mapping", outcome(dicttoolz.valsplit, bool, [1, 2])])
    obs.append(["not-a-mapping", outcome(dicttoolz.keysplit, bool, None)])

    # call order of the predicate
    seen = []

    def tracking(x):
        seen.append(x)
        return x in ("b", 2)

    obs.append(["order-k", outcome(dicttoolz.keysplit, tracking, data), describe(seen)])
    seen.clear()
    obs.append(["order-v", outcome(dicttoolz.valsplit, tracking, data), describe(seen)])
    return obs


def dissoc_observations():
    d = {"a": 1, "b": 2, "c": 3, "ab": 4, 1: "one", (1, 2): "t", None: 0}
    keys_variants = [
        [], ["a"], ["a", "c"], ["zz"], ("a", 1), {"a", (1, 2)}, {"a": 0, "b": 0}, "ab", "", "cab",
        [None], frozenset([1, None]), range(3), 5, None, iter(["a", "b"]), [["a"]],
    ]
    obs = []
    for label, keys in enumerate(keys_variants):
        before = copy.deepcopy(d)
        obs.append([label, outcome(dicttoolz.dissoc, keys, d)])
        assert d == before
    str_only = {"a": 1, "b": 2, "ab": 3}
    for keys in ["ab", "", "b", ["ab"], 5]:
        obs.append(["str-only", repr(keys), outcome(dicttoolz.dissoc, keys, str_only)])
    obs.append(["empty", outcome(dicttoolz.dissoc, ["a"], {})])
    od = collections.OrderedDict([("z", 1), ("a", 2), ("y", 3)])
    obs.append(["ordered", outcome(dicttoolz.dissoc, ["a"], od)])
    obs.append(["proxy", outcome(dicttoolz.dissoc, ["a"], types.MappingProxyType({"a": 1, "q": 2}))])
    log = []
    obs.append(["loud", outcome(dicttoolz.dissoc, ["k2"], Loud({"k1": 1, "k2": 2}, log, "m"))])
    obs.append(["loud-log", describe(log)])
    obs.append(["not-a-mapping", outcome(dicttoolz.dissoc, ["a"], ["a", "b"])])
    obs.append(["not-a-mapping", outcome(dicttoolz.dissoc, ["a"], None)])
    result = dicttoolz.dissoc([], d)
    obs.append(["fresh-object", result is not d, type(result).__name__])
    return obs


def zip_default_observations():
    obs = []
    a = {"a": 1, "b": 2}
    b = {"b": 3, "c": 4}
    c = {"d": 5, "a": 6, 1: "x", 1.0: "y", True: "z"}
    variants = {
        "none": (),
        "one": (a,),
        "two": (a, b),
        "two-reversed": (b, a),
        "three": (a, b, c),
        "three-rot": (c, a, b),
        "same": (a, a),
        "empty-first": ({}, b),
        "all-empty": ({}, {}),
        "ordered": (collections.OrderedDict([("z", 0), ("a", 1)]), a),
        "none-values": ({"a": None}, {"b": None}),
    }
    for name, mappings in variants.items():
        obs.append([name, "default", outcome(dicttoolz.zip_default, *mappings)])
        obs.append([name, "sentinel", outcome(dicttoolz.zip_default, *mappings, default="missing")])
        obs.append([name, "false", outcome(dicttoolz.zip_default, *mappings, default=False)])
    log = []
    m1 = Loud({"k1": 1, "k2": 2}, log, "m1")
    m2 = Loud({"k2": 3, "k0": 4}, log, "m2")
    obs.append(["loud", outcome(dicttoolz.zip_default, m1, m2, default=-1)])
    obs.append(["loud-log", describe(log)])
    # things that are not mappings
    obs.append(["list", outcome(dicttoolz.zip_default, ["a", "b"], a)])
    obs.append(["list-first", outcome(dicttoolz.zip_default, a, ["a", "b"])])
    obs.append(["int", outcome(dicttoolz.zip_default, a, 5)])
    obs.append(["int-first", outcome(dicttoolz.zip_default, 5, a)])
    obs.append(["none", outcome(dicttoolz.zip_default, None)])
    obs.append(["unhashable", outcome(dicttoolz.zip_default, [["a"]], 5)])
    obs.append(["str", outcome(dicttoolz.zip_default, "ab")])
    obs.append(["empty-list", outcome(dicttoolz.zip_default, [], a)])
    obs.append(["positional-default", outcome(dicttoolz.zip_default, a, default=b)])
    result = dicttoolz.zip_default(a, b)
    obs.append(["types", type(result).__name__, [type(v).__name__ for v in result.values()]])
    return obs


MAPPING = {
    "a": {"b": {"c": 1, "d": [10, 20, 30]}, "e": 2},
    "f": [{"g": 3}, {"h": 4}],
    "i": None,
    "j": "text",
    1: {2: "ints"},
}

INSTRUCTIONS = [
    {},
    {("x",): ["a", "e"]},
    {("x",): ["a", "b", "c"], ("y", "z"): ["a", "b"]},
    {("a", "b", "c"): ["a", "e"]},
    {("a", "new"): ["a", "e"], ("a", "b", "new"): ["j"]},
    {("x",): ["missing"]},
    {("x",): ["a", "missing"], ("y",): ["a", "e"]},
    {("x",): ["a", "e", "too-deep"]},
    {("x",): ["a", "b", "d", 1]},
    {("x",): ["a", "b", "d", 7]},
    {("x",): ["f", 0, "g"]},
    {("x",): ["f", 5]},
    {("x",): ["i"]},
    {("x",): ["i", "k"]},
    {("x",): ["j", 0]},
    {("x",): ["j"]},
    {("x",): [1, 2]},
    {("x",): (1, 2)},
    {("x",): "ab"},
    {("x",): "a"},
    {("x",): []},
    {("x",): ()},
    {("x",): ""},
    {"xy": ["a", "e"]},
    {"x": ["a", "e"]},
    {(): ["a", "e"]},
    {("a", "e", "sub"): ["j"]},
    {("j", "sub"): ["a", "e"]},
    {("f", "sub"): ["a", "e"]},
    {("x",): ["a", "e"], ("y",): ["a", "e"]},
    {("x",): ["a", "e"], ("z",): ["x"]},
    {("a", "e"): ["a", "e"]},
    {("x",): ["a"], ("y",): ["a", "b"]},
    {("x",): [["unhashable"]]},
    {("x",): None},
    {("x",): 5},
    {5: ["a", "e"]},
    {None: ["a", "e"]},
    {("x",): iter(["a", "e"])},
]


def copy_move_observations():
    obs = []
    for index, instructions in enumerate(INSTRUCTIONS):
        for fname in ("copy_items", "move_items"):
            func = getattr(dicttoolz, fname)
            mapping = copy.deepcopy(MAPPING)
            if index == len(INSTRUCTIONS) - 1:
                instructions = {("x",): iter(["a", "e"])}
            result = outcome(func, instructions, mapping)
            obs.append([index, fname, result, mapping == MAPPING])

    # identity and sharing
    mapping = copy.deepcopy(MAPPING)
    same = dicttoolz.copy_items({("x",): ["missing"]}, mapping)
    obs.append(["copy-nothing-returns-input", same is mapping])
    copied = dicttoolz.copy_items({("x",): ["a", "b"]}, mapping)
    obs.append(["copy-shares-values", copied is not mapping, copied["x"] is mapping["a"]["b"]])
    obs.append(["copy-shares-untouched", copied["f"] is mapping["f"]])
    moved = dicttoolz.move_items({("x",): ["a", "b"]}, mapping)
    obs.append(["move-deepcopies", moved["f"] is not mapping["f"], "b" in mapping["a"]])
    moved = dicttoolz.move_items({}, mapping)
    obs.append(["move-nothing-deepcopies", moved is not mapping, moved == mapping])

    # non-dict inputs
    od = collections.OrderedDict([("p", {"q": 1}), ("r", 2)])
    obs.append(["ordered-copy", outcome(dicttoolz.copy_items, {("s",): ["p", "q"]}, od)])
    obs.append(["ordered-move", outcome(dicttoolz.move_items, {("s",): ["p", "q"]}, od)])
    obs.append(["ordered-move-top", outcome(dicttoolz.move_items, {("s",): ["r"]}, od)])
    obs.append(["list-mapping", outcome(dicttoolz.move_items, {("s",): [0]}, [1, 2])])
    obs.append(["list-subset", outcome(dicttoolz.move_items, {("s",): ["f", 0]}, copy.deepcopy(MAPPING))])
    obs.append(["instructions-list", outcome(dicttoolz.copy_items, [("x", "y")], {})])
    obs.append(["instructions-none", outcome(dicttoolz.move_items, None, {})])
    log = []
    obs.append(["loud", outcome(dicttoolz.copy_items, {("x",): ["k1"]}, Loud({"k1": 1}, log, "m"))])
    obs.append(["loud-log", describe(log)])

    # order of processing: later instructions see the *original* mapping
    obs.append(
        [
            "sequence",
            outcome(
                dicttoolz.move_items,
                {("n1",): ["a", "b", "c"], ("n2",): ["a", "b"], ("n3",): ["a"]},
                copy.deepcopy(MAPPING),
            ),
        ]
    )
    return obs


def key_exists_observations():
    mapping = {
        "a": {"b": {"c": 1}, "": 5, "n": None},
        "": {"": 0},
        "a.b": "dotted",
        "l": [1, 2],
        ("t", "u"): 1,
        5: 6,
        None: 7,
    }
    keys = [
        "a", "b", "a.b", "a.b.c", "a.b.c.d", "a.c", "a.", ".", "..", "", "a.n", "a.n.x", "l", "l.0",
        ["a"], ["a", "b"], ["a", "b", "c"], ["a", "x"], [], ["a.b"], ["l", 0], ["l", 5], ["l", "0"],
        ["."], ["a", "."], [5], [None], [("t", "u")], [["x"]],
        ("t", "u"), ("a", "b"), ("a", "."), (".",), (), 5, None, 1.5, b"a", b"a.b", {"a": 1}, {".": 1},
        {"."}, frozenset(["a"]),
    ]
    obs = []
    for key in keys:
        before = copy.deepcopy(key)
        obs.append([repr(key), outcome(dicttoolz.key_exists, key, mapping)])
        assert key == before
    for other in [{}, [], [1], None, "abc", 5, collections.OrderedDict(a=1)]:
        for key in ["a", "0", "a.b", [0], ["a"], []]:
            obs.append([repr(other), repr(key), outcome(dicttoolz.key_exists, key, other)])
    return obs


def fuzz_observations():
    rng = random.Random(77)
    names = ["a", "b", "c", "d"]

    def tree(depth):
        if depth == 0 or rng.random() < 0.3:
            return rng.choice([0, 1, None, "s", [1, 2]])
        return {rng.choice(names): tree(depth - 1) for _ in range(rng.randint(0, 3))}

    def path():
        return [rng.choice(names) for _ in range(rng.randint(1, 3))]

    obs = []
    for _ in range(400):
        mapping = tree(3)
        if not isinstance(mapping, dict):
            mapping = {"a": mapping}
        instructions = {tuple(path()): path() for _ in range(rng.randint(0, 3))}
        obs.append(describe(instructions))
        obs.append(outcome(dicttoolz.copy_items, instructions, copy.deepcopy(mapping)))
        obs.append(outcome(dicttoolz.move_items, instructions, copy.deepcopy(mapping)))
        key = ".".join(path()) if rng.random() < 0.5 else path()
        obs.append(outcome(dicttoolz.key_exists, key, mapping))
        other = tree(2)
        if isinstance(other, dict):
            obs.append(outcome(dicttoolz.zip_default, mapping, other, default=rng.choice([None, 0])))
            obs.append(outcome(dicttoolz.dissoc, path(), other))
            obs.append(outcome(dicttoolz.keysplit, lambda k: k < "c", other))
            obs.append(outcome(dicttoolz.valsplit, lambda v: isinstance(v, dict), other))
    return obs


def digest(observations):
    text = json.dumps(observations)
    n_raise = sum(1 for o in observations if o[0] == "raise")
    return [len(observations), n_raise, hashlib.sha256(text.encode()).hexdigest()]


def observe():
    return {
        "split": split_observations(),
        "dissoc": dissoc_observations(),
        "zip_default": zip_default_observations(),
        "copy_move": copy_move_observations(),
        "key_exists": key_exists_observations(),
        "fuzz": digest(fuzz_observations()),
        "public_names": sorted(
            name
            for name in (
                "itemsplit valsplit keysplit assoc dissoc zip_default apply_to_items"
                " copy_items move_items key_exists sentinel"
            ).split()
            if hasattr(dicttoolz, name)
        ),
    }


EXPECTED_JSON = r"""
{"split": [["is_zero", "data", "valsplit", ["return", ["tuple", [["dict", [[["str", "'a'"], ["int", "0"]]]], ["dict", [[["str", "'b'"], ["int", "1"]], [["str", "'c'"], ["int", "2"]], [["str", "'d'"], ["NoneType", "None"]], [["str", "'e'"], ["str", "''"]], [["str", "'f'"], ["str", "'x'"]], [["int", "3"], ["float", "3.0"]], [["tuple", [["int", "1"], ["int", "2"]]], ["list", [["int", "1"]]]], [["str", "'g'"], ["float", "1.0"]]]]]]]], ["is_zero", "data", "keysplit", ["return", ["tuple", [["dict", []], ["dict", [[["str", "'a'"], ["int", "0"]], [["str", "'b'"], ["int", "1"]], [["str", "'c'"], ["int", "2"]], [["str", "'d'"], ["NoneType", "None"]], [["str", "'e'"], ["str", "''"]], [["str", "'f'"], ["str", "'x'"]], [["int", "3"], ["float", "3.0"]], [["tuple", [["int", "1"], ["int", "2"]]], ["list", [["int", "1"]]]], [["str", "'g'"], ["float", "1.0"]]]]]]]], ["is_zero", "empty", "valsplit", ["return", ["tuple", [["dict", []], ["dict", []]]]]], ["is_zero", "empty", "keysplit", ["return", ["tuple", [["dict", []], ["dict", []]]]]], ["is_zero", "ordered", "valsplit", ["return", ["tuple", [["dict", [[["str", "'y'"], ["int", "0"]]]], ["dict", [[["str", "'z'"], ["int", "1"]], [["str", "'x'"], ["str", "'s'"]]]]]]]], ["is_zero", "ordered", "keysplit", ["return", ["tuple", [["dict", []], ["dict", [[["str", "'z'"], ["int", "1"]], [["str", "'y'"], ["int", "0"]], [["str", "'x'"], ["str", "'s'"]]]]]]]], ["truthy", "data", "valsplit", ["return", ["tuple", [["dict", [[["str", "'b'"], ["int", "1"]], [["str", "'c'"], ["int", "2"]], [["str", "'f'"], ["str", "'x'"]], [["int", "3"], ["float", "3.0"]], [["tuple", [["int", "1"], ["int", "2"]]], ["list", [["int", "1"]]]], [["str", "'g'"], ["float", "1.0"]]]], ["dict", [[["str", "'a'"], ["int", "0"]], [["str", "'d'"], ["NoneType", "None"]], [["str", "'e'"], ["str", "''"]]]]]]]], ["truthy", "data", "keysplit", ["return", ["tuple", [["dict", [[["str", "'a'"], ["int", "0"]], [["str", "'b'"], ["int", "1"]], [["str", "'c'"], ["int", "2"]], [["str", "'d'"], ["NoneType", "None"]], [["str", "'e'"], ["str", "''"]], [["str", "'f'"], ["str", "'x'"]], [["int", "3"], ["float", "3.0"]], [["tuple", [["int", "1"], ["int", "2"]]], ["list", [["int", "1"]]]], [["str", "'g'"], ["float", "1.0"]]]], ["dict", []]]]]], ["truthy", "empty", "valsplit", ["return", ["tuple", [["dict", []], ["dict", []]]]]], ["truthy", "empty", "keysplit", ["return", ["tuple", [["dict", []], ["dict", []]]]]], ["truthy", "ordered", "valsplit", ["return", ["tuple", [["dict", [[["str", "'z'"], ["int", "1"]], [["str", "'x'"], ["str", "'s'"]]]], ["dict", [[["str", "'y'"], ["int", "0"]]]]]]]], ["truthy", "ordered", "keysplit", ["return", ["tuple", [["dict", [[["str", "'z'"], ["int", "1"]], [["str", "'y'"], ["int", "0"]], [["str", "'x'"], ["str", "'s'"]]]], ["dict", []]]]]], ["raw", "data", "valsplit", ["raise", "TypeError", "unhashable type: 'list'"]], ["raw", "data", "keysplit", ["return", ["tuple", [["dict", []], ["dict", []]]]]], ["raw", "empty", "valsplit", ["return", ["tuple", [["dict", []], ["dict", []]]]]], ["raw", "empty", "keysplit", ["return", ["tuple", [["dict", []], ["dict", []]]]]], ["raw", "ordered", "valsplit", ["return", ["tuple", [["dict", [[["str", "'z'"], ["int", "1"]]]], ["dict", [[["str", "'y'"], ["int", "0"]]]]]]]], ["raw", "ordered", "keysplit", ["return", ["tuple", [["dict", []], ["dict", []]]]]], ["is_str", "data", "valsplit", ["return", ["tuple", [["dict", [[["str", "'e'"], ["str", "''"]], [["str", "'f'"], ["str", "'x'"]]]], ["dict", [[["str", "'a'"], ["int", "0"]], [["str", "'b'"], ["int", "1"]], [["str", "'c'"], ["int", "2"]], [["str", "'d'"], ["NoneType", "None"]], [["int", "3"], ["float", "3.0"]], [["tuple", [["int", "1"], ["int", "2"]]], ["list", [["int", "1"]]]], [["str", "'g'"], ["float", "1.0"]]]]]]]], ["is_str", "data", "keysplit", ["return", ["tuple", [["dict", [[["str", "'a'"], ["int", "0"]], [["str", "'b'"], ["int", "1"]], [["str", "'c'"], ["int", "2"]], [["str", "'d'"], ["NoneType", "None"]], [["str", "'e'"], ["str", "''"]], [["str", "'f'"], ["str", "'x'"]], [["str", "'g'"], ["float", "1.0"]]]], ["dict", [[["int", "3"], ["float", "3.0"]], [["tuple", [["int", "1"], ["int", "2"]]], ["list", [["int", "1"]]]]]]]]]], ["is_str", "empty", "valsplit", ["return", ["tuple", [["dict", []], ["dict", []]]]]], ["is_str", "empty", "keysplit", ["return", ["tuple", [["dict", []], ["dict", []]]]]], ["is_str", "ordered", "valsplit", ["return", ["tuple", [["dict", [[["str", "'x'"], ["str", "'s'"]]]], ["dict", [[["str", "'z'"], ["int", "1"]], [["str", "'y'"], ["int", "0"]]]]]]]], ["is_str", "ordered", "keysplit", ["return", ["tuple", [["dict", [[["str", "'z'"], ["int", "1"]], [["str", "'y'"], ["int", "0"]], [["str", "'x'"], ["str", "'s'"]]]], ["dict", []]]]]], ["np_bool", "data", "valsplit", ["return", ["tuple", [["dict", [[["str", "'e'"], ["str", "''"]], [["str", "'f'"], ["str", "'x'"]]]], ["dict", [[["str", "'a'"], ["int", "0"]], [["str", "'b'"], ["int", "1"]], [["str", "'c'"], ["int", "2"]], [["str", "'d'"], ["NoneType", "None"]], [["int", "3"], ["float", "3.0"]], [["tuple", [["int", "1"], ["int", "2"]]], ["list", [["int", "1"]]]], [["str", "'g'"], ["float", "1.0"]]]]]]]], ["np_bool", "data", "keysplit", ["return", ["tuple", [["dict", [[["str", "'a'"], ["int", "0"]], [["str", "'b'"], ["int", "1"]], [["str", "'c'"], ["int", "2"]], [["str", "'d'"], ["NoneType", "None"]], [["str", "'e'"], ["str", "''"]], [["str", "'f'"], ["str", "'x'"]], [["str", "'g'"], ["float", "1.0"]]]], ["dict", [[["int", "3"], ["float", "3.0"]], [["tuple", [["int", "1"], ["int", "2"]]], ["list", [["int", "1"]]]]]]]]]], ["np_bool", "empty", "valsplit", ["return", ["tuple", [["dict", []], ["dict", []]]]]], ["np_bool", "empty", "keysplit", ["return", ["tuple", [["dict", []], ["dict", []]]]]], ["np_bool", "ordered", "valsplit", ["return", ["tuple", [["dict", [[["str", "'x'"], ["str", "'s'"]]]], ["dict", [[["str", "'z'"], ["int", "1"]], [["str", "'y'"], ["int", "0"]]]]]]]], ["np_bool", "ordered", "keysplit", ["return", ["tuple", [["dict", [[["str", "'z'"], ["int", "1"]], [["str", "'y'"], ["int", "0"]], [["str", "'x'"], ["str", "'s'"]]]], ["dict", []]]]]], ["none", "data", "valsplit", ["return", ["tuple", [["dict", []], ["dict", []]]]]], ["none", "data", "keysplit", ["return", ["tuple", [["dict", []], ["dict", []]]]]], ["none", "empty", "valsplit", ["return", ["tuple", [["dict", []], ["dict", []]]]]], ["none", "empty", "keysplit", ["return", ["tuple", [["dict", []], ["dict", []]]]]], ["none", "ordered", "valsplit", ["return", ["tuple", [["dict", []], ["dict", []]]]]], ["none", "ordered", "keysplit", ["return", ["tuple", [["dict", []], ["dict", []]]]]], ["int2", "data", "valsplit", ["return", ["tuple", [["dict", []], ["dict", []]]]]], ["int2", "data", "keysplit", ["return", ["tuple", [["dict", []], ["dict", []]]]]], ["int2", "empty", "valsplit", ["return", ["tuple", [["dict", []], ["dict", []]]]]], ["int2", "empty", "keysplit", ["return", ["tuple", [["dict", []], ["dict", []]]]]], ["int2", "ordered", "valsplit", ["return", ["tuple", [["dict", []], ["dict", []]]]]], ["int2", "ordered", "keysplit", ["return", ["tuple", [["dict", []], ["dict", []]]]]], ["always", "data", "valsplit", ["return", ["tuple", [["dict", [[["str", "'a'"], ["int", "0"]], [["str", "'b'"], ["int", "1"]], [["str", "'c'"], ["int", "2"]], [["str", "'d'"], ["NoneType", "None"]], [["str", "'e'"], ["str", "''"]], [["str", "'f'"], ["str", "'x'"]], [["int", "3"], ["float", "3.0"]], [["tuple", [["int", "1"], ["int", "2"]]], ["list", [["int", "1"]]]], [["str", "'g'"], ["float", "1.0"]]]], ["dict", []]]]]], ["always", "data", "keysplit", ["return", ["tuple", [["dict", [[["str", "'a'"], ["int", "0"]], [["str", "'b'"], ["int", "1"]], [["str", "'c'"], ["int", "2"]], [["str", "'d'"], ["NoneType", "None"]], [["str", "'e'"], ["str", "''"]], [["str", "'f'"], ["str", "'x'"]], [["int", "3"], ["float", "3.0"]], [["tuple", [["int", "1"], ["int", "2"]]], ["list", [["int", "1"]]]], [["str", "'g'"], ["float", "1.0"]]]], ["dict", []]]]]], ["always", "empty", "valsplit", ["return", ["tuple", [["dict", []], ["dict", []]]]]], ["always", "empty", "keysplit", ["return", ["tuple", [["dict", []], ["dict", []]]]]], ["always", "ordered", "valsplit", ["return", ["tuple", [["dict", [[["str", "'z'"], ["int", "1"]], [["str", "'y'"], ["int", "0"]], [["str", "'x'"], ["str", "'s'"]]]], ["dict", []]]]]], ["always", "ordered", "keysplit", ["return", ["tuple", [["dict", [[["str", "'z'"], ["int", "1"]], [["str", "'y'"], ["int", "0"]], [["str", "'x'"], ["str", "'s'"]]]], ["dict", []]]]]], ["never", "data", "valsplit", ["return", ["tuple", [["dict", []], ["dict", [[["str", "'a'"], ["int", "0"]], [["str", "'b'"], ["int", "1"]], [["str", "'c'"], ["int", "2"]], [["str", "'d'"], ["NoneType", "None"]], [["str", "'e'"], ["str", "''"]], [["str", "'f'"], ["str", "'x'"]], [["int", "3"], ["float", "3.0"]], [["tuple", [["int", "1"], ["int", "2"]]], ["list", [["int", "1"]]]], [["str", "'g'"], ["float", "1.0"]]]]]]]], ["never", "data", "keysplit", ["return", ["tuple", [["dict", []], ["dict", [[["str", "'a'"], ["int", "0"]], [["str", "'b'"], ["int", "1"]], [["str", "'c'"], ["int", "2"]], [["str", "'d'"], ["NoneType", "None"]], [["str", "'e'"], ["str", "''"]], [["str", "'f'"], ["str", "'x'"]], [["int", "3"], ["float", "3.0"]], [["tuple", [["int", "1"], ["int", "2"]]], ["list", [["int", "1"]]]], [["str", "'g'"], ["float", "1.0"]]]]]]]], ["never", "empty", "valsplit", ["return", ["tuple", [["dict", []], ["dict", []]]]]], ["never", "empty", "keysplit", ["return", ["tuple", [["dict", []], ["dict", []]]]]], ["never", "ordered", "valsplit", ["return", ["tuple", [["dict", []], ["dict", [[["str", "'z'"], ["int", "1"]], [["str", "'y'"], ["int", "0"]], [["str", "'x'"], ["str", "'s'"]]]]]]]], ["never", "ordered", "keysplit", ["return", ["tuple", [["dict", []], ["dict", [[["str", "'z'"], ["int", "1"]], [["str", "'y'"], ["int", "0"]], [["str", "'x'"], ["str", "'s'"]]]]]]]], ["raises", "data", "valsplit", ["raise", "RuntimeError", "boom 0"]], ["raises", "data", "keysplit", ["raise", "RuntimeError", "boom 'a'"]], ["raises", "empty", "valsplit", ["return", ["tuple", [["dict", []], ["dict", []]]]]], ["raises", "empty", "keysplit", ["return", ["tuple", [["dict", []], ["dict", []]]]]], ["raises", "ordered", "valsplit", ["raise", "RuntimeError", "boom 1"]], ["raises", "ordered", "keysplit", ["raise", "RuntimeError", "boom 'z'"]], ["loud", ["return", ["tuple", [["dict", [[["str", "'k1'"], ["int", "1"]], [["str", "'k3'"], ["int", "3"]]]], ["dict", [[["str", "'k2'"], ["int", "2"]]]]]]]], ["loud", ["return", ["tuple", [["dict", [[["str", "'k2'"], ["int", "2"]], [["str", "'k3'"], ["int", "3"]]]], ["dict", [[["str", "'k1'"], ["int", "1"]]]]]]]], ["loud-log", ["list", [["tuple", [["str", "'m'"], ["str", "'items'"]]], ["tuple", [["str", "'m'"], ["str", "'items'"]]]]]], ["not-a-mapping", ["raise", "AttributeError", "'list' object has no attribute 'items'"]], ["not-a-mapping", ["raise", "AttributeError", "'NoneType' object has no attribute 'items'"]], ["order-k", ["return", ["tuple", [["dict", [[["str", "'b'"], ["int", "1"]]]], ["dict", [[["str", "'a'"], ["int", "0"]], [["str", "'c'"], ["int", "2"]], [["str", "'d'"], ["NoneType", "None"]], [["str", "'e'"], ["str", "''"]], [["str", "'f'"], ["str", "'x'"]], [["int", "3"], ["float", "3.0"]], [["tuple", [["int", "1"], ["int", "2"]]], ["list", [["int", "1"]]]], [["str", "'g'"], ["float", "1.0"]]]]]]], ["list", [["str", "'a'"], ["str", "'b'"], ["str", "'c'"], ["str", "'d'"], ["str", "'e'"], ["str", "'f'"], ["int", "3"], ["tuple", [["int", "1"], ["int", "2"]]], ["str", "'g'"]]]], ["order-v", ["return", ["tuple", [["dict", [[["str", "'c'"], ["int", "2"]]]], ["dict", [[["str", "'a'"], ["int", "0"]], [["str", "'b'"], ["int", "1"]], [["str", "'d'"], ["NoneType", "None"]], [["str", "'e'"], ["str", "''"]], [["str", "'f'"], ["str", "'x'"]], [["int", "3"], ["float", "3.0"]], [["tuple", [["int", "1"], ["int", "2"]]], ["list", [["int", "1"]]]], [["str", "'g'"], ["float", "1.0"]]]]]]], ["list", [["int", "0"], ["int", "1"], ["int", "2"], ["NoneType", "None"], ["str", "''"], ["str", "'x'"], ["float", "3.0"], ["list", [["int", "1"]]], ["float", "1.0"]]]]], "dissoc": [[0, ["return", ["dict", [[["str", "'a'"], ["int", "1"]], [["str", "'b'"], ["int", "2"]], [["str", "'c'"], ["int", "3"]], [["str", "'ab'"], ["int", "4"]], [["int", "1"], ["str", "'one'"]], [["tuple", [["int", "1"], ["int", "2"]]], ["str", "'t'"]], [["NoneType", "None"], ["int", "0"]]]]]], [1, ["return", ["dict", [[["str", "'b'"], ["int", "2"]], [["str", "'c'"], ["int", "3"]], [["str", "'ab'"], ["int", "4"]], [["int", "1"], ["str", "'one'"]], [["tuple", [["int", "1"], ["int", "2"]]], ["str", "'t'"]], [["NoneType", "None"], ["int", "0"]]]]]], [2, ["return", ["dict", [[["str", "'b'"], ["int", "2"]], [["str", "'ab'"], ["int", "4"]], [["int", "1"], ["str", "'one'"]], [["tuple", [["int", "1"], ["int", "2"]]], ["str", "'t'"]], [["NoneType", "None"], ["int", "0"]]]]]], [3, ["return", ["dict", [[["str", "'a'"], ["int", "1"]], [["str", "'b'"], ["int", "2"]], [["str", "'c'"], ["int", "3"]], [["str", "'ab'"], ["int", "4"]], [["int", "1"], ["str", "'one'"]], [["tuple", [["int", "1"], ["int", "2"]]], ["str", "'t'"]], [["NoneType", "None"], ["int", "0"]]]]]], [4, ["return", ["dict", [[["str", "'b'"], ["int", "2"]], [["str", "'c'"], ["int", "3"]], [["str", "'ab'"], ["int", "4"]], [["tuple", [["int", "1"], ["int", "2"]]], ["str", "'t'"]], [["NoneType", "None"], ["int", "0"]]]]]], [5, ["return", ["dict", [[["str", "'b'"], ["int", "2"]], [["str", "'c'"], ["int", "3"]], [["str", "'ab'"], ["int", "4"]], [["int", "1"], ["str", "'one'"]], [["NoneType", "None"], ["int", "0"]]]]]], [6, ["return", ["dict", [[["str", "'c'"], ["int", "3"]], [["str", "'ab'"], ["int", "4"]], [["int", "1"], ["str", "'one'"]], [["tuple", [["int", "1"], ["int", "2"]]], ["str", "'t'"]], [["NoneType", "None"], ["int", "0"]]]]]], [7, ["raise", "TypeError", "'in <string>' requires string as left operand, not int"]], [8, ["raise", "TypeError", "'in <string>' requires string as left operand, not int"]], [9, ["raise", "TypeError", "'in <string>' requires string as left operand, not int"]], [10, ["return", ["dict", [[["str", "'a'"], ["int", "1"]], [["str", "'b'"], ["int", "2"]], [["str", "'c'"], ["int", "3"]], [["str", "'ab'"], ["int", "4"]], [["int", "1"], ["str", "'one'"]], [["tuple", [["int", "1"], ["int", "2"]]], ["str", "'t'"]]]]]], [11, ["return", ["dict", [[["str", "'a'"], ["int", "1"]], [["str", "'b'"], ["int", "2"]], [["str", "'c'"], ["int", "3"]], [["str", "'ab'"], ["int", "4"]], [["tuple", [["int", "1"], ["int", "2"]]], ["str", "'t'"]]]]]], [12, ["return", ["dict", [[["str", "'a'"], ["int", "1"]], [["str", "'b'"], ["int", "2"]], [["str", "'c'"], ["int", "3"]], [["str", "'ab'"], ["int", "4"]], [["tuple", [["int", "1"], ["int", "2"]]], ["str", "'t'"]], [["NoneType", "None"], ["int", "0"]]]]]], [13, ["raise", "TypeError", "argument of type 'int' is not iterable"]], [14, ["raise", "TypeError", "argument of type 'NoneType' is not iterable"]], [15, ["return", ["dict", [[["str", "'c'"], ["int", "3"]], [["str", "'ab'"], ["int", "4"]], [["int", "1"], ["str", "'one'"]], [["tuple", [["int", "1"], ["int", "2"]]], ["str", "'t'"]], [["NoneType", "None"], ["int", "0"]]]]]], [16, ["return", ["dict", [[["str", "'a'"], ["int", "1"]], [["str", "'b'"], ["int", "2"]], [["str", "'c'"], ["int", "3"]], [["str", "'ab'"], ["int", "4"]], [["int", "1"], ["str", "'one'"]], [["tuple", [["int", "1"], ["int", "2"]]], ["str", "'t'"]], [["NoneType", "None"], ["int", "0"]]]]]], ["str-only", "'ab'", ["return", ["dict", []]]], ["str-only", "''", ["return", ["dict", [[["str", "'a'"], ["int", "1"]], [["str", "'b'"], ["int", "2"]], [["str", "'ab'"], ["int", "3"]]]]]], ["str-only", "'b'", ["return", ["dict", [[["str", "'a'"], ["int", "1"]], [["str", "'ab'"], ["int", "3"]]]]]], ["str-only", "['ab']", ["return", ["dict", [[["str", "'a'"], ["int", "1"]], [["str", "'b'"], ["int", "2"]]]]]], ["str-only", "5", ["raise", "TypeError", "argument of type 'int' is not iterable"]], ["empty", ["return", ["dict", []]]], ["ordered", ["return", ["dict", [[["str", "'z'"], ["int", "1"]], [["str", "'y'"], ["int", "3"]]]]]], ["proxy", ["return", ["dict", [[["str", "'q'"], ["int", "2"]]]]]], ["loud", ["return", ["dict", [[["str", "'k1'"], ["int", "1"]]]]]], ["loud-log", ["list", [["tuple", [["str", "'m'"], ["str", "'items'"]]]]]], ["not-a-mapping", ["raise", "AttributeError", "'list' object has no attribute 'items'"]], ["not-a-mapping", ["raise", "AttributeError", "'NoneType' object has no attribute 'items'"]], ["fresh-object", true, "dict"]], "zip_default": [["none", "default", ["return", ["dict", []]]], ["none", "sentinel", ["return", ["dict", []]]], ["none", "false", ["return", ["dict", []]]], ["one", "default", ["return", ["dict", [[["str", "'a'"], ["list", [["int", "1"]]]], [["str", "'b'"], ["list", [["int", "2"]]]]]]]], ["one", "sentinel", ["return", ["dict", [[["str", "'a'"], ["list", [["int", "1"]]]], [["str", "'b'"], ["list", [["int", "2"]]]]]]]], ["one", "false", ["return", ["dict", [[["str", "'a'"], ["list", [["int", "1"]]]], [["str", "'b'"], ["list", [["int", "2"]]]]]]]], ["two", "default", ["return", ["dict", [[["str", "'a'"], ["list", [["int", "1"], ["NoneType", "None"]]]], [["str", "'b'"], ["list", [["int", "2"], ["int", "3"]]]], [["str", "'c'"], ["list", [["NoneType", "None"], ["int", "4"]]]]]]]], ["two", "sentinel", ["return", ["dict", [[["str", "'a'"], ["list", [["int", "1"], ["str", "'missing'"]]]], [["str", "'b'"], ["list", [["int", "2"], ["int", "3"]]]], [["str", "'c'"], ["list", [["str", "'missing'"], ["int", "4"]]]]]]]], ["two", "false", ["return", ["dict", [[["str", "'a'"], ["list", [["int", "1"], ["bool", "False"]]]], [["str", "'b'"], ["list", [["int", "2"], ["int", "3"]]]], [["str", "'c'"], ["list", [["bool", "False"], ["int", "4"]]]]]]]], ["two-reversed", "default", ["return", ["dict", [[["str", "'b'"], ["list", [["int", "3"], ["int", "2"]]]], [["str", "'c'"], ["list", [["int", "4"], ["NoneType", "None"]]]], [["str", "'a'"], ["list", [["NoneType", "None"], ["int", "1"]]]]]]]], ["two-reversed", "sentinel", ["return", ["dict", [[["str", "'b'"], ["list", [["int", "3"], ["int", "2"]]]], [["str", "'c'"], ["list", [["int", "4"], ["str", "'missing'"]]]], [["str", "'a'"], ["list", [["str", "'missing'"], ["int", "1"]]]]]]]], ["two-reversed", "false", ["return", ["dict", [[["str", "'b'"], ["list", [["int", "3"], ["int", "2"]]]], [["str", "'c'"], ["list", [["int", "4"], ["bool", "False"]]]], [["str", "'a'"], ["list", [["bool", "False"], ["int", "1"]]]]]]]], ["three", "default", ["return", ["dict", [[["str", "'a'"], ["list", [["int", "1"], ["NoneType", "None"], ["int", "6"]]]], [["str", "'b'"], ["list", [["int", "2"], ["int", "3"], ["NoneType", "None"]]]], [["str", "'c'"], ["list", [["NoneType", "None"], ["int", "4"], ["NoneType", "None"]]]], [["str", "'d'"], ["list", [["NoneType", "None"], ["NoneType", "None"], ["int", "5"]]]], [["int", "1"], ["list", [["NoneType", "None"], ["NoneType", "None"], ["str", "'z'"]]]]]]]], ["three", "sentinel", ["return", ["dict", [[["str", "'a'"], ["list", [["int", "1"], ["str", "'missing'"], ["int", "6"]]]], [["str", "'b'"], ["list", [["int", "2"], ["int", "3"], ["str", "'missing'"]]]], [["str", "'c'"], ["list", [["str", "'missing'"], ["int", "4"], ["str", "'missing'"]]]], [["str", "'d'"], ["list", [["str", "'missing'"], ["str", "'missing'"], ["int", "5"]]]], [["int", "1"], ["list", [["str", "'missing'"], ["str", "'missing'"], ["str", "'z'"]]]]]]]], ["three", "false", ["return", ["dict", [[["str", "'a'"], ["list", [["int", "1"], ["bool", "False"], ["int", "6"]]]], [["str", "'b'"], ["list", [["int", "2"], ["int", "3"], ["bool", "False"]]]], [["str", "'c'"], ["list", [["bool", "False"], ["int", "4"], ["bool", "False"]]]], [["str", "'d'"], ["list", [["bool", "False"], ["bool", "False"], ["int", "5"]]]], [["int", "1"], ["list", [["bool", "False"], ["bool", "False"], ["str", "'z'"]]]]]]]], ["three-rot", "default", ["return", ["dict", [[["str", "'d'"], ["list", [["int", "5"], ["NoneType", "None"], ["NoneType", "None"]]]], [["str", "'a'"], ["list", [["int", "6"], ["int", "1"], ["NoneType", "None"]]]], [["int", "1"], ["list", [["str", "'z'"], ["NoneType", "None"], ["NoneType", "None"]]]], [["str", "'b'"], ["list", [["NoneType", "None"], ["int", "2"], ["int", "3"]]]], [["str", "'c'"], ["list", [["NoneType", "None"], ["NoneType", "None"], ["int", "4"]]]]]]]], ["three-rot", "sentinel", ["return", ["dict", [[["str", "'d'"], ["list", [["int", "5"], ["str", "'missing'"], ["str", "'missing'"]]]], [["str", "'a'"], ["list", [["int", "6"], ["int", "1"], ["str", "'missing'"]]]], [["int", "1"], ["list", [["str", "'z'"], ["str", "'missing'"], ["str", "'missing'"]]]], [["str", "'b'"], ["list", [["str", "'missing'"], ["int", "2"], ["int", "3"]]]], [["str", "'c'"], ["list", [["str", "'missing'"], ["str", "'missing'"], ["int", "4"]]]]]]]], ["three-rot", "false", ["return", ["dict", [[["str", "'d'"], ["list", [["int", "5"], ["bool", "False"], ["bool", "False"]]]], [["str", "'a'"], ["list", [["int", "6"], ["int", "1"], ["bool", "False"]]]], [["int", "1"], ["list", [["str", "'z'"], ["bool", "False"], ["bool", "False"]]]], [["str", "'b'"], ["list", [["bool", "False"], ["int", "2"], ["int", "3"]]]], [["str", "'c'"], ["list", [["bool", "False"], ["bool", "False"], ["int", "4"]]]]]]]], ["same", "default", ["return", ["dict", [[["str", "'a'"], ["list", [["int", "1"], ["int", "1"]]]], [["str", "'b'"], ["list", [["int", "2"], ["int", "2"]]]]]]]], ["same", "sentinel", ["return", ["dict", [[["str", "'a'"], ["list", [["int", "1"], ["int", "1"]]]], [["str", "'b'"], ["list", [["int", "2"], ["int", "2"]]]]]]]], ["same", "false", ["return", ["dict", [[["str", "'a'"], ["list", [["int", "1"], ["int", "1"]]]], [["str", "'b'"], ["list", [["int", "2"], ["int", "2"]]]]]]]], ["empty-first", "default", ["return", ["dict", [[["str", "'b'"], ["list", [["NoneType", "None"], ["int", "3"]]]], [["str", "'c'"], ["list", [["NoneType", "None"], ["int", "4"]]]]]]]], ["empty-first", "sentinel", ["return", ["dict", [[["str", "'b'"], ["list", [["str", "'missing'"], ["int", "3"]]]], [["str", "'c'"], ["list", [["str", "'missing'"], ["int", "4"]]]]]]]], ["empty-first", "false", ["return", ["dict", [[["str", "'b'"], ["list", [["bool", "False"], ["int", "3"]]]], [["str", "'c'"], ["list", [["bool", "False"], ["int", "4"]]]]]]]], ["all-empty", "default", ["return", ["dict", []]]], ["all-empty", "sentinel", ["return", ["dict", []]]], ["all-empty", "false", ["return", ["dict", []]]], ["ordered", "default", ["return", ["dict", [[["str", "'z'"], ["list", [["int", "0"], ["NoneType", "None"]]]], [["str", "'a'"], ["list", [["int", "1"], ["int", "1"]]]], [["str", "'b'"], ["list", [["NoneType", "None"], ["int", "2"]]]]]]]], ["ordered", "sentinel", ["return", ["dict", [[["str", "'z'"], ["list", [["int", "0"], ["str", "'missing'"]]]], [["str", "'a'"], ["list", [["int", "1"], ["int", "1"]]]], [["str", "'b'"], ["list", [["str", "'missing'"], ["int", "2"]]]]]]]], ["ordered", "false", ["return", ["dict", [[["str", "'z'"], ["list", [["int", "0"], ["bool", "False"]]]], [["str", "'a'"], ["list", [["int", "1"], ["int", "1"]]]], [["str", "'b'"], ["list", [["bool", "False"], ["int", "2"]]]]]]]], ["none-values", "default", ["return", ["dict", [[["str", "'a'"], ["list", [["NoneType", "None"], ["NoneType", "None"]]]], [["str", "'b'"], ["list", [["NoneType", "None"], ["NoneType", "None"]]]]]]]], ["none-values", "sentinel", ["return", ["dict", [[["str", "'a'"], ["list", [["NoneType", "None"], ["str", "'missing'"]]]], [["str", "'b'"], ["list", [["str", "'missing'"], ["NoneType", "None"]]]]]]]], ["none-values", "false", ["return", ["dict", [[["str", "'a'"], ["list", [["NoneType", "None"], ["bool", "False"]]]], [["str", "'b'"], ["list", [["bool", "False"], ["NoneType", "None"]]]]]]]], ["loud", ["return", ["dict", [[["str", "'k1'"], ["list", [["int", "1"], ["int", "-1"]]]], [["str", "'k2'"], ["list", [["int", "2"], ["int", "3"]]]], [["str", "'k0'"], ["list", [["int", "-1"], ["int", "4"]]]]]]]], ["loud-log", ["list", [["tuple", [["str", "'m1'"], ["str", "'iter'"]]], ["tuple", [["str", "'m2'"], ["str", "'iter'"]]], ["tuple", [["str", "'m1'"], ["str", "'get'"], ["str", "'k1'"]]], ["tuple", [["str", "'m2'"], ["str", "'get'"], ["str", "'k1'"]]], ["tuple", [["str", "'m1'"], ["str", "'get'"], ["str", "'k2'"]]], ["tuple", [["str", "'m2'"], ["str", "'get'"], ["str", "'k2'"]]], ["tuple", [["str", "'m1'"], ["str", "'get'"], ["str", "'k0'"]]], ["tuple", [["str", "'m2'"], ["str", "'get'"], ["str", "'k0'"]]]]]], ["list", ["raise", "AttributeError", "'list' object has no attribute 'get'"]], ["list-first", ["raise", "AttributeError", "'list' object has no attribute 'get'"]], ["int", ["raise", "TypeError", "'int' object is not iterable"]], ["int-first", ["raise", "TypeError", "'int' object is not iterable"]], ["none", ["raise", "TypeError", "'NoneType' object is not iterable"]], ["unhashable", ["raise", "TypeError", "unhashable type: 'list'"]], ["str", ["raise", "AttributeError", "'str' object has no attribute 'get'"]], ["empty-list", ["raise", "AttributeError", "'list' object has no attribute 'get'"]], ["positional-default", ["return", ["dict", [[["str", "'a'"], ["list", [["int", "1"]]]], [["str", "'b'"], ["list", [["int", "2"]]]]]]]], ["types", "dict", ["list", "list", "list"]]], "copy_move": [[0, "copy_items", ["return", ["dict", [[["str", "'a'"], ["dict", [[["str", "'b'"], ["dict", [[["str", "'c'"], ["int", "1"]], [["str", "'d'"], ["list", [["int", "10"], ["int", "20"], ["int", "30"]]]]]]], [["str", "'e'"], ["int", "2"]]]]], [["str", "'f'"], ["list", [["dict", [[["str", "'g'"], ["int", "3"]]]], ["dict", [[["str", "'h'"], ["int", "4"]]]]]]], [["str", "'i'"], ["NoneType", "None"]], [["str", "'j'"], ["str", "'text'"]], [["int", "1"], ["dict", [[["int", "2"], ["str", "'ints'"]]]]]]]], true], [0, "move_items", ["return", ["dict", [[["str", "'a'"], ["dict", [[["str", "'b'"], ["dict", [[["str", "'c'"], ["int", "1"]], [["str", "'d'"], ["list", [["int", "10"], ["int", "20"], ["int", "30"]]]]]]], [["str", "'e'"], ["int", "2"]]]]], [["str", "'f'"], ["list", [["dict", [[["str", "'g'"], ["int", "3"]]]], ["dict", [[["str", "'h'"], ["int", "4"]]]]]]], [["str", "'i'"], ["NoneType", "None"]], [["str", "'j'"], ["str", "'text'"]], [["int", "1"], ["dict", [[["int", "2"], ["str", "'ints'"]]]]]]]], true], [1, "copy_items", ["return", ["dict", [[["str", "'a'"], ["dict", [[["str", "'b'"], ["dict", [[["str", "'c'"], ["int", "1"]], [["str", "'d'"], ["list", [["int", "10"], ["int", "20"], ["int", "30"]]]]]]], [["str", "'e'"], ["int", "2"]]]]], [["str", "'f'"], ["list", [["dict", [[["str", "'g'"], ["int", "3"]]]], ["dict", [[["str", "'h'"], ["int", "4"]]]]]]], [["str", "'i'"], ["NoneType", "None"]], [["str", "'j'"], ["str", "'text'"]], [["int", "1"], ["dict", [[["int", "2"], ["str", "'ints'"]]]]], [["str", "'x'"], ["int", "2"]]]]], true], [1, "move_items", ["return", ["dict", [[["str", "'a'"], ["dict", [[["str", "'b'"], ["dict", [[["str", "'c'"], ["int", "1"]], [["str", "'d'"], ["list", [["int", "10"], ["int", "20"], ["int", "30"]]]]]]]]]], [["str", "'f'"], ["list", [["dict", [[["str", "'g'"], ["int", "3"]]]], ["dict", [[["str", "'h'"], ["int", "4"]]]]]]], [["str", "'i'"], ["NoneType", "None"]], [["str", "'j'"], ["str", "'text'"]], [["int", "1"], ["dict", [[["int", "2"], ["str", "'ints'"]]]]], [["str", "'x'"], ["int", "2"]]]]], true], [2, "copy_items", ["return", ["dict", [[["str", "'a'"], ["dict", [[["str", "'b'"], ["dict", [[["str", "'c'"], ["int", "1"]], [["str", "'d'"], ["list", [["int", "10"], ["int", "20"], ["int", "30"]]]]]]], [["str", "'e'"], ["int", "2"]]]]], [["str", "'f'"], ["list", [["dict", [[["str", "'g'"], ["int", "3"]]]], ["dict", [[["str", "'h'"], ["int", "4"]]]]]]], [["str", "'i'"], ["NoneType", "None"]], [["str", "'j'"], ["str", "'text'"]], [["int", "1"], ["dict", [[["int", "2"], ["str", "'ints'"]]]]], [["str", "'x'"], ["int", "1"]], [["str", "'y'"], ["dict", [[["str", "'z'"], ["dict", [[["str", "'c'"], ["int", "1"]], [["str", "'d'"], ["list", [["int", "10"], ["int", "20"], ["int", "30"]]]]]]]]]]]]], true], [2, "move_items", ["return", ["dict", [[["str", "'a'"], ["dict", [[["str", "'e'"], ["int", "2"]]]]], [["str", "'f'"], ["list", [["dict", [[["str", "'g'"], ["int", "3"]]]], ["dict", [[["str", "'h'"], ["int", "4"]]]]]]], [["str", "'i'"], ["NoneType", "None"]], [["str", "'j'"], ["str", "'text'"]], [["int", "1"], ["dict", [[["int", "2"], ["str", "'ints'"]]]]], [["str", "'x'"], ["int", "1"]], [["str", "'y'"], ["dict", [[["str", "'z'"], ["dict", [[["str", "'d'"], ["list", [["int", "10"], ["int", "20"], ["int", "30"]]]]]]]]]]]]], true], [3, "copy_items", ["return", ["dict", [[["str", "'a'"], ["dict", [[["str", "'b'"], ["dict", [[["str", "'c'"], ["int", "2"]], [["str", "'d'"], ["list", [["int", "10"], ["int", "20"], ["int", "30"]]]]]]], [["str", "'e'"], ["int", "2"]]]]], [["str", "'f'"], ["list", [["dict", [[["str", "'g'"], ["int", "3"]]]], ["dict", [[["str", "'h'"], ["int", "4"]]]]]]], [["str", "'i'"], ["NoneType", "None"]], [["str", "'j'"], ["str", "'text'"]], [["int", "1"], ["dict", [[["int", "2"], ["str", "'ints'"]]]]]]]], true], [3, "move_items", ["return", ["dict", [[["str", "'a'"], ["dict", [[["str", "'b'"], ["dict", [[["str", "'c'"], ["int", "2"]], [["str", "'d'"], ["list", [["int", "10"], ["int", "20"], ["int", "30"]]]]]]]]]], [["str", "'f'"], ["list", [["dict", [[["str", "'g'"], ["int", "3"]]]], ["dict", [[["str", "'h'"], ["int", "4"]]]]]]], [["str", "'i'"], ["NoneType", "None"]], [["str", "'j'"], ["str", "'text'"]], [["int", "1"], ["dict", [[["int", "2"], ["str", "'ints'"]]]]]]]], true], [4, "copy_items", ["return", ["dict", [[["str", "'a'"], ["dict", [[["str", "'b'"], ["dict", [[["str", "'c'"], ["int", "1"]], [["str", "'d'"], ["list", [["int", "10"], ["int", "20"], ["int", "30"]]]], [["str", "'new'"], ["str", "'text'"]]]]], [["str", "'e'"], ["int", "2"]], [["str", "'new'"], ["int", "2"]]]]], [["str", "'f'"], ["list", [["dict", [[["str", "'g'"], ["int", "3"]]]], ["dict", [[["str", "'h'"], ["int", "4"]]]]]]], [["str", "'i'"], ["NoneType", "None"]], [["str", "'j'"], ["str", "'text'"]], [["int", "1"], ["dict", [[["int", "2"], ["str", "'ints'"]]]]]]]], true], [4, "move_items", ["return", ["dict", [[["str", "'a'"], ["dict", [[["str", "'b'"], ["dict", [[["str", "'c'"], ["int", "1"]], [["str", "'d'"], ["list", [["int", "10"], ["int", "20"], ["int", "30"]]]], [["str", "'new'"], ["str", "'text'"]]]]], [["str", "'new'"], ["int", "2"]]]]], [["str", "'f'"], ["list", [["dict", [[["str", "'g'"], ["int", "3"]]]], ["dict", [[["str", "'h'"], ["int", "4"]]]]]]], [["str", "'i'"], ["NoneType", "None"]], [["int", "1"], ["dict", [[["int", "2"], ["str", "'ints'"]]]]]]]], true], [5, "copy_items", ["return", ["dict", [[["str", "'a'"], ["dict", [[["str", "'b'"], ["dict", [[["str", "'c'"], ["int", "1"]], [["str", "'d'"], ["list", [["int", "10"], ["int", "20"], ["int", "30"]]]]]]], [["str", "'e'"], ["int", "2"]]]]], [["str", "'f'"], ["list", [["dict", [[["str", "'g'"], ["int", "3"]]]], ["dict", [[["str", "'h'"], ["int", "4"]]]]]]], [["str", "'i'"], ["NoneType", "None"]], [["str", "'j'"], ["str", "'text'"]], [["int", "1"], ["dict", [[["int", "2"], ["str", "'ints'"]]]]]]]], true], [5, "move_items", ["return", ["dict", [[["str", "'a'"], ["dict", [[["str", "'b'"], ["dict", [[["str", "'c'"], ["int", "1"]], [["str", "'d'"], ["list", [["int", "10"], ["int", "20"], ["int", "30"]]]]]]], [["str", "'e'"], ["int", "2"]]]]], [["str", "'f'"], ["list", [["dict", [[["str", "'g'"], ["int", "3"]]]], ["dict", [[["str", "'h'"], ["int", "4"]]]]]]], [["str", "'i'"], ["NoneType", "None"]], [["str", "'j'"], ["str", "'text'"]], [["int", "1"], ["dict", [[["int", "2"], ["str", "'ints'"]]]]]]]], true], [6, "copy_items", ["return", ["dict", [[["str", "'a'"], ["dict", [[["str", "'b'"], ["dict", [[["str", "'c'"], ["int", "1"]], [["str", "'d'"], ["list", [["int", "10"], ["int", "20"], ["int", "30"]]]]]]], [["str", "'e'"], ["int", "2"]]]]], [["str", "'f'"], ["list", [["dict", [[["str", "'g'"], ["int", "3"]]]], ["dict", [[["str", "'h'"], ["int", "4"]]]]]]], [["str", "'i'"], ["NoneType", "None"]], [["str", "'j'"], ["str", "'text'"]], [["int", "1"], ["dict", [[["int", "2"], ["str", "'ints'"]]]]], [["str", "'y'"], ["int", "2"]]]]], true], [6, "move_items", ["return", ["dict", [[["str", "'a'"], ["dict", [[["str", "'b'"], ["dict", [[["str", "'c'"], ["int", "1"]], [["str", "'d'"], ["list", [["int", "10"], ["int", "20"], ["int", "30"]]]]]]]]]], [["str", "'f'"], ["list", [["dict", [[["str", "'g'"], ["int", "3"]]]], ["dict", [[["str", "'h'"], ["int", "4"]]]]]]], [["str", "'i'"], ["NoneType", "None"]], [["str", "'j'"], ["str", "'text'"]], [["int", "1"], ["dict", [[["int", "2"], ["str", "'ints'"]]]]], [["str", "'y'"], ["int", "2"]]]]], true], [7, "copy_items", ["return", ["dict", [[["str", "'a'"], ["dict", [[["str", "'b'"], ["dict", [[["str", "'c'"], ["int", "1"]], [["str", "'d'"], ["list", [["int", "10"], ["int", "20"], ["int", "30"]]]]]]], [["str", "'e'"], ["int", "2"]]]]], [["str", "'f'"], ["list", [["dict", [[["str", "'g'"], ["int", "3"]]]], ["dict", [[["str", "'h'"], ["int", "4"]]]]]]], [["str", "'i'"], ["NoneType", "None"]], [["str", "'j'"], ["str", "'text'"]], [["int", "1"], ["dict", [[["int", "2"], ["str", "'ints'"]]]]]]]], true], [7, "move_items", ["raise", "AttributeError", "'int' object has no attribute 'pop'"], true], [8, "copy_items", ["return", ["dict", [[["str", "'a'"], ["dict", [[["str", "'b'"], ["dict", [[["str", "'c'"], ["int", "1"]], [["str", "'d'"], ["list", [["int", "10"], ["int", "20"], ["int", "30"]]]]]]], [["str", "'e'"], ["int", "2"]]]]], [["str", "'f'"], ["list", [["dict", [[["str", "'g'"], ["int", "3"]]]], ["dict", [[["str", "'h'"], ["int", "4"]]]]]]], [["str", "'i'"], ["NoneType", "None"]], [["str", "'j'"], ["str", "'text'"]], [["int", "1"], ["dict", [[["int", "2"], ["str", "'ints'"]]]]], [["str", "'x'"], ["int", "20"]]]]], true], [8, "move_items", ["raise", "TypeError", "pop expected at most 1 argument, got 2"], true], [9, "copy_items", ["return", ["dict", [[["str", "'a'"], ["dict", [[["str", "'b'"], ["dict", [[["str", "'c'"], ["int", "1"]], [["str", "'d'"], ["list", [["int", "10"], ["int", "20"], ["int", "30"]]]]]]], [["str", "'e'"], ["int", "2"]]]]], [["str", "'f'"], ["list", [["dict", [[["str", "'g'"], ["int", "3"]]]], ["dict", [[["str", "'h'"], ["int", "4"]]]]]]], [["str", "'i'"], ["NoneType", "None"]], [["str", "'j'"], ["str", "'text'"]], [["int", "1"], ["dict", [[["int", "2"], ["str", "'ints'"]]]]]]]], true], [9, "move_items", ["raise", "TypeError", "pop expected at most 1 argument, got 2"], true], [10, "copy_items", ["return", ["dict", [[["str", "'a'"], ["dict", [[["str", "'b'"], ["dict", [[["str", "'c'"], ["int", "1"]], [["str", "'d'"], ["list", [["int", "10"], ["int", "20"], ["int", "30"]]]]]]], [["str", "'e'"], ["int", "2"]]]]], [["str", "'f'"], ["list", [["dict", [[["str", "'g'"], ["int", "3"]]]], ["dict", [[["str", "'h'"], ["int", "4"]]]]]]], [["str", "'i'"], ["NoneType", "None"]], [["str", "'j'"], ["str", "'text'"]], [["int", "1"], ["dict", [[["int", "2"], ["str", "'ints'"]]]]], [["str", "'x'"], ["int", "3"]]]]], true], [10, "move_items", ["return", ["dict", [[["str", "'a'"], ["dict", [[["str", "'b'"], ["dict", [[["str", "'c'"], ["int", "1"]], [["str", "'d'"], ["list", [["int", "10"], ["int", "20"], ["int", "30"]]]]]]], [["str", "'e'"], ["int", "2"]]]]], [["str", "'f'"], ["list", [["dict", []], ["dict", [[["str", "'h'"], ["int", "4"]]]]]]], [["str", "'i'"], ["NoneType", "None"]], [["str", "'j'"], ["str", "'text'"]], [["int", "1"], ["dict", [[["int", "2"], ["str", "'ints'"]]]]], [["str", "'x'"], ["int", "3"]]]]], true], [11, "copy_items", ["return", ["dict", [[["str", "'a'"], ["dict", [[["str", "'b'"], ["dict", [[["str", "'c'"], ["int", "1"]], [["str", "'d'"], ["list", [["int", "10"], ["int", "20"], ["int", "30"]]]]]]], [["str", "'e'"], ["int", "2"]]]]], [["str", "'f'"], ["list", [["dict", [[["str", "'g'"], ["int", "3"]]]], ["dict", [[["str", "'h'"], ["int", "4"]]]]]]], [["str", "'i'"], ["NoneType", "None"]], [["str", "'j'"], ["str", "'text'"]], [["int", "1"], ["dict", [[["int", "2"], ["str", "'ints'"]]]]]]]], true], [11, "move_items", ["raise", "TypeError", "pop expected at most 1 argument, got 2"], true], [12, "copy_items", ["return", ["dict", [[["str", "'a'"], ["dict", [[["str", "'b'"], ["dict", [[["str", "'c'"], ["int", "1"]], [["str", "'d'"], ["list", [["int", "10"], ["int", "20"], ["int", "30"]]]]]]], [["str", "'e'"], ["int", "2"]]]]], [["str", "'f'"], ["list", [["dict", [[["str", "'g'"], ["int", "3"]]]], ["dict", [[["str", "'h'"], ["int", "4"]]]]]]], [["str", "'i'"], ["NoneType", "None"]], [["str", "'j'"], ["str", "'text'"]], [["int", "1"], ["dict", [[["int", "2"], ["str", "'ints'"]]]]], [["str", "'x'"], ["NoneType", "None"]]]]], true], [12, "move_items", ["return", ["dict", [[["str", "'a'"], ["dict", [[["str", "'b'"], ["dict", [[["str", "'c'"], ["int", "1"]], [["str", "'d'"], ["list", [["int", "10"], ["int", "20"], ["int", "30"]]]]]]], [["str", "'e'"], ["int", "2"]]]]], [["str", "'f'"], ["list", [["dict", [[["str", "'g'"], ["int", "3"]]]], ["dict", [[["str", "'h'"], ["int", "4"]]]]]]], [["str", "'j'"], ["str", "'text'"]], [["int", "1"], ["dict", [[["int", "2"], ["str", "'ints'"]]]]], [["str", "'x'"], ["NoneType", "None"]]]]], true], [13, "copy_items", ["return", ["dict", [[["str", "'a'"], ["dict", [[["str", "'b'"], ["dict", [[["str", "'c'"], ["int", "1"]], [["str", "'d'"], ["list", [["int", "10"], ["int", "20"], ["int", "30"]]]]]]], [["str", "'e'"], ["int", "2"]]]]], [["str", "'f'"], ["list", [["dict", [[["str", "'g'"], ["int", "3"]]]], ["dict", [[["str", "'h'"], ["int", "4"]]]]]]], [["str", "'i'"], ["NoneType", "None"]], [["str", "'j'"], ["str", "'text'"]], [["int", "1"], ["dict", [[["int", "2"], ["str", "'ints'"]]]]]]]], true], [13, "move_items", ["raise", "AttributeError", "'NoneType' object has no attribute 'pop'"], true], [14, "copy_items", ["return", ["dict", [[["str", "'a'"], ["dict", [[["str", "'b'"], ["dict", [[["str", "'c'"], ["int", "1"]], [["str", "'d'"], ["list", [["int", "10"], ["int", "20"], ["int", "30"]]]]]]], [["str", "'e'"], ["int", "2"]]]]], [["str", "'f'"], ["list", [["dict", [[["str", "'g'"], ["int", "3"]]]], ["dict", [[["str", "'h'"], ["int", "4"]]]]]]], [["str", "'i'"], ["NoneType", "None"]], [["str", "'j'"], ["str", "'text'"]], [["int", "1"], ["dict", [[["int", "2"], ["str", "'ints'"]]]]], [["str", "'x'"], ["str", "'t'"]]]]], true], [14, "move_items", ["raise", "AttributeError", "'str' object has no attribute 'pop'"], true], [15, "copy_items", ["return", ["dict", [[["str", "'a'"], ["dict", [[["str", "'b'"], ["dict", [[["str", "'c'"], ["int", "1"]], [["str", "'d'"], ["list", [["int", "10"], ["int", "20"], ["int", "30"]]]]]]], [["str", "'e'"], ["int", "2"]]]]], [["str", "'f'"], ["list", [["dict", [[["str", "'g'"], ["int", "3"]]]], ["dict", [[["str", "'h'"], ["int", "4"]]]]]]], [["str", "'i'"], ["NoneType", "None"]], [["str", "'j'"], ["str", "'text'"]], [["int", "1"], ["dict", [[["int", "2"], ["str", "'ints'"]]]]], [["str", "'x'"], ["str", "'text'"]]]]], true], [15, "move_items", ["return", ["dict", [[["str", "'a'"], ["dict", [[["str", "'b'"], ["dict", [[["str", "'c'"], ["int", "1"]], [["str", "'d'"], ["list", [["int", "10"], ["int", "20"], ["int", "30"]]]]]]], [["str", "'e'"], ["int", "2"]]]]], [["str", "'f'"], ["list", [["dict", [[["str", "'g'"], ["int", "3"]]]], ["dict", [[["str", "'h'"], ["int", "4"]]]]]]], [["str", "'i'"], ["NoneType", "None"]], [["int", "1"], ["dict", [[["int", "2"], ["str", "'ints'"]]]]], [["str", "'x'"], ["str", "'text'"]]]]], true], [16, "copy_items", ["return", ["dict", [[["str", "'a'"], ["dict", [[["str", "'b'"], ["dict", [[["str", "'c'"], ["int", "1"]], [["str", "'d'"], ["list", [["int", "10"], ["int", "20"], ["int", "30"]]]]]]], [["str", "'e'"], ["int", "2"]]]]], [["str", "'f'"], ["list", [["dict", [[["str", "'g'"], ["int", "3"]]]], ["dict", [[["str", "'h'"], ["int", "4"]]]]]]], [["str", "'i'"], ["NoneType", "None"]], [["str", "'j'"], ["str", "'text'"]], [["int", "1"], ["dict", [[["int", "2"], ["str", "'ints'"]]]]], [["str", "'x'"], ["str", "'ints'"]]]]], true], [16, "move_items", ["return", ["dict", [[["str", "'a'"], ["dict", [[["str", "'b'"], ["dict", [[["str", "'c'"], ["int", "1"]], [["str", "'d'"], ["list", [["int", "10"], ["int", "20"], ["int", "30"]]]]]]], [["str", "'e'"], ["int", "2"]]]]], [["str", "'f'"], ["list", [["dict", [[["str", "'g'"], ["int", "3"]]]], ["dict", [[["str", "'h'"], ["int", "4"]]]]]]], [["str", "'i'"], ["NoneType", "None"]], [["str", "'j'"], ["str", "'text'"]], [["int", "1"], ["dict", []]], [["str", "'x'"], ["str", "'ints'"]]]]], true], [17, "copy_items", ["return", ["dict", [[["str", "'a'"], ["dict", [[["str", "'b'"], ["dict", [[["str", "'c'"], ["int", "1"]], [["str", "'d'"], ["list", [["int", "10"], ["int", "20"], ["int", "30"]]]]]]], [["str", "'e'"], ["int", "2"]]]]], [["str", "'f'"], ["list", [["dict", [[["str", "'g'"], ["int", "3"]]]], ["dict", [[["str", "'h'"], ["int", "4"]]]]]]], [["str", "'i'"], ["NoneType", "None"]], [["str", "'j'"], ["str", "'text'"]], [["int", "1"], ["dict", [[["int", "2"], ["str", "'ints'"]]]]], [["str", "'x'"], ["str", "'ints'"]]]]], true], [17, "move_items", ["return", ["dict", [[["str", "'a'"], ["dict", [[["str", "'b'"], ["dict", [[["str", "'c'"], ["int", "1"]], [["str", "'d'"], ["list", [["int", "10"], ["int", "20"], ["int", "30"]]]]]]], [["str", "'e'"], ["int", "2"]]]]], [["str", "'f'"], ["list", [["dict", [[["str", "'g'"], ["int", "3"]]]], ["dict", [[["str", "'h'"], ["int", "4"]]]]]]], [["str", "'i'"], ["NoneType", "None"]], [["str", "'j'"], ["str", "'text'"]], [["int", "1"], ["dict", []]], [["str", "'x'"], ["str", "'ints'"]]]]], true], [18, "copy_items", ["return", ["dict", [[["str", "'a'"], ["dict", [[["str", "'b'"], ["dict", [[["str", "'c'"], ["int", "1"]], [["str", "'d'"], ["list", [["int", "10"], ["int", "20"], ["int", "30"]]]]]]], [["str", "'e'"], ["int", "2"]]]]], [["str", "'f'"], ["list", [["dict", [[["str", "'g'"], ["int", "3"]]]], ["dict", [[["str", "'h'"], ["int", "4"]]]]]]], [["str", "'i'"], ["NoneType", "None"]], [["str", "'j'"], ["str", "'text'"]], [["int", "1"], ["dict", [[["int", "2"], ["str", "'ints'"]]]]], [["str", "'x'"], ["dict", [[["str", "'c'"], ["int", "1"]], [["str", "'d'"], ["list", [["int", "10"], ["int", "20"], ["int", "30"]]]]]]]]]], true], [18, "move_items", ["return", ["dict", [[["str", "'a'"], ["dict", [[["str", "'e'"], ["int", "2"]]]]], [["str", "'f'"], ["list", [["dict", [[["str", "'g'"], ["int", "3"]]]], ["dict", [[["str", "'h'"], ["int", "4"]]]]]]], [["str", "'i'"], ["NoneType", "None"]], [["str", "'j'"], ["str", "'text'"]], [["int", "1"], ["dict", [[["int", "2"], ["str", "'ints'"]]]]], [["str", "'x'"], ["dict", [[["str", "'c'"], ["int", "1"]], [["str", "'d'"], ["list", [["int", "10"], ["int", "20"], ["int", "30"]]]]]]]]]], true], [19, "copy_items", ["return", ["dict", [[["str", "'a'"], ["dict", [[["str", "'b'"], ["dict", [[["str", "'c'"], ["int", "1"]], [["str", "'d'"], ["list", [["int", "10"], ["int", "20"], ["int", "30"]]]]]]], [["str", "'e'"], ["int", "2"]]]]], [["str", "'f'"], ["list", [["dict", [[["str", "'g'"], ["int", "3"]]]], ["dict", [[["str", "'h'"], ["int", "4"]]]]]]], [["str", "'i'"], ["NoneType", "None"]], [["str", "'j'"], ["str", "'text'"]], [["int", "1"], ["dict", [[["int", "2"], ["str", "'ints'"]]]]], [["str", "'x'"], ["dict", [[["str", "'b'"], ["dict", [[["str", "'c'"], ["int", "1"]], [["str", "'d'"], ["list", [["int", "10"], ["int", "20"], ["int", "30"]]]]]]], [["str", "'e'"], ["int", "2"]]]]]]]], true], [19, "move_items", ["return", ["dict", [[["str", "'f'"], ["list", [["dict", [[["str", "'g'"], ["int", "3"]]]], ["dict", [[["str", "'h'"], ["int", "4"]]]]]]], [["str", "'i'"], ["NoneType", "None"]], [["str", "'j'"], ["str", "'text'"]], [["int", "1"], ["dict", [[["int", "2"], ["str", "'ints'"]]]]], [["str", "'x'"], ["dict", [[["str", "'b'"], ["dict", [[["str", "'c'"], ["int", "1"]], [["str", "'d'"], ["list", [["int", "10"], ["int", "20"], ["int", "30"]]]]]]], [["str", "'e'"], ["int", "2"]]]]]]]], true], [20, "copy_items", ["return", ["dict", [[["str", "'a'"], ["dict", [[["str", "'b'"], ["dict", [[["str", "'c'"], ["int", "1"]], [["str", "'d'"], ["list", [["int", "10"], ["int", "20"], ["int", "30"]]]]]]], [["str", "'e'"], ["int", "2"]]]]], [["str", "'f'"], ["list", [["dict", [[["str", "'g'"], ["int", "3"]]]], ["dict", [[["str", "'h'"], ["int", "4"]]]]]]], [["str", "'i'"], ["NoneType", "None"]], [["str", "'j'"], ["str", "'text'"]], [["int", "1"], ["dict", [[["int", "2"], ["str", "'ints'"]]]]], [["str", "'x'"], ["dict", [[["str", "'a'"], ["dict", [[["str", "'b'"], ["dict", [[["str", "'c'"], ["int", "1"]], [["str", "'d'"], ["list", [["int", "10"], ["int", "20"], ["int", "30"]]]]]]], [["str", "'e'"], ["int", "2"]]]]], [["str", "'f'"], ["list", [["dict", [[["str", "'g'"], ["int", "3"]]]], ["dict", [[["str", "'h'"], ["int", "4"]]]]]]], [["str", "'i'"], ["NoneType", "None"]], [["str", "'j'"], ["str", "'text'"]], [["int", "1"], ["dict", [[["int", "2"], ["str", "'ints'"]]]]]]]]]]], true], [20, "move_items", ["raise", "ValueError", "not enough values to unpack (expected at least 1, got 0)"], true], [21, "copy_items", ["return", ["dict", [[["str", "'a'"], ["dict", [[["str", "'b'"], ["dict", [[["str", "'c'"], ["int", "1"]], [["str", "'d'"], ["list", [["int", "10"], ["int", "20"], ["int", "30"]]]]]]], [["str", "'e'"], ["int", "2"]]]]], [["str", "'f'"], ["list", [["dict", [[["str", "'g'"], ["int", "3"]]]], ["dict", [[["str", "'h'"], ["int", "4"]]]]]]], [["str", "'i'"], ["NoneType", "None"]], [["str", "'j'"], ["str", "'text'"]], [["int", "1"], ["dict", [[["int", "2"], ["str", "'ints'"]]]]], [["str", "'x'"], ["dict", [[["str", "'a'"], ["dict", [[["str", "'b'"], ["dict", [[["str", "'c'"], ["int", "1"]], [["str", "'d'"], ["list", [["int", "10"], ["int", "20"], ["int", "30"]]]]]]], [["str", "'e'"], ["int", "2"]]]]], [["str", "'f'"], ["list", [["dict", [[["str", "'g'"], ["int", "3"]]]], ["dict", [[["str", "'h'"], ["int", "4"]]]]]]], [["str", "'i'"], ["NoneType", "None"]], [["str", "'j'"], ["str", "'text'"]], [["int", "1"], ["dict", [[["int", "2"], ["str", "'ints'"]]]]]]]]]]], true], [21, "move_items", ["raise", "ValueError", "not enough values to unpack (expected at least 1, got 0)"], true], [22, "copy_items", ["return", ["dict", [[["str", "'a'"], ["dict", [[["str", "'b'"], ["dict", [[["str", "'c'"], ["int", "1"]], [["str", "'d'"], ["list", [["int", "10"], ["int", "20"], ["int", "30"]]]]]]], [["str", "'e'"], ["int", "2"]]]]], [["str", "'f'"], ["list", [["dict", [[["str", "'g'"], ["int", "3"]]]], ["dict", [[["str", "'h'"], ["int", "4"]]]]]]], [["str", "'i'"], ["NoneType", "None"]], [["str", "'j'"], ["str", "'text'"]], [["int", "1"], ["dict", [[["int", "2"], ["str", "'ints'"]]]]], [["str", "'x'"], ["dict", [[["str", "'a'"], ["dict", [[["str", "'b'"], ["dict", [[["str", "'c'"], ["int", "1"]], [["str", "'d'"], ["list", [["int", "10"], ["int", "20"], ["int", "30"]]]]]]], [["str", "'e'"], ["int", "2"]]]]], [["str", "'f'"], ["list", [["dict", [[["str", "'g'"], ["int", "3"]]]], ["dict", [[["str", "'h'"], ["int", "4"]]]]]]], [["str", "'i'"], ["NoneType", "None"]], [["str", "'j'"], ["str", "'text'"]], [["int", "1"], ["dict", [[["int", "2"], ["str", "'ints'"]]]]]]]]]]], true], [22, "move_items", ["raise", "ValueError", "not enough values to unpack (expected at least 1, got 0)"], true], [23, "copy_items", ["return", ["dict", [[["str", "'a'"], ["dict", [[["str", "'b'"], ["dict", [[["str", "'c'"], ["int", "1"]], [["str", "'d'"], ["list", [["int", "10"], ["int", "20"], ["int", "30"]]]]]]], [["str", "'e'"], ["int", "2"]]]]], [["str", "'f'"], ["list", [["dict", [[["str", "'g'"], ["int", "3"]]]], ["dict", [[["str", "'h'"], ["int", "4"]]]]]]], [["str", "'i'"], ["NoneType", "None"]], [["str", "'j'"], ["str", "'text'"]], [["int", "1"], ["dict", [[["int", "2"], ["str", "'ints'"]]]]], [["str", "'x'"], ["dict", [[["str", "'y'"], ["int", "2"]]]]]]]], true], [23, "move_items", ["return", ["dict", [[["str", "'a'"], ["dict", [[["str", "'b'"], ["dict", [[["str", "'c'"], ["int", "1"]], [["str", "'d'"], ["list", [["int", "10"], ["int", "20"], ["int", "30"]]]]]]]]]], [["str", "'f'"], ["list", [["dict", [[["str", "'g'"], ["int", "3"]]]], ["dict", [[["str", "'h'"], ["int", "4"]]]]]]], [["str", "'i'"], ["NoneType", "None"]], [["str", "'j'"], ["str", "'text'"]], [["int", "1"], ["dict", [[["int", "2"], ["str", "'ints'"]]]]], [["str", "'x'"], ["dict", [[["str", "'y'"], ["int", "2"]]]]]]]], true], [24, "copy_items", ["return", ["dict", [[["str", "'a'"], ["dict", [[["str", "'b'"], ["dict", [[["str", "'c'"], ["int", "1"]], [["str", "'d'"], ["list", [["int", "10"], ["int", "20"], ["int", "30"]]]]]]], [["str", "'e'"], ["int", "2"]]]]], [["str", "'f'"], ["list", [["dict", [[["str", "'g'"], ["int", "3"]]]], ["dict", [[["str", "'h'"], ["int", "4"]]]]]]], [["str", "'i'"], ["NoneType", "None"]], [["str", "'j'"], ["str", "'text'"]], [["int", "1"], ["dict", [[["int", "2"], ["str", "'ints'"]]]]], [["str", "'x'"], ["int", "2"]]]]], true], [24, "move_items", ["return", ["dict", [[["str", "'a'"], ["dict", [[["str", "'b'"], ["dict", [[["str", "'c'"], ["int", "1"]], [["str", "'d'"], ["list", [["int", "10"], ["int", "20"], ["int", "30"]]]]]]]]]], [["str", "'f'"], ["list", [["dict", [[["str", "'g'"], ["int", "3"]]]], ["dict", [[["str", "'h'"], ["int", "4"]]]]]]], [["str", "'i'"], ["NoneType", "None"]], [["str", "'j'"], ["str", "'text'"]], [["int", "1"], ["dict", [[["int", "2"], ["str", "'ints'"]]]]], [["str", "'x'"], ["int", "2"]]]]], true], [25, "copy_items", ["raise", "StopIteration", ""], true], [25, "move_items", ["raise", "StopIteration", ""], true], [26, "copy_items", ["raise", "TypeError", "'int' object is not iterable"], true], [26, "move_items", ["raise", "TypeError", "'int' object is not iterable"], true], [27, "copy_items", ["raise", "ValueError", "dictionary update sequence element #0 has length 1; 2 is required"], true], [27, "move_items", ["raise", "ValueError", "dictionary update sequence element #0 has length 1; 2 is required"], true], [28, "copy_items", ["raise", "ValueError", "dictionary update sequence element #0 has length 1; 2 is required"], true], [28, "move_items", ["raise", "ValueError", "dictionary update sequence element #0 has length 1; 2 is required"], true], [29, "copy_items", ["return", ["dict", [[["str", "'a'"], ["dict", [[["str", "'b'"], ["dict", [[["str", "'c'"], ["int", "1"]], [["str", "'d'"], ["list", [["int", "10"], ["int", "20"], ["int", "30"]]]]]]], [["str", "'e'"], ["int", "2"]]]]], [["str", "'f'"], ["list", [["dict", [[["str", "'g'"], ["int", "3"]]]], ["dict", [[["str", "'h'"], ["int", "4"]]]]]]], [["str", "'i'"], ["NoneType", "None"]], [["str", "'j'"], ["str", "'text'"]], [["int", "1"], ["dict", [[["int", "2"], ["str", "'ints'"]]]]], [["str", "'x'"], ["int", "2"]], [["str", "'y'"], ["int", "2"]]]]], true], [29, "move_items", ["return", ["dict", [[["str", "'a'"], ["dict", [[["str", "'b'"], ["dict", [[["str", "'c'"], ["int", "1"]], [["str", "'d'"], ["list", [["int", "10"], ["int", "20"], ["int", "30"]]]]]]]]]], [["str", "'f'"], ["list", [["dict", [[["str", "'g'"], ["int", "3"]]]], ["dict", [[["str", "'h'"], ["int", "4"]]]]]]], [["str", "'i'"], ["NoneType", "None"]], [["str", "'j'"], ["str", "'text'"]], [["int", "1"], ["dict", [[["int", "2"], ["str", "'ints'"]]]]], [["str", "'x'"], ["int", "2"]], [["str", "'y'"], ["int", "2"]]]]], true], [30, "copy_items", ["return", ["dict", [[["str", "'a'"], ["dict", [[["str", "'b'"], ["dict", [[["str", "'c'"], ["int", "1"]], [["str", "'d'"], ["list", [["int", "10"], ["int", "20"], ["int", "30"]]]]]]], [["str", "'e'"], ["int", "2"]]]]], [["str", "'f'"], ["list", [["dict", [[["str", "'g'"], ["int", "3"]]]], ["dict", [[["str", "'h'"], ["int", "4"]]]]]]], [["str", "'i'"], ["NoneType", "None"]], [["str", "'j'"], ["str", "'text'"]], [["int", "1"], ["dict", [[["int", "2"], ["str", "'ints'"]]]]], [["str", "'x'"], ["int", "2"]]]]], true], [30, "move_items", ["return", ["dict", [[["str", "'a'"], ["dict", [[["str", "'b'"], ["dict", [[["str", "'c'"], ["int", "1"]], [["str", "'d'"], ["list", [["int", "10"], ["int", "20"], ["int", "30"]]]]]]]]]], [["str", "'f'"], ["list", [["dict", [[["str", "'g'"], ["int", "3"]]]], ["dict", [[["str", "'h'"], ["int", "4"]]]]]]], [["str", "'i'"], ["NoneType", "None"]], [["str", "'j'"], ["str", "'text'"]], [["int", "1"], ["dict", [[["int", "2"], ["str", "'ints'"]]]]]]]], true], [31, "copy_items", ["return", ["dict", [[["str", "'a'"], ["dict", [[["str", "'b'"], ["dict", [[["str", "'c'"], ["int", "1"]], [["str", "'d'"], ["list", [["int", "10"], ["int", "20"], ["int", "30"]]]]]]], [["str", "'e'"], ["int", "2"]]]]], [["str", "'f'"], ["list", [["dict", [[["str", "'g'"], ["int", "3"]]]], ["dict", [[["str", "'h'"], ["int", "4"]]]]]]], [["str", "'i'"], ["NoneType", "None"]], [["str", "'j'"], ["str", "'text'"]], [["int", "1"], ["dict", [[["int", "2"], ["str", "'ints'"]]]]]]]], true], [31, "move_items", ["return", ["dict", [[["str", "'a'"], ["dict", [[["str", "'b'"], ["dict", [[["str", "'c'"], ["int", "1"]], [["str", "'d'"], ["list", [["int", "10"], ["int", "20"], ["int", "30"]]]]]]]]]], [["str", "'f'"], ["list", [["dict", [[["str", "'g'"], ["int", "3"]]]], ["dict", [[["str", "'h'"], ["int", "4"]]]]]]], [["str", "'i'"], ["NoneType", "None"]], [["str", "'j'"], ["str", "'text'"]], [["int", "1"], ["dict", [[["int", "2"], ["str", "'ints'"]]]]]]]], true], [32, "copy_items", ["return", ["dict", [[["str", "'a'"], ["dict", [[["str", "'b'"], ["dict", [[["str", "'c'"], ["int", "1"]], [["str", "'d'"], ["list", [["int", "10"], ["int", "20"], ["int", "30"]]]]]]], [["str", "'e'"], ["int", "2"]]]]], [["str", "'f'"], ["list", [["dict", [[["str", "'g'"], ["int", "3"]]]], ["dict", [[["str", "'h'"], ["int", "4"]]]]]]], [["str", "'i'"], ["NoneType", "None"]], [["str", "'j'"], ["str", "'text'"]], [["int", "1"], ["dict", [[["int", "2"], ["str", "'ints'"]]]]], [["str", "'x'"], ["dict", [[["str", "'b'"], ["dict", [[["str", "'c'"], ["int", "1"]], [["str", "'d'"], ["list", [["int", "10"], ["int", "20"], ["int", "30"]]]]]]], [["str", "'e'"], ["int", "2"]]]]], [["str", "'y'"], ["dict", [[["str", "'c'"], ["int", "1"]], [["str", "'d'"], ["list", [["int", "10"], ["int", "20"], ["int", "30"]]]]]]]]]], true], [32, "move_items", ["return", ["dict", [[["str", "'f'"], ["list", [["dict", [[["str", "'g'"], ["int", "3"]]]], ["dict", [[["str", "'h'"], ["int", "4"]]]]]]], [["str", "'i'"], ["NoneType", "None"]], [["str", "'j'"], ["str", "'text'"]], [["int", "1"], ["dict", [[["int", "2"], ["str", "'ints'"]]]]], [["str", "'x'"], ["dict", [[["str", "'b'"], ["dict", [[["str", "'c'"], ["int", "1"]], [["str", "'d'"], ["list", [["int", "10"], ["int", "20"], ["int", "30"]]]]]]], [["str", "'e'"], ["int", "2"]]]]], [["str", "'y'"], ["dict", [[["str", "'c'"], ["int", "1"]], [["str", "'d'"], ["list", [["int", "10"], ["int", "20"], ["int", "30"]]]]]]]]]], true], [33, "copy_items", ["return", ["dict", [[["str", "'a'"], ["dict", [[["str", "'b'"], ["dict", [[["str", "'c'"], ["int", "1"]], [["str", "'d'"], ["list", [["int", "10"], ["int", "20"], ["int", "30"]]]]]]], [["str", "'e'"], ["int", "2"]]]]], [["str", "'f'"], ["list", [["dict", [[["str", "'g'"], ["int", "3"]]]], ["dict", [[["str", "'h'"], ["int", "4"]]]]]]], [["str", "'i'"], ["NoneType", "None"]], [["str", "'j'"], ["str", "'text'"]], [["int", "1"], ["dict", [[["int", "2"], ["str", "'ints'"]]]]]]]], true], [33, "move_items", ["raise", "TypeError", "unhashable type: 'list'"], true], [34, "copy_items", ["return", ["dict", [[["str", "'a'"], ["dict", [[["str", "'b'"], ["dict", [[["str", "'c'"], ["int", "1"]], [["str", "'d'"], ["list", [["int", "10"], ["int", "20"], ["int", "30"]]]]]]], [["str", "'e'"], ["int", "2"]]]]], [["str", "'f'"], ["list", [["dict", [[["str", "'g'"], ["int", "3"]]]], ["dict", [[["str", "'h'"], ["int", "4"]]]]]]], [["str", "'i'"], ["NoneType", "None"]], [["str", "'j'"], ["str", "'text'"]], [["int", "1"], ["dict", [[["int", "2"], ["str", "'ints'"]]]]]]]], true], [34, "move_items", ["raise", "TypeError", "cannot unpack non-iterable NoneType object"], true], [35, "copy_items", ["return", ["dict", [[["str", "'a'"], ["dict", [[["str", "'b'"], ["dict", [[["str", "'c'"], ["int", "1"]], [["str", "'d'"], ["list", [["int", "10"], ["int", "20"], ["int", "30"]]]]]]], [["str", "'e'"], ["int", "2"]]]]], [["str", "'f'"], ["list", [["dict", [[["str", "'g'"], ["int", "3"]]]], ["dict", [[["str", "'h'"], ["int", "4"]]]]]]], [["str", "'i'"], ["NoneType", "None"]], [["str", "'j'"], ["str", "'text'"]], [["int", "1"], ["dict", [[["int", "2"], ["str", "'ints'"]]]]]]]], true], [35, "move_items", ["raise", "TypeError", "cannot unpack non-iterable int object"], true], [36, "copy_items", ["raise", "TypeError", "'int' object is not iterable"], true], [36, "move_items", ["raise", "TypeError", "'int' object is not iterable"], true], [37, "copy_items", ["raise", "TypeError", "'NoneType' object is not iterable"], true], [37, "move_items", ["raise", "TypeError", "'NoneType' object is not iterable"], true], [38, "copy_items", ["return", ["dict", [[["str", "'a'"], ["dict", [[["str", "'b'"], ["dict", [[["str", "'c'"], ["int", "1"]], [["str", "'d'"], ["list", [["int", "10"], ["int", "20"], ["int", "30"]]]]]]], [["str", "'e'"], ["int", "2"]]]]], [["str", "'f'"], ["list", [["dict", [[["str", "'g'"], ["int", "3"]]]], ["dict", [[["str", "'h'"], ["int", "4"]]]]]]], [["str", "'i'"], ["NoneType", "None"]], [["str", "'j'"], ["str", "'text'"]], [["int", "1"], ["dict", [[["int", "2"], ["str", "'ints'"]]]]], [["str", "'x'"], ["int", "2"]]]]], true], [38, "move_items", ["raise", "ValueError", "not enough values to unpack (expected at least 1, got 0)"], true], ["copy-nothing-returns-input", true], ["copy-shares-values", true, true], ["copy-shares-untouched", true], ["move-deepcopies", true, true], ["move-nothing-deepcopies", true, true], ["ordered-copy", ["return", ["dict", [[["str", "'p'"], ["dict", [[["str", "'q'"], ["int", "1"]]]]], [["str", "'r'"], ["int", "2"]], [["str", "'s'"], ["int", "1"]]]]]], ["ordered-move", ["return", ["dict", [[["str", "'p'"], ["dict", []]], [["str", "'r'"], ["int", "2"]], [["str", "'s'"], ["int", "1"]]]]]], ["ordered-move-top", ["return", ["dict", [[["str", "'p'"], ["dict", [[["str", "'q'"], ["int", "1"]]]]], [["str", "'s'"], ["int", "2"]]]]]], ["list-mapping", ["raise", "TypeError", "cannot convert dictionary update sequence element #0 to a sequence"]], ["list-subset", ["raise", "TypeError", "pop expected at most 1 argument, got 2"]], ["instructions-list", ["raise", "AttributeError", "'list' object has no attribute 'items'"]], ["instructions-none", ["raise", "AttributeError", "'NoneType' object has no attribute 'items'"]], ["loud", ["return", ["dict", [[["str", "'k1'"], ["int", "1"]], [["str", "'x'"], ["int", "1"]]]]]], ["loud-log", ["list", [["tuple", [["str", "'m'"], ["str", "'getitem'"], ["str", "'k1'"]]], ["tuple", [["str", "'m'"], ["str", "'iter'"]]], ["tuple", [["str", "'m'"], ["str", "'getitem'"], ["str", "'k1'"]]], ["tuple", [["str", "'m'"], ["str", "'getitem'"], ["str", "'x'"]]]]]], ["sequence", ["return", ["dict", [[["str", "'f'"], ["list", [["dict", [[["str", "'g'"], ["int", "3"]]]], ["dict", [[["str", "'h'"], ["int", "4"]]]]]]], [["str", "'i'"], ["NoneType", "None"]], [["str", "'j'"], ["str", "'text'"]], [["int", "1"], ["dict", [[["int", "2"], ["str", "'ints'"]]]]], [["str", "'n1'"], ["int", "1"]], [["str", "'n2'"], ["dict", [[["str", "'d'"], ["list", [["int", "10"], ["int", "20"], ["int", "30"]]]]]]], [["str", "'n3'"], ["dict", [[["str", "'e'"], ["int", "2"]]]]]]]]]], "key_exists": [["'a'", ["return", ["bool", "True"]]], ["'b'", ["return", ["bool", "False"]]], ["'a.b'", ["return", ["bool", "True"]]], ["'a.b.c'", ["return", ["bool", "True"]]], ["'a.b.c.d'", ["return", ["bool", "False"]]], ["'a.c'", ["return", ["bool", "False"]]], ["'a.'", ["return", ["bool", "True"]]], ["'.'", ["return", ["bool", "True"]]], ["'..'", ["return", ["bool", "False"]]], ["''", ["return", ["bool", "True"]]], ["'a.n'", ["return", ["bool", "True"]]], ["'a.n.x'", ["return", ["bool", "False"]]], ["'l'", ["return", ["bool", "True"]]], ["'l.0'", ["return", ["bool", "False"]]], ["['a']", ["return", ["bool", "True"]]], ["['a', 'b']", ["return", ["bool", "True"]]], ["['a', 'b', 'c']", ["return", ["bool", "True"]]], ["['a', 'x']", ["return", ["bool", "False"]]], ["[]", ["return", ["bool", "True"]]], ["['a.b']", ["return", ["bool", "True"]]], ["['l', 0]", ["return", ["bool", "True"]]], ["['l', 5]", ["return", ["bool", "False"]]], ["['l', '0']", ["return", ["bool", "False"]]], ["['.']", ["raise", "AttributeError", "'list' object has no attribute 'split'"]], ["['a', '.']", ["raise", "AttributeError", "'list' object has no attribute 'split'"]], ["[5]", ["return", ["bool", "True"]]], ["[None]", ["return", ["bool", "True"]]], ["[('t', 'u')]", ["return", ["bool", "True"]]], ["[['x']]", ["return", ["bool", "False"]]], ["('t', 'u')", ["return", ["bool", "True"]]], ["('a', 'b')", ["return", ["bool", "False"]]], ["('a', '.')", ["raise", "AttributeError", "'tuple' object has no attribute 'split'"]], ["('.',)", ["raise", "AttributeError", "'tuple' object has no attribute 'split'"]], ["()", ["return", ["bool", "False"]]], ["5", ["raise", "TypeError", "argument of type 'int' is not iterable"]], ["None", ["raise", "TypeError", "argument of type 'NoneType' is not iterable"]], ["1.5", ["raise", "TypeError", "argument of type 'float' is not iterable"]], ["b'a'", ["raise", "TypeError", "a bytes-like object is required, not 'str'"]], ["b'a.b'", ["raise", "TypeError", "a bytes-like object is required, not 'str'"]], ["{'a': 1}", ["return", ["bool", "False"]]], ["{'.': 1}", ["raise", "AttributeError", "'dict' object has no attribute 'split'"]], ["{'.'}", ["raise", "AttributeError", "'set' object has no attribute 'split'"]], ["frozenset({'a'})", ["return", ["bool", "False"]]], ["{}", "'a'", ["return", ["bool", "False"]]], ["{}", "'0'", ["return", ["bool", "False"]]], ["{}", "'a.b'", ["return", ["bool", "False"]]], ["{}", "[0]", ["return", ["bool", "False"]]], ["{}", "['a']", ["return", ["bool", "False"]]], ["{}", "[]", ["return", ["bool", "True"]]], ["[]", "'a'", ["return", ["bool", "False"]]], ["[]", "'0'", ["return", ["bool", "False"]]], ["[]", "'a.b'", ["return", ["bool", "False"]]], ["[]", "[0]", ["return", ["bool", "False"]]], ["[]", "['a']", ["return", ["bool", "False"]]], ["[]", "[]", ["return", ["bool", "True"]]], ["[1]", "'a'", ["return", ["bool", "False"]]], ["[1]", "'0'", ["return", ["bool", "False"]]], ["[1]", "'a.b'", ["return", ["bool", "False"]]], ["[1]", "[0]", ["return", ["bool", "True"]]], ["[1]", "['a']", ["return", ["bool", "False"]]], ["[1]", "[]", ["return", ["bool", "True"]]], ["None", "'a'", ["return", ["bool", "False"]]], ["None", "'0'", ["return", ["bool", "False"]]], ["None", "'a.b'", ["return", ["bool", "False"]]], ["None", "[0]", ["return", ["bool", "False"]]], ["None", "['a']", ["return", ["bool", "False"]]], ["None", "[]", ["return", ["bool", "True"]]], ["'abc'", "'a'", ["return", ["bool", "False"]]], ["'abc'", "'0'", ["return", ["bool", "False"]]], ["'abc'", "'a.b'", ["return", ["bool", "False"]]], ["'abc'", "[0]", ["return", ["bool", "True"]]], ["'abc'", "['a']", ["return", ["bool", "False"]]], ["'abc'", "[]", ["return", ["bool", "True"]]], ["5", "'a'", ["return", ["bool", "False"]]], ["5", "'0'", ["return", ["bool", "False"]]], ["5", "'a.b'", ["return", ["bool", "False"]]], ["5", "[0]", ["return", ["bool", "False"]]], ["5", "['a']", ["return", ["bool", "False"]]], ["5", "[]", ["return", ["bool", "True"]]], ["OrderedDict({'a': 1})", "'a'", ["return", ["bool", "True"]]], ["OrderedDict({'a': 1})", "'0'", ["return", ["bool", "False"]]], ["OrderedDict({'a': 1})", "'a.b'", ["return", ["bool", "False"]]], ["OrderedDict({'a': 1})", "[0]", ["return", ["bool", "False"]]], ["OrderedDict({'a': 1})", "['a']", ["return", ["bool", "True"]]], ["OrderedDict({'a': 1})", "[]", ["return", ["bool", "True"]]]], "fuzz": [2764, 44, "ecec7f883fb07e233fdc5c843076116f1c14a4359c96de1f014493bd5285b8af"], "public_names": ["apply_to_items", "assoc", "copy_items", "dissoc", "itemsplit", "key_exists", "keysplit", "move_items", "sentinel", "valsplit", "zip_default"]}
"""


def test_equivalent():
    expected = json.loads(EXPECTED_JSON)
    observed = json.loads(json.dumps(observe()))
    assert set(observed) == set(expected)
    for key in expected:
        assert len(observed[key]) == len(expected[key]), key
        for exp, obs in zip(expected[key], observed[key]):
            assert obs == exp, (key, exp, obs)


if __name__ == "__main__":
    if "--record" in sys.argv:
        print(json.dumps(observe(), indent=None))
    else:
        test_equivalent()
        print("refactoring 2: OK", dicttoolz.__file__)
