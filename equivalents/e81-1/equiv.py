"""Equivalence check for refactoring 1 (`ceos_alos2.sar_image.metadata.extract_attrs`).

Run as ``python equiv.py`` (or through pytest). The outcomes in ``EXPECTED`` were
recorded from the unchanged code (``python equiv.py --record``).
"""

import copy
import sys
from collections import OrderedDict

import numpy as np

from ceos_alos2.sar_image import metadata
from ceos_alos2.sar_image.file_descriptor import file_descriptor_record
from ceos_alos2.utils import to_dict

nan = float("nan")


def describe(value):
    """order- and type-sensitive description of a result"""
    if isinstance(value, dict):
        items = ", ".join(f"{describe(k)}: {describe(v)}" for k, v in value.items())
        return f"{type(value).__name__}{{{items}}}"
    if isinstance(value, (list, tuple)):
        items = ", ".join(describe(v) for v in value)
        return f"{type(value).__name__}[{items}]"
    return f"{type(value).__name__}:{value!r}"


def outcome(func, *args):
    try:
        result = func(*args)
    except BaseException as e:  # noqa: B036
        chained = type(e.__cause__).__name__ if e.__cause__ is not None else None
        return f"raises {type(e).__name__}: {e} (cause: {chained})"
    return describe(result)


def synthetic_descriptor(max_range=b"   65535", bursts=b"   5", lines=b" 123", overlap=b"  17"):
    """a 720 byte file descriptor record with the interesting fields filled in"""
    raw = bytearray(b" " * 720)
    raw[0:12] = b"\x00\x00\x00\x01\x00\xc0\x00\x12\x00\x00\x02\xd0"
    raw[180:186] = b"     3"
    raw[186:192] = b"   100"
    raw[236:244] = b"       3"
    raw[248:256] = b"      11"
    raw[268:272] = b"BSQ "
    raw[428:432] = b"C*8 "
    raw[432:436] = b"   0"
    raw[436:440] = b"   0"
    raw[440:448] = max_range
    raw[448:452] = bursts
    raw[452:456] = lines
    raw[456:460] = overlap
    return bytes(raw)


class Weird:
    """compares unequal to -1, is not a number"""

    def __repr__(self):
        return "Weird()"


cases = {
    "empty": {},
    "preamble only": {"preamble": {"maximum_data_range_of_pixel": 3}},
    "unknown only": {"a": 1, "valid_range": [0, 1], "section": {"b": 2}},
    "all known, flat": {
        "interleaving_id": "BSQ",
        "number_of_burst_data": 5,
        "number_of_lines_per_burst": 1,
        "number_of_overlap_lines_with_adjacent_bursts": 3,
        "maximum_data_range_of_pixel": 27,
    },
    "all known, reversed order": {
        "maximum_data_range_of_pixel": 27,
        "number_of_overlap_lines_with_adjacent_bursts": 3,
        "number_of_lines_per_burst": 1,
        "number_of_burst_data": 5,
        "interleaving_id": "BSQ",
    },
    "all missing": {
        "interleaving_id": "",
        "number_of_burst_data": -1,
        "number_of_lines_per_burst": -1,
        "number_of_overlap_lines_with_adjacent_bursts": -1,
        "maximum_data_range_of_pixel": -1,
    },
    "nested": {
        "preamble": {"number_of_burst_data": 99},
        "sar_related_data_in_the_record": {"interleaving_id": "BIP", "other": 1},
        "prefix_suffix_data_locators": {
            "maximum_data_range_of_pixel": 255,
            "number_of_burst_data": -1,
            "number_of_lines_per_burst": 7,
        },
        "scansar_burst_data_information": {
            "number_of_overlap_lines_with_adjacent_bursts": 0,
            "blanks": "",
        },
    },
    "nested duplicate key, last wins": {
        "a": {"number_of_burst_data": 1, "interleaving_id": "x"},
        "b": {"number_of_burst_data": 2},
        "number_of_lines_per_burst": 4,
        "c": {"number_of_lines_per_burst": -1},
    },
    "flat then nested duplicate": {
        "maximum_data_range_of_pixel": -1,
        "a": {"maximum_data_range_of_pixel": 12},
    },
    "two nesting levels": {"a": {"b": {"number_of_burst_data": 1}, "interleaving_id": "BSQ"}},
    "valid_range key collides": {
        "valid_range": "kept out",
        "maximum_data_range_of_pixel": 3,
    },
    "nan range": {"maximum_data_range_of_pixel": nan},
    "float range": {"maximum_data_range_of_pixel": 2.5},
    "inf range": {"maximum_data_range_of_pixel": float("inf")},
    "zero range": {"maximum_data_range_of_pixel": 0},
    "bool values": {"maximum_data_range_of_pixel": True, "number_of_burst_data": False},
    "minus one as float": {"number_of_burst_data": -1.0, "maximum_data_range_of_pixel": -1.0},
    "numpy scalars": {
        "maximum_data_range_of_pixel": np.int64(7),
        "number_of_burst_data": np.int32(-1),
        "number_of_lines_per_burst": np.float64(3.0),
    },
    "list values": {
        "interleaving_id": [],
        "number_of_burst_data": [1, 2],
        "number_of_lines_per_burst": [],
    },
    "tuple and empty values": {
        "interleaving_id": (),
        "number_of_burst_data": "",
        "number_of_lines_per_burst": None,
        "number_of_overlap_lines_with_adjacent_bursts": 0,
    },
    "string range": {"interleaving_id": "BSQ", "maximum_data_range_of_pixel": "12"},
    "none range": {"maximum_data_range_of_pixel": None, "number_of_burst_data": 3},
    "list range": {"maximum_data_range_of_pixel": [1]},
    "complex range": {"maximum_data_range_of_pixel": 1j},
    "weird values": {"number_of_burst_data": Weird(), "interleaving_id": Weird()},
    "weird range": {"number_of_burst_data": 1, "maximum_data_range_of_pixel": Weird()},
    "array burst": {"number_of_burst_data": np.array([1, 2])},
    "two failures, array first": {
        "number_of_burst_data": np.array([1, 2]),
        "maximum_data_range_of_pixel": "x",
    },
    "two failures, string first": {
        "maximum_data_range_of_pixel": "x",
        "number_of_burst_data": np.array([1, 2]),
    },
    "failure in ignored and unknown items": {
        "preamble": {"maximum_data_range_of_pixel": "x"},
        "unknown": "x",
        "number_of_burst_data": 1,
    },
    "non-string keys": {1: 2, None: 3, ("a",): {"number_of_burst_data": 4}},
    "ordered dict": OrderedDict(
        [("number_of_lines_per_burst", 2), ("preamble", {}), ("interleaving_id", "BSQ")]
    ),
    "not a mapping": ["preamble"],
    "none": None,
    "real descriptor": to_dict(file_descriptor_record.parse(synthetic_descriptor())),
    "real descriptor, blanks": to_dict(
        file_descriptor_record.parse(
            synthetic_descriptor(b" " * 8, b" " * 4, b" " * 4, b" " * 4),
        )
    ),
    "real descriptor, zeros": to_dict(
        file_descriptor_record.parse(synthetic_descriptor(b"       0", b"   0", b"   0", b"   0")),
    ),
}


def run_cases():
    results = {}
    for name, header in cases.items():
        before = copy.deepcopy(header)
        results[name] = outcome(metadata.extract_attrs, header)
        # the argument is never modified
        assert describe(before) == describe(header), name
    return results


def check_fresh_results():
    header = {"maximum_data_range_of_pixel": 5, "interleaving_id": "BSQ"}
    first = metadata.extract_attrs(header)
    second = metadata.extract_attrs(header)
    assert first == second == {"valid_range": [0, 5], "interleaving_id": "BSQ"}
    assert first is not second
    assert first["valid_range"] is not second["valid_range"]

    # modifying a result has no influence on later calls
    first["valid_range"].append(1)
    first["extra"] = 1
    assert metadata.extract_attrs(header) == {"valid_range": [0, 5], "interleaving_id": "BSQ"}
    assert type(metadata.extract_attrs(OrderedDict(header))) is dict


EXPECTED = {'empty': 'dict{}',
 'preamble only': 'dict{}',
 'unknown only': 'dict{}',
 'all known, flat': "dict{str:'interleaving_id': str:'BSQ', str:'number_of_burst_data': int:5, "
                    "str:'number_of_lines_per_burst': int:1, "
                    "str:'number_of_overlap_lines_with_adjacent_bursts': int:3, str:'valid_range': "
                    'list[int:0, int:27]}',
 'all known, reversed order': "dict{str:'valid_range': list[int:0, int:27], "
                              "str:'number_of_overlap_lines_with_adjacent_bursts': int:3, "
                              "str:'number_of_lines_per_burst': int:1, str:'number_of_burst_data': "
                              "int:5, str:'interleaving_id': str:'BSQ'}",
 'all missing': "dict{str:'interleaving_id': str:''}",
 'nested': "dict{str:'interleaving_id': str:'BIP', str:'valid_range': list[int:0, int:255], "
           "str:'number_of_lines_per_burst': int:7, "
           "str:'number_of_overlap_lines_with_adjacent_bursts': int:0}",
 'nested duplicate key, last wins': "dict{str:'number_of_burst_data': int:2, "
                                    "str:'interleaving_id': str:'x'}",
 'flat then nested duplicate': "dict{str:'valid_range': list[int:0, int:12]}",
 'two nesting levels': "dict{str:'interleaving_id': str:'BSQ'}",
 'valid_range key collides': "dict{str:'valid_range': list[int:0, int:3]}",
 'nan range': 'dict{}',
 'float range': "dict{str:'valid_range': list[int:0, float:2.5]}",
 'inf range': "dict{str:'valid_range': list[int:0, float:inf]}",
 'zero range': "dict{str:'valid_range': list[int:0, int:0]}",
 'bool values': "dict{str:'valid_range': list[int:0, bool:True], str:'number_of_burst_data': "
                'bool:False}',
 'minus one as float': 'dict{}',
 'numpy scalars': "dict{str:'valid_range': list[int:0, int64:np.int64(7)], "
                  "str:'number_of_lines_per_burst': float64:np.float64(3.0)}",
 'list values': "dict{str:'number_of_burst_data': list[int:1, int:2]}",
 'tuple and empty values': "dict{str:'interleaving_id': tuple[], str:'number_of_burst_data': "
                           "str:'', str:'number_of_lines_per_burst': NoneType:None, "
                           "str:'number_of_overlap_lines_with_adjacent_bursts': int:0}",
 'string range': 'raises TypeError: must be real number, not str (cause: None)',
 'none range': 'raises TypeError: must be real number, not NoneType (cause: None)',
 'list range': 'raises TypeError: must be real number, not list (cause: None)',
 'complex range': 'raises TypeError: must be real number, not complex (cause: None)',
 'weird values': "dict{str:'number_of_burst_data': Weird:Weird(), str:'interleaving_id': "
                 'Weird:Weird()}',
 'weird range': 'raises TypeError: must be real number, not Weird (cause: None)',
 'array burst': 'raises ValueError: The truth value of an array with more than one element is '
                'ambiguous. Use a.any() or a.all() (cause: None)',
 'two failures, array first': 'raises ValueError: The truth value of an array with more than one '
                              'element is ambiguous. Use a.any() or a.all() (cause: None)',
 'two failures, string first': 'raises TypeError: must be real number, not str (cause: None)',
 'failure in ignored and unknown items': "dict{str:'number_of_burst_data': int:1}",
 'non-string keys': "dict{str:'number_of_burst_data': int:4}",
 'ordered dict': "dict{str:'number_of_lines_per_burst': int:2, str:'interleaving_id': str:'BSQ'}",
 'not a mapping': "raises AttributeError: 'list' object has no attribute 'items' (cause: None)",
 'none': "raises AttributeError: 'NoneType' object has no attribute 'items' (cause: None)",
 'real descriptor': "dict{str:'interleaving_id': str:'BSQ', str:'valid_range': list[int:0, "
                    "int:65535], str:'number_of_burst_data': int:5, "
                    "str:'number_of_lines_per_burst': int:123, "
                    "str:'number_of_overlap_lines_with_adjacent_bursts': int:17}",
 'real descriptor, blanks': "dict{str:'interleaving_id': str:'BSQ'}",
 'real descriptor, zeros': "dict{str:'interleaving_id': str:'BSQ', str:'valid_range': list[int:0, "
                           "int:0], str:'number_of_burst_data': int:0, "
                           "str:'number_of_lines_per_burst': int:0, "
                           "str:'number_of_overlap_lines_with_adjacent_bursts': int:0}"}
# END EXPECTED


def test_equivalence():
    results = run_cases()
    assert list(results) == list(EXPECTED)
    for name, actual in results.items():
        assert actual == EXPECTED[name], (name, actual, EXPECTED[name])

    check_fresh_results()


if __name__ == "__main__":
    if "--record" in sys.argv:
        print(repr(run_cases()))
    else:
        test_equivalence()
        print(f"ok: {len(EXPECTED)} cases")
