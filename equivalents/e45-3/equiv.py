"""Equivalence check for refactoring 3: ceos_alos2.sar_leader.attitude.prepend_dim / transform_section.

EXPECTED was recorded from the unchanged code (HEAD); the script must pass with and
without _eq/3/patch.diff.  Run `python equiv.py` or `pytest equiv.py`.
"""
import pprint
import sys

import numpy as np

from ceos_alos2.hierarchy import Group, Variable


def canon(obj):
    """Order-, type- and value-preserving description of a result."""
    if isinstance(obj, Group):
        return ("Group", obj.path, obj.url, canon(obj.data), canon(obj.attrs))
    if isinstance(obj, Variable):
        return ("Variable", canon(obj.dims), canon(obj.data), canon(obj.attrs))
    if isinstance(obj, np.ndarray):
        return ("ndarray", str(obj.dtype), obj.shape, [str(v) for v in obj.ravel().tolist()])
    if isinstance(obj, np.generic):
        return (type(obj).__name__, str(obj.dtype), str(obj))
    if isinstance(obj, dict):
        return (type(obj).__name__, [(canon(k), canon(v)) for k, v in obj.items()])
    if isinstance(obj, (list, tuple)):
        return (type(obj).__name__, [canon(v) for v in obj])
    return (type(obj).__name__, repr(obj))


def observe(func, *args, **kwargs):
    try:
        result = func(*args, **kwargs)
    except Exception as e:  # noqa: BLE001
        return ("raises", type(e).__name__, str(e))
    return ("returns", canon(result))


def main(run_cases, expected):
    observed = [repr(o) for o in run_cases()]
    if "--record" in sys.argv:
        pprint.pprint(observed, width=100)
        return
    assert len(observed) == len(expected), (len(observed), len(expected))
    for index, (obs, exp) in enumerate(zip(observed, expected)):
        assert obs == exp, f"case {index}:\n  observed {obs}\n  expected {exp}"
    print(f"equiv OK: {len(observed)} cases")


import collections

from ceos_alos2.sar_leader import attitude
from ceos_alos2.sar_leader.structure import sar_leader_record  # noqa: F401  (import must keep working)

Pair = collections.namedtuple("Pair", ["data", "attrs"])


class MyDict(dict):
    pass


PREPEND_CASES = [
    ("points", 1),
    ("points", None),
    ("points", "abc"),
    ("points", [1, 2, 3]),
    ("points", []),
    ("points", ()),
    ("points", (1,)),
    ("points", ([1, 2], {"units": "deg"})),
    ("points", ("x", [1, 2], {})),
    ("points", Pair([1], {"a": 1})),
    ("points", np.array([1, 2], dtype="timedelta64[ns]")),
    ("points", {}),
    ("points", {"a": 1, "b": ([1], {})}),
    ("points", {"a": {"b": {"c": ([1], {"u": 1}), "d": [2]}}, "e": ()}),
    ("points", MyDict({"a": MyDict({"b": 1})})),
    (["points"], ([1], {})),
    (None, {"a": 1}),
    (("p", "q"), {"a": (1, 2, 3, 4)}),
]

SECTION_CASES = [
    {},
    {"pitch": [(1.0, {"units": "deg"}), (2.0, {"units": "deg"})]},
    {
        "pitch_error": [0, 1, 0],
        "roll_error": [1, 1, 1],
        "yaw_error": [0, 0, 0],
        "pitch": [(0.1, {"units": "deg"}), (0.2, {"units": "deg"}), (0.3, {"units": "deg"})],
        "roll": [(1.1, {"units": "deg"}), (1.2, {"units": "deg"}), (1.3, {"units": "deg"})],
        "yaw": [(2.1, {"units": "deg/s"}), (2.2, {"units": "other"}), (2.3, {})],
    },
    {"yaw": [], "yaw_error": []},
    {"roll": [1.0, 2.0], "roll_error": (0, 2, -1)},
    {"pitch": 1.0, "other": [0, 1], "time": {"day_of_year": [1]}},
    {"pitch_error": ["", "a", None, 0.0, [], [0]]},
    {"pitch_error": "ab"},
    {"roll_error": {"a": 0, "": 1}},
    {"yaw_error": iter([0, 1])},
    {"yaw_error": 1},
    {"pitch_error": None},
    {"yaw": [(1,), (2,)]},
    {"roll": [(1, {"a": 1}, "x"), (2, {"b": 1}, "y")]},
    {"roll": [(), ()]},
    None,
    [("pitch", [1])],
]

DATA_POINTS = [
    {
        "time": {"day_of_year": 100 + i, "millisecond_of_day": 86399000 - 500 * i},
        "attitude": {
            "pitch_error": i % 2,
            "roll_error": 0,
            "yaw_error": 1,
            "pitch": (0.5 * i, {"units": "deg"}),
            "roll": (1.5 * i, {"units": "deg"}),
            "yaw": (2.5 * i, {"units": "deg"}),
        },
        "rates": {
            "pitch_error": 0,
            "roll_error": (i + 1) % 2,
            "yaw_error": 0,
            "pitch": (0.1 * i, {"units": "deg/s"}),
            "roll": (0.2 * i, {"units": "deg/s"}),
            "yaw": (0.3 * i, {"units": "deg/s"}),
        },
    }
    for i in range(4)
]


def build_record(points):
    def fmt_point(point):
        t, a, r = point["time"], point["attitude"], point["rates"]
        out = f"{t['day_of_year']:4d}{t['millisecond_of_day']:8d}"
        for sec in (a, r):
            out += "".join(f"{sec[k]:4d}" for k in ("pitch_error", "roll_error", "yaw_error"))
            out += "".join(f"{sec[k][0]:14.6E}" for k in ("pitch", "roll", "yaw"))
        return out

    body = f"{len(points):4d}" + "".join(fmt_point(p) for p in points)
    length = 12 + len(body) + 20
    preamble = (3).to_bytes(4, "big") + bytes([18, 80, 18, 20]) + length.to_bytes(4, "big")
    return preamble + body.encode("ascii") + b" " * 20


def run_cases():
    results = []
    for dim, var in PREPEND_CASES:
        results.append(observe(attitude.prepend_dim, dim, var))
    for case in SECTION_CASES:
        results.append(observe(attitude.transform_section, case))
    for n in (0, 1, 4):
        results.append(observe(attitude.transform_attitude, {"data_points": DATA_POINTS[:n]}))
    # parse synthesized bytes, then transform
    from ceos_alos2.utils import to_dict

    for n in (1, 3):
        raw = build_record(DATA_POINTS[:n])
        parsed = to_dict(attitude.attitude_record.parse(raw))
        results.append(observe(attitude.transform_attitude, parsed))
    # inputs untouched, leaves kept by identity
    data = [1, 2]
    attrs = {"units": "deg"}
    source = {"a": (data, attrs), "b": data}
    out = attitude.prepend_dim("points", source)
    results.append(
        (
            "identity",
            out["a"][1] is data,
            out["a"][2] is attrs,
            out["b"][1] is data,
            out is source,
            source == {"a": (data, attrs), "b": data},
        )
    )
    flags = [0, 1]
    section = {"pitch_error": flags}
    out = attitude.transform_section(section)
    results.append(("section", out["pitch_error"] is flags, flags, out is section))
    return results


EXPECTED = ['(\'returns\', (\'tuple\', [(\'str\', "\'points\'"), (\'int\', \'1\'), (\'dict\', [])]))',
 '(\'returns\', (\'tuple\', [(\'str\', "\'points\'"), (\'NoneType\', \'None\'), (\'dict\', [])]))',
 '(\'returns\', (\'tuple\', [(\'str\', "\'points\'"), (\'str\', "\'abc\'"), (\'dict\', [])]))',
 '(\'returns\', (\'tuple\', [(\'str\', "\'points\'"), (\'list\', [(\'int\', \'1\'), (\'int\', '
 "'2'), ('int', '3')]), ('dict', [])]))",
 '(\'returns\', (\'tuple\', [(\'str\', "\'points\'"), (\'list\', []), (\'dict\', [])]))',
 '(\'returns\', (\'tuple\', [(\'str\', "\'points\'")]))',
 '(\'returns\', (\'tuple\', [(\'str\', "\'points\'"), (\'int\', \'1\')]))',
 '(\'returns\', (\'tuple\', [(\'str\', "\'points\'"), (\'list\', [(\'int\', \'1\'), (\'int\', '
 '\'2\')]), (\'dict\', [((\'str\', "\'units\'"), (\'str\', "\'deg\'"))])]))',
 '(\'returns\', (\'tuple\', [(\'str\', "\'points\'"), (\'str\', "\'x\'"), (\'list\', [(\'int\', '
 "'1'), ('int', '2')]), ('dict', [])]))",
 '(\'returns\', (\'tuple\', [(\'str\', "\'points\'"), (\'list\', [(\'int\', \'1\')]), (\'dict\', '
 '[((\'str\', "\'a\'"), (\'int\', \'1\'))])]))',
 '(\'returns\', (\'tuple\', [(\'str\', "\'points\'"), (\'ndarray\', \'timedelta64[ns]\', (2,), '
 "['1', '2']), ('dict', [])]))",
 "('returns', ('dict', []))",
 '(\'returns\', (\'dict\', [((\'str\', "\'a\'"), (\'tuple\', [(\'str\', "\'points\'"), (\'int\', '
 '\'1\'), (\'dict\', [])])), ((\'str\', "\'b\'"), (\'tuple\', [(\'str\', "\'points\'"), (\'list\', '
 "[('int', '1')]), ('dict', [])]))]))",
 '(\'returns\', (\'dict\', [((\'str\', "\'a\'"), (\'dict\', [((\'str\', "\'b\'"), (\'dict\', '
 '[((\'str\', "\'c\'"), (\'tuple\', [(\'str\', "\'points\'"), (\'list\', [(\'int\', \'1\')]), '
 '(\'dict\', [((\'str\', "\'u\'"), (\'int\', \'1\'))])])), ((\'str\', "\'d\'"), (\'tuple\', '
 '[(\'str\', "\'points\'"), (\'list\', [(\'int\', \'2\')]), (\'dict\', [])]))]))])), ((\'str\', '
 '"\'e\'"), (\'tuple\', [(\'str\', "\'points\'")]))]))',
 '(\'returns\', (\'dict\', [((\'str\', "\'a\'"), (\'dict\', [((\'str\', "\'b\'"), (\'tuple\', '
 '[(\'str\', "\'points\'"), (\'int\', \'1\'), (\'dict\', [])]))]))]))',
 '(\'returns\', (\'tuple\', [(\'list\', [(\'str\', "\'points\'")]), (\'list\', [(\'int\', '
 "'1')]), ('dict', [])]))",
 '(\'returns\', (\'dict\', [((\'str\', "\'a\'"), (\'tuple\', [(\'NoneType\', \'None\'), (\'int\', '
 "'1'), ('dict', [])]))]))",
 '(\'returns\', (\'dict\', [((\'str\', "\'a\'"), (\'tuple\', [(\'tuple\', [(\'str\', "\'p\'"), '
 '(\'str\', "\'q\'")]), (\'int\', \'1\'), (\'int\', \'2\'), (\'int\', \'3\'), (\'int\', '
 "'4')]))]))",
 "('returns', ('dict', []))",
 '(\'returns\', (\'dict\', [((\'str\', "\'pitch\'"), (\'tuple\', [(\'list\', [(\'float\', '
 '\'1.0\'), (\'float\', \'2.0\')]), (\'dict\', [((\'str\', "\'units\'"), (\'str\', '
 '"\'deg\'"))])]))]))',
 '(\'returns\', (\'dict\', [((\'str\', "\'pitch_error\'"), (\'list\', [(\'bool\', \'False\'), '
 '(\'bool\', \'True\'), (\'bool\', \'False\')])), ((\'str\', "\'roll_error\'"), (\'list\', '
 "[('bool', 'True'), ('bool', 'True'), ('bool', 'True')])), (('str', "
 '"\'yaw_error\'"), (\'list\', [(\'bool\', \'False\'), (\'bool\', \'False\'), (\'bool\', '
 '\'False\')])), ((\'str\', "\'pitch\'"), (\'tuple\', [(\'list\', [(\'float\', \'0.1\'), '
 '(\'float\', \'0.2\'), (\'float\', \'0.3\')]), (\'dict\', [((\'str\', "\'units\'"), (\'str\', '
 '"\'deg\'"))])])), ((\'str\', "\'roll\'"), (\'tuple\', [(\'list\', [(\'float\', \'1.1\'), '
 '(\'float\', \'1.2\'), (\'float\', \'1.3\')]), (\'dict\', [((\'str\', "\'units\'"), (\'str\', '
 '"\'deg\'"))])])), ((\'str\', "\'yaw\'"), (\'tuple\', [(\'list\', [(\'float\', \'2.1\'), '
 '(\'float\', \'2.2\'), (\'float\', \'2.3\')]), (\'dict\', [((\'str\', "\'units\'"), (\'str\', '
 '"\'deg/s\'"))])]))]))',
 '(\'returns\', (\'dict\', [((\'str\', "\'yaw\'"), (\'tuple\', [(\'list\', []), (\'dict\', [])])), '
 '((\'str\', "\'yaw_error\'"), (\'list\', []))]))',
 '(\'returns\', (\'dict\', [((\'str\', "\'roll\'"), (\'tuple\', [(\'list\', [(\'float\', \'1.0\'), '
 '(\'float\', \'2.0\')]), (\'dict\', [])])), ((\'str\', "\'roll_error\'"), (\'list\', [(\'bool\', '
 "'False'), ('bool', 'True'), ('bool', 'True')]))]))",
 '(\'returns\', (\'dict\', [((\'str\', "\'pitch\'"), (\'tuple\', [(\'float\', \'1.0\'), (\'dict\', '
 '[])])), ((\'str\', "\'other\'"), (\'list\', [(\'int\', \'0\'), (\'int\', \'1\')])), ((\'str\', '
 '"\'time\'"), (\'dict\', [((\'str\', "\'day_of_year\'"), (\'list\', [(\'int\', \'1\')]))]))]))',
 '(\'returns\', (\'dict\', [((\'str\', "\'pitch_error\'"), (\'list\', [(\'bool\', \'False\'), '
 "('bool', 'True'), ('bool', 'False'), ('bool', 'False'), ('bool', 'False'), ('bool', "
 "'True')]))]))",
 '(\'returns\', (\'dict\', [((\'str\', "\'pitch_error\'"), (\'list\', [(\'bool\', \'True\'), '
 "('bool', 'True')]))]))",
 '(\'returns\', (\'dict\', [((\'str\', "\'roll_error\'"), (\'list\', [(\'bool\', \'True\'), '
 "('bool', 'False')]))]))",
 '(\'returns\', (\'dict\', [((\'str\', "\'yaw_error\'"), (\'list\', [(\'bool\', \'False\'), '
 "('bool', 'True')]))]))",
 '(\'raises\', \'TypeError\', "\'int\' object is not iterable")',
 '(\'raises\', \'TypeError\', "\'NoneType\' object is not iterable")',
 "('raises', 'ValueError', 'not enough values to unpack (expected 2, got 1)')",
 "('raises', 'ValueError', 'too many values to unpack (expected 2)')",
 "('raises', 'ValueError', 'not enough values to unpack (expected 2, got 0)')",
 '(\'raises\', \'AttributeError\', "\'NoneType\' object has no attribute \'items\'")',
 '(\'raises\', \'AttributeError\', "\'list\' object has no attribute \'items\'")',
 '(\'raises\', \'AttributeError\', "\'list\' object has no attribute \'keys\'")',
 '(\'returns\', (\'Group\', \'/\', None, (\'dict\', [((\'str\', "\'attitude\'"), (\'Group\', '
 '\'/attitude\', None, (\'dict\', [((\'str\', "\'pitch_error\'"), (\'Variable\', (\'list\', '
 '[(\'str\', "\'points\'")]), (\'list\', [(\'bool\', \'False\')]), (\'dict\', []))), ((\'str\', '
 '"\'roll_error\'"), (\'Variable\', (\'list\', [(\'str\', "\'points\'")]), (\'list\', [(\'bool\', '
 '\'False\')]), (\'dict\', []))), ((\'str\', "\'yaw_error\'"), (\'Variable\', (\'list\', '
 '[(\'str\', "\'points\'")]), (\'list\', [(\'bool\', \'True\')]), (\'dict\', []))), ((\'str\', '
 '"\'pitch\'"), (\'Variable\', (\'list\', [(\'str\', "\'points\'")]), (\'list\', [(\'float\', '
 '\'0.0\')]), (\'dict\', [((\'str\', "\'units\'"), (\'str\', "\'deg\'"))]))), ((\'str\', '
 '"\'roll\'"), (\'Variable\', (\'list\', [(\'str\', "\'points\'")]), (\'list\', [(\'float\', '
 '\'0.0\')]), (\'dict\', [((\'str\', "\'units\'"), (\'str\', "\'deg\'"))]))), ((\'str\', '
 '"\'yaw\'"), (\'Variable\', (\'list\', [(\'str\', "\'points\'")]), (\'list\', [(\'float\', '
 '\'0.0\')]), (\'dict\', [((\'str\', "\'units\'"), (\'str\', "\'deg\'"))]))), ((\'str\', '
 '"\'time\'"), (\'Variable\', (\'list\', [(\'str\', "\'points\'")]), (\'ndarray\', '
 "'timedelta64[ns]', (1,), ['8726399000000000']), ('dict', [])))]), ('dict', [(('str', "
 '"\'coordinates\'"), (\'list\', [(\'str\', "\'time\'")]))]))), ((\'str\', "\'rates\'"), '
 '(\'Group\', \'/rates\', None, (\'dict\', [((\'str\', "\'pitch_error\'"), (\'Variable\', '
 '(\'list\', [(\'str\', "\'points\'")]), (\'list\', [(\'bool\', \'False\')]), (\'dict\', []))), '
 '((\'str\', "\'roll_error\'"), (\'Variable\', (\'list\', [(\'str\', "\'points\'")]), (\'list\', '
 '[(\'bool\', \'True\')]), (\'dict\', []))), ((\'str\', "\'yaw_error\'"), (\'Variable\', '
 '(\'list\', [(\'str\', "\'points\'")]), (\'list\', [(\'bool\', \'False\')]), (\'dict\', []))), '
 '((\'str\', "\'pitch\'"), (\'Variable\', (\'list\', [(\'str\', "\'points\'")]), (\'list\', '
 '[(\'float\', \'0.0\')]), (\'dict\', [((\'str\', "\'units\'"), (\'str\', "\'deg/s\'"))]))), '
 '((\'str\', "\'roll\'"), (\'Variable\', (\'list\', [(\'str\', "\'points\'")]), (\'list\', '
 '[(\'float\', \'0.0\')]), (\'dict\', [((\'str\', "\'units\'"), (\'str\', "\'deg/s\'"))]))), '
 '((\'str\', "\'yaw\'"), (\'Variable\', (\'list\', [(\'str\', "\'points\'")]), (\'list\', '
 '[(\'float\', \'0.0\')]), (\'dict\', [((\'str\', "\'units\'"), (\'str\', "\'deg/s\'"))]))), '
 '((\'str\', "\'time\'"), (\'Variable\', (\'list\', [(\'str\', "\'points\'")]), (\'ndarray\', '
 "'timedelta64[ns]', (1,), ['8726399000000000']), ('dict', [])))]), ('dict', [(('str', "
 '"\'coordinates\'"), (\'list\', [(\'str\', "\'time\'")]))])))]), (\'dict\', [])))',
 '(\'returns\', (\'Group\', \'/\', None, (\'dict\', [((\'str\', "\'attitude\'"), (\'Group\', '
 '\'/attitude\', None, (\'dict\', [((\'str\', "\'pitch_error\'"), (\'Variable\', (\'list\', '
 '[(\'str\', "\'points\'")]), (\'list\', [(\'bool\', \'False\'), (\'bool\', \'True\'), (\'bool\', '
 '\'False\'), (\'bool\', \'True\')]), (\'dict\', []))), ((\'str\', "\'roll_error\'"), '
 '(\'Variable\', (\'list\', [(\'str\', "\'points\'")]), (\'list\', [(\'bool\', \'False\'), '
 "('bool', 'False'), ('bool', 'False'), ('bool', 'False')]), ('dict', []))), (('str', "
 '"\'yaw_error\'"), (\'Variable\', (\'list\', [(\'str\', "\'points\'")]), (\'list\', [(\'bool\', '
 "'True'), ('bool', 'True'), ('bool', 'True'), ('bool', 'True')]), ('dict', []))), (('str', "
 '"\'pitch\'"), (\'Variable\', (\'list\', [(\'str\', "\'points\'")]), (\'list\', [(\'float\', '
 "'0.0'), ('float', '0.5'), ('float', '1.0'), ('float', '1.5')]), ('dict', [(('str', "
 '"\'units\'"), (\'str\', "\'deg\'"))]))), ((\'str\', "\'roll\'"), (\'Variable\', (\'list\', '
 '[(\'str\', "\'points\'")]), (\'list\', [(\'float\', \'0.0\'), (\'float\', \'1.5\'), (\'float\', '
 '\'3.0\'), (\'float\', \'4.5\')]), (\'dict\', [((\'str\', "\'units\'"), (\'str\', '
 '"\'deg\'"))]))), ((\'str\', "\'yaw\'"), (\'Variable\', (\'list\', [(\'str\', "\'points\'")]), '
 "('list', [('float', '0.0'), ('float', '2.5'), ('float', '5.0'), ('float', '7.5')]), ('dict', "
 '[((\'str\', "\'units\'"), (\'str\', "\'deg\'"))]))), ((\'str\', "\'time\'"), (\'Variable\', '
 '(\'list\', [(\'str\', "\'points\'")]), (\'ndarray\', \'timedelta64[ns]\', (4,), '
 "['8726399000000000', '8812798500000000', '8899198000000000', '8985597500000000']), ('dict', "
 '[])))]), (\'dict\', [((\'str\', "\'coordinates\'"), (\'list\', [(\'str\', "\'time\'")]))]))), '
 '((\'str\', "\'rates\'"), (\'Group\', \'/rates\', None, (\'dict\', [((\'str\', '
 '"\'pitch_error\'"), (\'Variable\', (\'list\', [(\'str\', "\'points\'")]), (\'list\', [(\'bool\', '
 "'False'), ('bool', 'False'), ('bool', 'False'), ('bool', 'False')]), ('dict', []))), (('str', "
 '"\'roll_error\'"), (\'Variable\', (\'list\', [(\'str\', "\'points\'")]), (\'list\', [(\'bool\', '
 "'True'), ('bool', 'False'), ('bool', 'True'), ('bool', 'False')]), ('dict', []))), (('str', "
 '"\'yaw_error\'"), (\'Variable\', (\'list\', [(\'str\', "\'points\'")]), (\'list\', [(\'bool\', '
 "'False'), ('bool', 'False'), ('bool', 'False'), ('bool', 'False')]), ('dict', []))), (('str', "
 '"\'pitch\'"), (\'Variable\', (\'list\', [(\'str\', "\'points\'")]), (\'list\', [(\'float\', '
 "'0.0'), ('float', '0.1'), ('float', '0.2'), ('float', '0.30000000000000004')]), ('dict', "
 '[((\'str\', "\'units\'"), (\'str\', "\'deg/s\'"))]))), ((\'str\', "\'roll\'"), (\'Variable\', '
 '(\'list\', [(\'str\', "\'points\'")]), (\'list\', [(\'float\', \'0.0\'), (\'float\', \'0.2\'), '
 "('float', '0.4'), ('float', '0.6000000000000001')]), ('dict', [(('str', "
 '"\'units\'"), (\'str\', "\'deg/s\'"))]))), ((\'str\', "\'yaw\'"), (\'Variable\', (\'list\', '
 '[(\'str\', "\'points\'")]), (\'list\', [(\'float\', \'0.0\'), (\'float\', \'0.3\'), (\'float\', '
 '\'0.6\'), (\'float\', \'0.8999999999999999\')]), (\'dict\', [((\'str\', "\'units\'"), (\'str\', '
 '"\'deg/s\'"))]))), ((\'str\', "\'time\'"), (\'Variable\', (\'list\', [(\'str\', "\'points\'")]), '
 "('ndarray', 'timedelta64[ns]', (4,), ['8726399000000000', '8812798500000000', "
 "'8899198000000000', '8985597500000000']), ('dict', [])))]), ('dict', [(('str', "
 '"\'coordinates\'"), (\'list\', [(\'str\', "\'time\'")]))])))]), (\'dict\', [])))',
 '(\'returns\', (\'Group\', \'/\', None, (\'dict\', [((\'str\', "\'attitude\'"), (\'Group\', '
 '\'/attitude\', None, (\'dict\', [((\'str\', "\'pitch_error\'"), (\'Variable\', (\'list\', '
 '[(\'str\', "\'points\'")]), (\'list\', [(\'bool\', \'False\')]), (\'dict\', []))), ((\'str\', '
 '"\'roll_error\'"), (\'Variable\', (\'list\', [(\'str\', "\'points\'")]), (\'list\', [(\'bool\', '
 '\'False\')]), (\'dict\', []))), ((\'str\', "\'yaw_error\'"), (\'Variable\', (\'list\', '
 '[(\'str\', "\'points\'")]), (\'list\', [(\'bool\', \'True\')]), (\'dict\', []))), ((\'str\', '
 '"\'pitch\'"), (\'Variable\', (\'list\', [(\'str\', "\'points\'")]), (\'list\', [(\'float\', '
 '\'0.0\')]), (\'dict\', [((\'str\', "\'units\'"), (\'str\', "\'deg\'"))]))), ((\'str\', '
 '"\'roll\'"), (\'Variable\', (\'list\', [(\'str\', "\'points\'")]), (\'list\', [(\'float\', '
 '\'0.0\')]), (\'dict\', [((\'str\', "\'units\'"), (\'str\', "\'deg\'"))]))), ((\'str\', '
 '"\'yaw\'"), (\'Variable\', (\'list\', [(\'str\', "\'points\'")]), (\'list\', [(\'float\', '
 '\'0.0\')]), (\'dict\', [((\'str\', "\'units\'"), (\'str\', "\'deg\'"))]))), ((\'str\', '
 '"\'time\'"), (\'Variable\', (\'list\', [(\'str\', "\'points\'")]), (\'ndarray\', '
 "'timedelta64[ns]', (1,), ['8726399000000000']), ('dict', [])))]), ('dict', [(('str', "
 '"\'coordinates\'"), (\'list\', [(\'str\', "\'time\'")]))]))), ((\'str\', "\'rates\'"), '
 '(\'Group\', \'/rates\', None, (\'dict\', [((\'str\', "\'pitch_error\'"), (\'Variable\', '
 '(\'list\', [(\'str\', "\'points\'")]), (\'list\', [(\'bool\', \'False\')]), (\'dict\', []))), '
 '((\'str\', "\'roll_error\'"), (\'Variable\', (\'list\', [(\'str\', "\'points\'")]), (\'list\', '
 '[(\'bool\', \'True\')]), (\'dict\', []))), ((\'str\', "\'yaw_error\'"), (\'Variable\', '
 '(\'list\', [(\'str\', "\'points\'")]), (\'list\', [(\'bool\', \'False\')]), (\'dict\', []))), '
 '((\'str\', "\'pitch\'"), (\'Variable\', (\'list\', [(\'str\', "\'points\'")]), (\'list\', '
 '[(\'float\', \'0.0\')]), (\'dict\', [((\'str\', "\'units\'"), (\'str\', "\'deg/s\'"))]))), '
 '((\'str\', "\'roll\'"), (\'Variable\', (\'list\', [(\'str\', "\'points\'")]), (\'list\', '
 '[(\'float\', \'0.0\')]), (\'dict\', [((\'str\', "\'units\'"), (\'str\', "\'deg/s\'"))]))), '
 '((\'str\', "\'yaw\'"), (\'Variable\', (\'list\', [(\'str\', "\'points\'")]), (\'list\', '
 '[(\'float\', \'0.0\')]), (\'dict\', [((\'str\', "\'units\'"), (\'str\', "\'deg/s\'"))]))), '
 '((\'str\', "\'time\'"), (\'Variable\', (\'list\', [(\'str\', "\'points\'")]), (\'ndarray\', '
 "'timedelta64[ns]', (1,), ['8726399000000000']), ('dict', [])))]), ('dict', [(('str', "
 '"\'coordinates\'"), (\'list\', [(\'str\', "\'time\'")]))])))]), (\'dict\', [])))',
 '(\'returns\', (\'Group\', \'/\', None, (\'dict\', [((\'str\', "\'attitude\'"), (\'Group\', '
 '\'/attitude\', None, (\'dict\', [((\'str\', "\'pitch_error\'"), (\'Variable\', (\'list\', '
 '[(\'str\', "\'points\'")]), (\'list\', [(\'bool\', \'False\'), (\'bool\', \'True\'), (\'bool\', '
 '\'False\')]), (\'dict\', []))), ((\'str\', "\'roll_error\'"), (\'Variable\', (\'list\', '
 '[(\'str\', "\'points\'")]), (\'list\', [(\'bool\', \'False\'), (\'bool\', \'False\'), (\'bool\', '
 '\'False\')]), (\'dict\', []))), ((\'str\', "\'yaw_error\'"), (\'Variable\', (\'list\', '
 '[(\'str\', "\'points\'")]), (\'list\', [(\'bool\', \'True\'), (\'bool\', \'True\'), (\'bool\', '
 '\'True\')]), (\'dict\', []))), ((\'str\', "\'pitch\'"), (\'Variable\', (\'list\', [(\'str\', '
 '"\'points\'")]), (\'list\', [(\'float\', \'0.0\'), (\'float\', \'0.5\'), (\'float\', \'1.0\')]), '
 '(\'dict\', [((\'str\', "\'units\'"), (\'str\', "\'deg\'"))]))), ((\'str\', "\'roll\'"), '
 '(\'Variable\', (\'list\', [(\'str\', "\'points\'")]), (\'list\', [(\'float\', \'0.0\'), '
 '(\'float\', \'1.5\'), (\'float\', \'3.0\')]), (\'dict\', [((\'str\', "\'units\'"), (\'str\', '
 '"\'deg\'"))]))), ((\'str\', "\'yaw\'"), (\'Variable\', (\'list\', [(\'str\', "\'points\'")]), '
 "('list', [('float', '0.0'), ('float', '2.5'), ('float', '5.0')]), ('dict', [(('str', "
 '"\'units\'"), (\'str\', "\'deg\'"))]))), ((\'str\', "\'time\'"), (\'Variable\', (\'list\', '
 '[(\'str\', "\'points\'")]), (\'ndarray\', \'timedelta64[ns]\', (3,), [\'8726399000000000\', '
 "'8812798500000000', '8899198000000000']), ('dict', [])))]), ('dict', [(('str', "
 '"\'coordinates\'"), (\'list\', [(\'str\', "\'time\'")]))]))), ((\'str\', "\'rates\'"), '
 '(\'Group\', \'/rates\', None, (\'dict\', [((\'str\', "\'pitch_error\'"), (\'Variable\', '
 '(\'list\', [(\'str\', "\'points\'")]), (\'list\', [(\'bool\', \'False\'), (\'bool\', \'False\'), '
 '(\'bool\', \'False\')]), (\'dict\', []))), ((\'str\', "\'roll_error\'"), (\'Variable\', '
 '(\'list\', [(\'str\', "\'points\'")]), (\'list\', [(\'bool\', \'True\'), (\'bool\', \'False\'), '
 '(\'bool\', \'True\')]), (\'dict\', []))), ((\'str\', "\'yaw_error\'"), (\'Variable\', (\'list\', '
 '[(\'str\', "\'points\'")]), (\'list\', [(\'bool\', \'False\'), (\'bool\', \'False\'), (\'bool\', '
 '\'False\')]), (\'dict\', []))), ((\'str\', "\'pitch\'"), (\'Variable\', (\'list\', [(\'str\', '
 '"\'points\'")]), (\'list\', [(\'float\', \'0.0\'), (\'float\', \'0.1\'), (\'float\', \'0.2\')]), '
 '(\'dict\', [((\'str\', "\'units\'"), (\'str\', "\'deg/s\'"))]))), ((\'str\', "\'roll\'"), '
 '(\'Variable\', (\'list\', [(\'str\', "\'points\'")]), (\'list\', [(\'float\', \'0.0\'), '
 '(\'float\', \'0.2\'), (\'float\', \'0.4\')]), (\'dict\', [((\'str\', "\'units\'"), (\'str\', '
 '"\'deg/s\'"))]))), ((\'str\', "\'yaw\'"), (\'Variable\', (\'list\', [(\'str\', "\'points\'")]), '
 "('list', [('float', '0.0'), ('float', '0.3'), ('float', '0.6')]), ('dict', [(('str', "
 '"\'units\'"), (\'str\', "\'deg/s\'"))]))), ((\'str\', "\'time\'"), (\'Variable\', (\'list\', '
 '[(\'str\', "\'points\'")]), (\'ndarray\', \'timedelta64[ns]\', (3,), [\'8726399000000000\', '
 "'8812798500000000', '8899198000000000']), ('dict', [])))]), ('dict', [(('str', "
 '"\'coordinates\'"), (\'list\', [(\'str\', "\'time\'")]))])))]), (\'dict\', [])))',
 "('identity', True, True, True, False, True)",
 "('section', False, [0, 1], False)"]


def test_equivalence():
    main(run_cases, EXPECTED)


if __name__ == "__main__":
    main(run_cases, EXPECTED)
