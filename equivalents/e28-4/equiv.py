"""Equivalence check for refactoring 4 (sar_leader/facility_related_data.py:
transform_group / transform_record5).

Run as a script (`python equiv.py`) or through pytest.  `python equiv.py --record`
prints the outcomes computed by the code that is currently importable; the
EXPECTED table below was recorded that way from the UNCHANGED code (HEAD).
"""

import collections
import copy
import json
import struct
import sys
import types

import numpy as np

from ceos_alos2.hierarchy import Group, Variable
from ceos_alos2.sar_leader import facility_related_data as frd
from ceos_alos2.sar_leader.metadata import transform_metadata
from ceos_alos2.utils import to_dict


# --------------------------------------------------------------------------- harness
def canon(obj):
    """Type- and order-preserving rendering of a result."""
    if isinstance(obj, Group):
        return (
            f"Group(path={canon(obj.path)}, url={canon(obj.url)},"
            f" data={canon(obj.data)}, attrs={canon(obj.attrs)})"
        )
    if isinstance(obj, Variable):
        return f"Variable({canon(obj.dims)}, {canon(obj.data)}, {canon(obj.attrs)})"
    if isinstance(obj, np.ndarray):
        return f"ndarray({obj.dtype.str}, {obj.shape}, {obj.tolist()!r})"
    if isinstance(obj, dict):
        items = ", ".join(f"{canon(k)}: {canon(v)}" for k, v in obj.items())
        return f"{type(obj).__name__}{{{items}}}"
    if isinstance(obj, (list, tuple)):
        items = ", ".join(canon(v) for v in obj)
        return f"{type(obj).__name__}[{items}]"
    return f"{type(obj).__name__}:{obj!r}"


def outcome(func, *args):
    try:
        args_before = copy.deepcopy(args)
    except TypeError:  # e.g. mappingproxy
        args_before = args = tuple(args)
    try:
        result = func(*args)
    except Exception as e:  # noqa: BLE001
        cause = type(e.__cause__).__name__ if e.__cause__ is not None else None
        rendered = f"EXC {type(e).__name__}: {e} (cause: {cause})"
    else:
        rendered = "OK " + canon(result)
    mutated = canon(args_before) != canon(args)
    return rendered + (" [INPUT MUTATED]" if mutated else "")


# --------------------------------------------------------------------------- byte synthesis
def field(value, width):
    if isinstance(value, float):
        text = f"{value:.9E}".rjust(width)
    elif isinstance(value, int):
        text = str(value).rjust(width)
    else:
        text = str(value).ljust(width)
    assert len(text) == width, (value, width)
    return text.encode("ascii")


def floats(n, start, step=0.125):
    return b"".join(field(start + i * step, 20) for i in range(n))


def record5_bytes(*, flag=1, prf=1, loss=(3, 4), blank_floats=False, reserve="reserved"):
    blank = lambda n: b" " * (20 * n)  # noqa: E731
    parts = [
        struct.pack(">IBBBBI", 17, 18, 200, 18, 70, 5000),
        field(5, 4),
        blank(10) if blank_floats else floats(10, 1.0),
        floats(10, -2.0),
        field(flag, 4),
        field(11, 8),
        field(22, 8),
        field(33, 8),
        field(44, 8),
        field(prf, 4),
        field(555, 8),
        field("", 8),
        field(loss[0], 8),
        field(loss[1], 8),
        field("", 312),
        field(reserve, 224),
        floats(25, 100.0),
        blank(25) if blank_floats else floats(25, -100.0),
        field(1.5, 20),
        field(2.5, 20),
        floats(25, 0.001, step=1e-7),
        floats(25, 1e10, step=1e3),
        field(35.25, 20),
        field(139.75, 20),
        field("", 1896),
    ]
    data = b"".join(parts)
    assert len(data) == 5000, len(data)
    return data


def parse5(**kwargs):
    return to_dict(frd.facility_related_data_5_record.parse(record5_bytes(**kwargs)))


def auxiliary_bytes(sequence_number, payload=b"payload"):
    length = 12 + 4 + 50 + len(payload)
    return struct.pack(">IBBBBI", 13, 18, 200, 18, 70, length) + field(sequence_number, 4) + field("", 50) + payload


# --------------------------------------------------------------------------- cases
GROUP_INPUTS = {
    "array": (({"a": [1, 2]}, {"u": "v"}), "dim"),
    "scalar": (({"b": 1.0}, {}), "dim"),
    "mixed-keeps-order": (({"z": [1.0], "a": 2, "m": [], "b": "text"}, {"formula": "f"}), "coeffs"),
    "empty": (({}, {}), "dim"),
    "empty-list-value": (({"a": []}, {}), "dim"),
    "nested-list-value": (({"a": [[1, 2], [3]]}, {}), "dim"),
    "tuple-value-is-scalar": (({"a": (1, 2)}, {}), "dim"),
    "dict-value-is-scalar": (({"a": {"x": [1]}}, {}), "dim"),
    "none-value": (({"a": None}, None), "dim"),
    "list-subclass-value": (({"a": collections.UserList([1]), "b": type("L", (list,), {})([1, 2])}, {}), "dim"),
    "ndarray-value-is-scalar": (({"a": np.arange(3)}, {}), "dim"),
    "dim-list": (({"a": [1], "b": 2}, {}), ["x", "y"]),
    "dim-tuple": (({"a": [1], "b": 2}, {}), ("x",)),
    "dim-empty-tuple": (({"a": [1], "b": 2}, {}), ()),
    "dim-none": (({"a": [1], "b": 2}, {}), None),
    "dim-int": (({"a": [1]}, {}), 3),
    "attrs-anything": (({"a": [1]}, [1, 2, 3]), "dim"),
    "non-string-keys": (({1: [1], None: 2, (1, 2): [3]}, {}), "dim"),
    "ordered-dict": ((collections.OrderedDict([("b", [1]), ("a", 2)]), collections.OrderedDict(x=1)), "dim"),
    "mapping-proxy": ((types.MappingProxyType({"b": [1], "a": 2}), {}), "dim"),
    "pair-as-list": ([{"a": [1]}, {"x": 1}], "dim"),
    "pair-from-dict-keys": ({"a": 1, "b": 2}, "dim"),
    "pair-from-string": ("ab", "dim"),
    "three-tuple": (({"a": 1}, {}, {}), "dim"),
    "one-tuple": (({"a": 1},), "dim"),
    "empty-tuple": ((), "dim"),
    "bare-dict-one-key": ({"a": [1]}, "dim"),
    "none": (None, "dim"),
    "int": (3, "dim"),
    "variables-none": ((None, {}), "dim"),
    "variables-list": (([("a", 1)], {}), "dim"),
    "variables-string": (("abc", {}), "dim"),
}

PARSED = parse5()

RECORD5_INPUTS = {
    "empty": {},
    "parsed": PARSED,
    "parsed-no-calibration": parse5(flag=0, prf=0, loss=(0, 0)),
    "parsed-flag-3-blank-numbers": parse5(flag=3, prf="", loss=("", "")),
    "parsed-blank-floats": parse5(blank_floats=True),
    "ignored": {
        "preamble": {},
        "spare11": "",
        "blanks4": "",
        "record_sequence_number": 1,
        "system_reserve": "",
    },
    "spares-variants": {
        "spare": 1,
        "spare1": 2,
        "spares": 3,
        "spare_x": 4,
        "blanks": 5,
        "blanks12": 6,
        "blanksx": 7,
        "blank": 8,
        "spare1a": 9,
        "Spare": 10,
    },
    "nested-spares-and-ignored-names": {
        "sub": {"spare1": 1, "preamble": 2, "keep": 3, "subsub": {"blanks": 4, "system_reserve": 5}},
        "items": [{"spare": 1, "x": 2}, {"blanks9": 3, "x": 4}],
    },
    "flag-0": {"prf_switching_flag": 0},
    "flag-1": {"prf_switching_flag": 1},
    "flag-minus-1": {"prf_switching_flag": -1},
    "flag-none": {"prf_switching_flag": None},
    "flag-empty-string": {"prf_switching_flag": ""},
    "flag-string": {"prf_switching_flag": "0"},
    "flag-list": {"prf_switching_flag": []},
    "flag-already-renamed": {"prf_switching": 0},
    "flag-collision-1": {"prf_switching_flag": 0, "x": 1, "prf_switching": "kept?"},
    "flag-collision-2": {"prf_switching": "kept?", "x": 1, "prf_switching_flag": 0},
    "projected": {"conversion_from_map_projection_to_pixel": ({"a": [1, 2], "b": [3, 4]}, {"a": "b"})},
    "image-to-geographic": {"conversion_from_pixel_to_geographic": ({"a": [1, 2], "b": 1.0}, {"d": "e"})},
    "geographic-to-image": {"conversion_from_geographic_to_pixel": ({"c": [1, 2], "d": 1.0}, {"f": "e"})},
    "all-three-reversed": {
        "conversion_from_geographic_to_pixel": ({"c": [1.0], "origin_latitude": 1.0}, {"formula": "g"}),
        "k": 1,
        "conversion_from_pixel_to_geographic": ({"a": [2.0], "origin_pixel": 2.0}, {"formula": "p"}),
        "conversion_from_map_projection_to_pixel": ({"a": [3.0], "b": [4.0]}, {"formula": "m"}),
    },
    "conversion-empty": {"conversion_from_pixel_to_geographic": ({}, {})},
    "conversion-spare-inside": {
        "conversion_from_pixel_to_geographic": ({"a": [1], "spare": 2, "blanks1": [3]}, {"spare": "kept"})
    },
    "conversion-renamed-name-untouched": {"projected_to_image": ({"a": [1, 2]}, {"x": 1})},
    "conversion-collision": {
        "conversion_from_pixel_to_geographic": ({"a": [1]}, {"n": 1}),
        "image_to_geographic": ({"a": [2]}, {"n": 2}),
    },
    "conversion-not-a-pair": {"conversion_from_pixel_to_geographic": {"a": [1, 2]}},
    "conversion-three-tuple": {"conversion_from_geographic_to_pixel": ({"a": [1]}, {}, {})},
    "conversion-none": {"x": 1, "conversion_from_map_projection_to_pixel": None},
    "conversion-list-pair": {"conversion_from_map_projection_to_pixel": [{"a": [1]}, {"f": 1}]},
    "conversion-list-of-dicts": {"conversion_from_map_projection_to_pixel": [{"a": 1}, {"spare": 2, "b": 3}]},
    "conversion-variables-none": {"conversion_from_pixel_to_geographic": (None, {})},
    "first-error-wins": {
        "conversion_from_pixel_to_geographic": 1,
        "conversion_from_geographic_to_pixel": "ab",
    },
    "first-error-wins-reversed": {
        "conversion_from_geographic_to_pixel": "ab",
        "conversion_from_pixel_to_geographic": 1,
    },
    "subgroups": {
        "calibration_at_upper_image": {"start_line_number": 1, "end_line_number": 2},
        "number_of_loss_lines": {"level1.0": 3, "others": 4},
        "calibration_mode_data_location_flag": "side_of_observation_start",
    },
    "unknown-entries": {"scalar": 1.5, "text": "t", "none": None, "group": {"a": 1, "g": {"b": [1]}}},
    "unknown-variable-pair": {"v": ([1, 2], {"units": "m"})},
    "unknown-variable-triple": {"v": ("x", [1, 2], {"units": "m"})},
    "unknown-list": {"values": [1, 2]},
    "unknown-list-of-three": {"values": [1, 2, 3]},
    "unknown-empty-list": {"values": []},
    "unknown-tuple-of-dict": {"g": ({"a": 1, "v": [1, 2, 3]}, {"extra": 1})},
    "unknown-empty-tuple": {"t": ()},
    "non-string-keys": {1: 2},
    "ordered-dict": collections.OrderedDict([("prf_switching_flag", 1), ("spare1", 0), ("k", 2)]),
    "none": None,
    "list": [{"prf_switching_flag": 1}],
    "tuple-pair": ({"prf_switching_flag": 1}, {"extra": "attrs"}),
    "string": "preamble",
    "int": 3,
}


def through_metadata(record5):
    return transform_metadata({"facility_related_data_5": record5})


def identities():
    values = [1, 2]
    scalar = object()
    attrs = {"u": "v"}
    variables = {"a": values, "b": scalar}
    new_variables, new_attrs = frd.transform_group((variables, attrs), "dim")
    return {
        "attrs-same-object": new_attrs is attrs,
        "variables-new-dict": new_variables is not variables and type(new_variables) is dict,
        "list-same-object": new_variables["a"][1] is values,
        "scalar-same-object": new_variables["b"][1] is scalar,
        "tuple-types": [type(v).__name__ for v in new_variables.values()],
        "fresh-attrs-dicts": new_variables["a"][2] is not new_variables["b"][2],
    }


def cases():
    for name, (mapping, dim) in GROUP_INPUTS.items():
        yield f"group/{name}", (frd.transform_group, mapping, dim)
    yield "group/keywords", (lambda: frd.transform_group(dim="d", mapping=({"a": [1]}, {})),)
    yield "group/dim-keyword", (lambda: frd.transform_group(({"a": [1]}, {}), dim="d"),)
    yield "group/no-dim", (lambda: frd.transform_group(({"a": [1]}, {})),)
    yield "group/no-args", (lambda: frd.transform_group(),)
    yield "group/three-args", (lambda: frd.transform_group(({}, {}), "d", "e"),)
    yield "group/identities", (identities,)

    for name, mapping in RECORD5_INPUTS.items():
        yield f"record5/{name}", (frd.transform_record5, mapping)
    yield "record5/keyword", (lambda: frd.transform_record5(mapping={"prf_switching_flag": 1}),)
    yield "record5/no-args", (lambda: frd.transform_record5(),)
    yield "record5/two-args", (lambda: frd.transform_record5({}, {}),)

    yield "metadata/parsed", (through_metadata, PARSED)
    yield "metadata/flag-only", (through_metadata, {"prf_switching_flag": 0})
    yield "metadata/empty-record-is-dropped", (through_metadata, {})
    yield "metadata/bad-conversion", (through_metadata, {"conversion_from_pixel_to_geographic": 1})

    # the neighbouring, untouched transformer of the same module
    for number in (1, 2, 3, 4, 5, 0):
        parsed = to_dict(frd.facility_related_data_record.parse(auxiliary_bytes(number)))
        yield f"auxiliary/{number}", (frd.transform_auxiliary_file, parsed)
    yield "auxiliary/blank-number", (
        frd.transform_auxiliary_file,
        to_dict(frd.facility_related_data_record.parse(auxiliary_bytes(""))),
    )
    yield "parse5/raw", (parse5,)


# Recorded from the unchanged code (git HEAD) with `python equiv.py --record`.
EXPECTED = json.loads(r"""
{
 "group/array": "OK tuple[dict{str:'a': tuple[str:'dim', list[int:1, int:2], dict{}]}, dict{str:'u': str:'v'}]",
 "group/scalar": "OK tuple[dict{str:'b': tuple[tuple[], float:1.0, dict{}]}, dict{}]",
 "group/mixed-keeps-order": "OK tuple[dict{str:'z': tuple[str:'coeffs', list[float:1.0], dict{}], str:'a': tuple[tuple[], int:2, dict{}], str:'m': tuple[str:'coeffs', list[], dict{}], str:'b': tuple[tuple[], str:'text', dict{}]}, dict{str:'formula': str:'f'}]",
 "group/empty": "OK tuple[dict{}, dict{}]",
 "group/empty-list-value": "OK tuple[dict{str:'a': tuple[str:'dim', list[], dict{}]}, dict{}]",
 "group/nested-list-value": "OK tuple[dict{str:'a': tuple[str:'dim', list[list[int:1, int:2], list[int:3]], dict{}]}, dict{}]",
 "group/tuple-value-is-scalar": "OK tuple[dict{str:'a': tuple[tuple[], tuple[int:1, int:2], dict{}]}, dict{}]",
 "group/dict-value-is-scalar": "OK tuple[dict{str:'a': tuple[tuple[], dict{str:'x': list[int:1]}, dict{}]}, dict{}]",
 "group/none-value": "OK tuple[dict{str:'a': tuple[tuple[], NoneType:None, dict{}]}, NoneType:None]",
 "group/list-subclass-value": "OK tuple[dict{str:'a': tuple[tuple[], UserList:[1], dict{}], str:'b': tuple[str:'dim', L[int:1, int:2], dict{}]}, dict{}]",
 "group/ndarray-value-is-scalar": "OK tuple[dict{str:'a': tuple[tuple[], ndarray(<i8, (3,), [0, 1, 2]), dict{}]}, dict{}]",
 "group/dim-list": "OK tuple[dict{str:'a': tuple[list[str:'x', str:'y'], list[int:1], dict{}], str:'b': tuple[tuple[], int:2, dict{}]}, dict{}]",
 "group/dim-tuple": "OK tuple[dict{str:'a': tuple[tuple[str:'x'], list[int:1], dict{}], str:'b': tuple[tuple[], int:2, dict{}]}, dict{}]",
 "group/dim-empty-tuple": "OK tuple[dict{str:'a': tuple[tuple[], list[int:1], dict{}], str:'b': tuple[tuple[], int:2, dict{}]}, dict{}]",
 "group/dim-none": "OK tuple[dict{str:'a': tuple[NoneType:None, list[int:1], dict{}], str:'b': tuple[tuple[], int:2, dict{}]}, dict{}]",
 "group/dim-int": "OK tuple[dict{str:'a': tuple[int:3, list[int:1], dict{}]}, dict{}]",
 "group/attrs-anything": "OK tuple[dict{str:'a': tuple[str:'dim', list[int:1], dict{}]}, list[int:1, int:2, int:3]]",
 "group/non-string-keys": "OK tuple[dict{int:1: tuple[str:'dim', list[int:1], dict{}], NoneType:None: tuple[tuple[], int:2, dict{}], tuple[int:1, int:2]: tuple[str:'dim', list[int:3], dict{}]}, dict{}]",
 "group/ordered-dict": "OK tuple[dict{str:'b': tuple[str:'dim', list[int:1], dict{}], str:'a': tuple[tuple[], int:2, dict{}]}, OrderedDict{str:'x': int:1}]",
 "group/mapping-proxy": "OK tuple[dict{str:'b': tuple[str:'dim', list[int:1], dict{}], str:'a': tuple[tuple[], int:2, dict{}]}, dict{}]",
 "group/pair-as-list": "OK tuple[dict{str:'a': tuple[str:'dim', list[int:1], dict{}]}, dict{str:'x': int:1}]",
 "group/pair-from-dict-keys": "EXC AttributeError: 'str' object has no attribute 'keys' (cause: None)",
 "group/pair-from-string": "EXC AttributeError: 'str' object has no attribute 'keys' (cause: None)",
 "group/three-tuple": "EXC ValueError: too many values to unpack (expected 2) (cause: None)",
 "group/one-tuple": "EXC ValueError: not enough values to unpack (expected 2, got 1) (cause: None)",
 "group/empty-tuple": "EXC ValueError: not enough values to unpack (expected 2, got 0) (cause: None)",
 "group/bare-dict-one-key": "EXC ValueError: not enough values to unpack (expected 2, got 1) (cause: None)",
 "group/none": "EXC TypeError: cannot unpack non-iterable NoneType object (cause: None)",
 "group/int": "EXC TypeError: cannot unpack non-iterable int object (cause: None)",
 "group/variables-none": "EXC AttributeError: 'NoneType' object has no attribute 'keys' (cause: None)",
 "group/variables-list": "EXC AttributeError: 'list' object has no attribute 'keys' (cause: None)",
 "group/variables-string": "EXC AttributeError: 'str' object has no attribute 'keys' (cause: None)",
 "group/keywords": "OK tuple[dict{str:'a': tuple[str:'d', list[int:1], dict{}]}, dict{}]",
 "group/dim-keyword": "OK tuple[dict{str:'a': tuple[str:'d', list[int:1], dict{}]}, dict{}]",
 "group/no-dim": "EXC TypeError: transform_group() missing 1 required positional argument: 'dim' (cause: None)",
 "group/no-args": "EXC TypeError: transform_group() missing 2 required positional arguments: 'mapping' and 'dim' (cause: None)",
 "group/three-args": "EXC TypeError: transform_group() takes 2 positional arguments but 3 were given (cause: None)",
 "group/identities": "OK dict{str:'attrs-same-object': bool:True, str:'variables-new-dict': bool:True, str:'list-same-object': bool:True, str:'scalar-same-object': bool:True, str:'tuple-types': list[str:'tuple', str:'tuple'], str:'fresh-attrs-dicts': bool:True}",
 "record5/empty": "OK Group(path=str:'/', url=NoneType:None, data=dict{}, attrs=dict{})",
 "record5/parsed": "OK Group(path=str:'/', url=NoneType:None, data=dict{str:'projected_to_image': Group(path=str:'/projected_to_image', url=NoneType:None, data=dict{str:'a': Variable(list[str:'mid_precision_coeffs'], list[float:1.0, float:1.125, float:1.25, float:1.375, float:1.5, float:1.625, float:1.75, float:1.875, float:2.0, float:2.125], dict{}), str:'b': Variable(list[str:'mid_precision_coeffs'], list[float:-2.0, float:-1.875, float:-1.75, float:-1.625, float:-1.5, float:-1.375, float:-1.25, float:-1.125, float:-1.0, float:-0.875], dict{})}, attrs=dict{str:'formula': str:'P = a0 + a1*\u03c6 + a2*\u03bb + a3*\u03c6*\u03bb + a4*\u03c6^2 + a5*\u03bb^2 + a6*\u03c6^2*\u03bb + a7*\u03c6*\u03bb^2 + a8*\u03c6^3 + a9*\u03bb^3; L = b0 + b1*\u03c6 + b2*\u03bb + b3*\u03c6*\u03bb + b4*\u03c6^2 + b5*\u03bb^2 + b6*\u03c6^2*\u03bb + b7*\u03c6*\u03bb^2 + b8*\u03c6^3 + b9*\u03bb^3'}), str:'calibration_at_upper_image': Group(path=str:'/calibration_at_upper_image', url=NoneType:None, data=dict{}, attrs=dict{str:'start_line_number': int:11, str:'end_line_number': int:22}), str:'calibration_at_bottom_image': Group(path=str:'/calibration_at_bottom_image', url=NoneType:None, data=dict{}, attrs=dict{str:'start_line_number': int:33, str:'end_line_number': int:44}), str:'number_of_loss_lines': Group(path=str:'/number_of_loss_lines', url=NoneType:None, data=dict{}, attrs=dict{str:'level1.0': int:3, str:'others': int:4}), str:'image_to_geographic': Group(path=str:'/image_to_geographic', url=NoneType:None, data=dict{str:'a': Variable(list[str:'high_precision_coeffs'], list[float:100.0, float:100.125, float:100.25, float:100.375, float:100.5, float:100.625, float:100.75, float:100.875, float:101.0, float:101.125, float:101.25, float:101.375, float:101.5, float:101.625, float:101.75, float:101.875, float:102.0, float:102.125, float:102.25, float:102.375, float:102.5, float:102.625, float:102.75, float:102.875, float:103.0], dict{}), str:'b': Variable(list[str:'high_precision_coeffs'], list[float:-100.0, float:-99.875, float:-99.75, float:-99.625, float:-99.5, float:-99.375, float:-99.25, float:-99.125, float:-99.0, float:-98.875, float:-98.75, float:-98.625, float:-98.5, float:-98.375, float:-98.25, float:-98.125, float:-98.0, float:-97.875, float:-97.75, float:-97.625, float:-97.5, float:-97.375, float:-97.25, float:-97.125, float:-97.0], dict{}), str:'origin_pixel': Variable(tuple[], float:1.5, dict{}), str:'origin_line': Variable(tuple[], float:2.5, dict{})}, attrs=dict{str:'formula': str:'\u03c6 = a0*L^4*P^4 + a1*L^3*P^4 + a2*L^2*P^4 + a3*L*P^4 + a4*P^4 + a5*L^4*P^3 + a6*L^3*P^3 + a7*L^2*P^3 + a8*L*P^3 + a9*P^3 + a10*L^4*P^2 + a11*L^3*P^2 + a12*L^2*P^2 + a13*L*P^2 + a14*P^2 + a15*L^4*P + a16*L^3*P + a17*L^2*P + a18*L*P + a19*P + a20*L^4 + a21*L^3 + a22*L^2 + a23*L + a24; \u03bb = b0*L^4*P^4 + b1*L^3*P^4 + b2*L^2*P^4 + b3*L*P^4 + b4*P^4 + b5*L^4*P^3 + b6*L^3*P^3 + b7*L^2*P^3 + b8*L*P^3 + b9*P^3 + b10*L^4*P^2 + b11*L^3*P^2 + b12*L^2*P^2 + b13*L*P^2 + b14*P^2 + b15*L^4*P + b16*L^3*P + b17*L^2*P + b18*L*P + b19*P + b20*L^4 + b21*L^3 + b22*L^2 + b23*L + b24'}), str:'geographic_to_image': Group(path=str:'/geographic_to_image', url=NoneType:None, data=dict{str:'c': Variable(list[str:'high_precision_coeffs'], list[float:0.001, float:0.0010001, float:0.0010002, float:0.0010003, float:0.0010004, float:0.0010005, float:0.0010006, float:0.0010007, float:0.0010008, float:0.0010009, float:0.001001, float:0.0010011, float:0.0010012, float:0.0010013, float:0.0010014, float:0.0010015, float:0.0010016, float:0.0010017, float:0.0010018, float:0.0010019, float:0.001002, float:0.0010021, float:0.0010022, float:0.0010023, float:0.0010024], dict{}), str:'d': Variable(list[str:'high_precision_coeffs'], list[float:10000000000.0, float:10000001000.0, float:10000002000.0, float:10000003000.0, float:10000004000.0, float:10000005000.0, float:10000006000.0, float:10000007000.0, float:10000008000.0, float:10000009000.0, float:10000010000.0, float:10000011000.0, float:10000012000.0, float:10000013000.0, float:10000014000.0, float:10000015000.0, float:10000016000.0, float:10000017000.0, float:10000018000.0, float:10000019000.0, float:10000020000.0, float:10000021000.0, float:10000022000.0, float:10000023000.0, float:10000024000.0], dict{}), str:'origin_latitude': Variable(tuple[], float:35.25, dict{}), str:'origin_longitude': Variable(tuple[], float:139.75, dict{})}, attrs=dict{str:'formula': str:'p = c0*\u039b^4*\u03a6^4 + c1*\u039b^3*\u03a6^4 + c2*\u039b^2*\u03a6^4 + c3*\u039b*\u03a6^4 + c4*\u03a6^4 + c5*\u039b^4*\u03a6^3 + c6*\u039b^3*\u03a6^3 + c7*\u039b^2*\u03a6^3 + c8*\u039b*\u03a6^3 + c9*\u03a6^3 + c10*\u039b^4*\u03a6^2 + c11*\u039b^3*\u03a6^2 + c12*\u039b^2*\u03a6^2 + c13*\u039b*\u03a6^2 + c14*\u03a6^2 + c15*\u039b^4*\u03a6 + c16*\u039b^3*\u03a6 + c17*\u039b^2*\u03a6 + c18*\u039b*\u03a6 + c19*\u03a6; l = d0*\u039b^4*\u03a6^4 + d1*\u039b^3*\u03a6^4 + d2*\u039b^2*\u03a6^4 + d3*\u039b*\u03a6^4 + d4*\u03a6^4 + d5*\u039b^4*\u03a6^3 + d6*\u039b^3*\u03a6^3 + d7*\u039b^2*\u03a6^3 + d8*\u039b*\u03a6^3 + d9*\u03a6^3 + d10*\u039b^4*\u03a6^2 + d11*\u039b^3*\u03a6^2 + d12*\u039b^2*\u03a6^2 + d13*\u039b*\u03a6^2 + d14*\u03a6^2 + d15*\u039b^4*\u03a6 + d16*\u039b^3*\u03a6 + d17*\u039b^2*\u03a6 + d18*\u039b*\u03a6 + d19*\u03a6 + d20*\u039b^4 + d21*\u039b^3 + d22*\u039b^2 + d23*\u039b + d24'})}, attrs=dict{str:'calibration_mode_data_location_flag': str:'side_of_observation_start', str:'prf_switching': bool:True, str:'start_line_number_of_prf_switching': int:555})",
 "record5/parsed-no-calibration": "OK Group(path=str:'/', url=NoneType:None, data=dict{str:'projected_to_image': Group(path=str:'/projected_to_image', url=NoneType:None, data=dict{str:'a': Variable(list[str:'mid_precision_coeffs'], list[float:1.0, float:1.125, float:1.25, float:1.375, float:1.5, float:1.625, float:1.75, float:1.875, float:2.0, float:2.125], dict{}), str:'b': Variable(list[str:'mid_precision_coeffs'], list[float:-2.0, float:-1.875, float:-1.75, float:-1.625, float:-1.5, float:-1.375, float:-1.25, float:-1.125, float:-1.0, float:-0.875], dict{})}, attrs=dict{str:'formula': str:'P = a0 + a1*\u03c6 + a2*\u03bb + a3*\u03c6*\u03bb + a4*\u03c6^2 + a5*\u03bb^2 + a6*\u03c6^2*\u03bb + a7*\u03c6*\u03bb^2 + a8*\u03c6^3 + a9*\u03bb^3; L = b0 + b1*\u03c6 + b2*\u03bb + b3*\u03c6*\u03bb + b4*\u03c6^2 + b5*\u03bb^2 + b6*\u03c6^2*\u03bb + b7*\u03c6*\u03bb^2 + b8*\u03c6^3 + b9*\u03bb^3'}), str:'calibration_at_upper_image': Group(path=str:'/calibration_at_upper_image', url=NoneType:None, data=dict{}, attrs=dict{str:'start_line_number': int:11, str:'end_line_number': int:22}), str:'calibration_at_bottom_image': Group(path=str:'/calibration_at_bottom_image', url=NoneType:None, data=dict{}, attrs=dict{str:'start_line_number': int:33, str:'end_line_number': int:44}), str:'number_of_loss_lines': Group(path=str:'/number_of_loss_lines', url=NoneType:None, data=dict{}, attrs=dict{str:'level1.0': int:0, str:'others': int:0}), str:'image_to_geographic': Group(path=str:'/image_to_geographic', url=NoneType:None, data=dict{str:'a': Variable(list[str:'high_precision_coeffs'], list[float:100.0, float:100.125, float:100.25, float:100.375, float:100.5, float:100.625, float:100.75, float:100.875, float:101.0, float:101.125, float:101.25, float:101.375, float:101.5, float:101.625, float:101.75, float:101.875, float:102.0, float:102.125, float:102.25, float:102.375, float:102.5, float:102.625, float:102.75, float:102.875, float:103.0], dict{}), str:'b': Variable(list[str:'high_precision_coeffs'], list[float:-100.0, float:-99.875, float:-99.75, float:-99.625, float:-99.5, float:-99.375, float:-99.25, float:-99.125, float:-99.0, float:-98.875, float:-98.75, float:-98.625, float:-98.5, float:-98.375, float:-98.25, float:-98.125, float:-98.0, float:-97.875, float:-97.75, float:-97.625, float:-97.5, float:-97.375, float:-97.25, float:-97.125, float:-97.0], dict{}), str:'origin_pixel': Variable(tuple[], float:1.5, dict{}), str:'origin_line': Variable(tuple[], float:2.5, dict{})}, attrs=dict{str:'formula': str:'\u03c6 = a0*L^4*P^4 + a1*L^3*P^4 + a2*L^2*P^4 + a3*L*P^4 + a4*P^4 + a5*L^4*P^3 + a6*L^3*P^3 + a7*L^2*P^3 + a8*L*P^3 + a9*P^3 + a10*L^4*P^2 + a11*L^3*P^2 + a12*L^2*P^2 + a13*L*P^2 + a14*P^2 + a15*L^4*P + a16*L^3*P + a17*L^2*P + a18*L*P + a19*P + a20*L^4 + a21*L^3 + a22*L^2 + a23*L + a24; \u03bb = b0*L^4*P^4 + b1*L^3*P^4 + b2*L^2*P^4 + b3*L*P^4 + b4*P^4 + b5*L^4*P^3 + b6*L^3*P^3 + b7*L^2*P^3 + b8*L*P^3 + b9*P^3 + b10*L^4*P^2 + b11*L^3*P^2 + b12*L^2*P^2 + b13*L*P^2 + b14*P^2 + b15*L^4*P + b16*L^3*P + b17*L^2*P + b18*L*P + b19*P + b20*L^4 + b21*L^3 + b22*L^2 + b23*L + b24'}), str:'geographic_to_image': Group(path=str:'/geographic_to_image', url=NoneType:None, data=dict{str:'c': Variable(list[str:'high_precision_coeffs'], list[float:0.001, float:0.0010001, float:0.0010002, float:0.0010003, float:0.0010004, float:0.0010005, float:0.0010006, float:0.0010007, float:0.0010008, float:0.0010009, float:0.001001, float:0.0010011, float:0.0010012, float:0.0010013, float:0.0010014, float:0.0010015, float:0.0010016, float:0.0010017, float:0.0010018, float:0.0010019, float:0.001002, float:0.0010021, float:0.0010022, float:0.0010023, float:0.0010024], dict{}), str:'d': Variable(list[str:'high_precision_coeffs'], list[float:10000000000.0, float:10000001000.0, float:10000002000.0, float:10000003000.0, float:10000004000.0, float:10000005000.0, float:10000006000.0, float:10000007000.0, float:10000008000.0, float:10000009000.0, float:10000010000.0, float:10000011000.0, float:10000012000.0, float:10000013000.0, float:10000014000.0, float:10000015000.0, float:10000016000.0, float:10000017000.0, float:10000018000.0, float:10000019000.0, float:10000020000.0, float:10000021000.0, float:10000022000.0, float:10000023000.0, float:10000024000.0], dict{}), str:'origin_latitude': Variable(tuple[], float:35.25, dict{}), str:'origin_longitude': Variable(tuple[], float:139.75, dict{})}, attrs=dict{str:'formula': str:'p = c0*\u039b^4*\u03a6^4 + c1*\u039b^3*\u03a6^4 + c2*\u039b^2*\u03a6^4 + c3*\u039b*\u03a6^4 + c4*\u03a6^4 + c5*\u039b^4*\u03a6^3 + c6*\u039b^3*\u03a6^3 + c7*\u039b^2*\u03a6^3 + c8*\u039b*\u03a6^3 + c9*\u03a6^3 + c10*\u039b^4*\u03a6^2 + c11*\u039b^3*\u03a6^2 + c12*\u039b^2*\u03a6^2 + c13*\u039b*\u03a6^2 + c14*\u03a6^2 + c15*\u039b^4*\u03a6 + c16*\u039b^3*\u03a6 + c17*\u039b^2*\u03a6 + c18*\u039b*\u03a6 + c19*\u03a6; l = d0*\u039b^4*\u03a6^4 + d1*\u039b^3*\u03a6^4 + d2*\u039b^2*\u03a6^4 + d3*\u039b*\u03a6^4 + d4*\u03a6^4 + d5*\u039b^4*\u03a6^3 + d6*\u039b^3*\u03a6^3 + d7*\u039b^2*\u03a6^3 + d8*\u039b*\u03a6^3 + d9*\u03a6^3 + d10*\u039b^4*\u03a6^2 + d11*\u039b^3*\u03a6^2 + d12*\u039b^2*\u03a6^2 + d13*\u039b*\u03a6^2 + d14*\u03a6^2 + d15*\u039b^4*\u03a6 + d16*\u039b^3*\u03a6 + d17*\u039b^2*\u03a6 + d18*\u039b*\u03a6 + d19*\u03a6 + d20*\u039b^4 + d21*\u039b^3 + d22*\u039b^2 + d23*\u039b + d24'})}, attrs=dict{str:'calibration_mode_data_location_flag': str:'no_calibration', str:'prf_switching': bool:False, str:'start_line_number_of_prf_switching': int:555})",
 "record5/parsed-flag-3-blank-numbers": "OK Group(path=str:'/', url=NoneType:None, data=dict{str:'projected_to_image': Group(path=str:'/projected_to_image', url=NoneType:None, data=dict{str:'a': Variable(list[str:'mid_precision_coeffs'], list[float:1.0, float:1.125, float:1.25, float:1.375, float:1.5, float:1.625, float:1.75, float:1.875, float:2.0, float:2.125], dict{}), str:'b': Variable(list[str:'mid_precision_coeffs'], list[float:-2.0, float:-1.875, float:-1.75, float:-1.625, float:-1.5, float:-1.375, float:-1.25, float:-1.125, float:-1.0, float:-0.875], dict{})}, attrs=dict{str:'formula': str:'P = a0 + a1*\u03c6 + a2*\u03bb + a3*\u03c6*\u03bb + a4*\u03c6^2 + a5*\u03bb^2 + a6*\u03c6^2*\u03bb + a7*\u03c6*\u03bb^2 + a8*\u03c6^3 + a9*\u03bb^3; L = b0 + b1*\u03c6 + b2*\u03bb + b3*\u03c6*\u03bb + b4*\u03c6^2 + b5*\u03bb^2 + b6*\u03c6^2*\u03bb + b7*\u03c6*\u03bb^2 + b8*\u03c6^3 + b9*\u03bb^3'}), str:'calibration_at_upper_image': Group(path=str:'/calibration_at_upper_image', url=NoneType:None, data=dict{}, attrs=dict{str:'start_line_number': int:11, str:'end_line_number': int:22}), str:'calibration_at_bottom_image': Group(path=str:'/calibration_at_bottom_image', url=NoneType:None, data=dict{}, attrs=dict{str:'start_line_number': int:33, str:'end_line_number': int:44}), str:'number_of_loss_lines': Group(path=str:'/number_of_loss_lines', url=NoneType:None, data=dict{}, attrs=dict{str:'level1.0': int:-1, str:'others': int:-1}), str:'image_to_geographic': Group(path=str:'/image_to_geographic', url=NoneType:None, data=dict{str:'a': Variable(list[str:'high_precision_coeffs'], list[float:100.0, float:100.125, float:100.25, float:100.375, float:100.5, float:100.625, float:100.75, float:100.875, float:101.0, float:101.125, float:101.25, float:101.375, float:101.5, float:101.625, float:101.75, float:101.875, float:102.0, float:102.125, float:102.25, float:102.375, float:102.5, float:102.625, float:102.75, float:102.875, float:103.0], dict{}), str:'b': Variable(list[str:'high_precision_coeffs'], list[float:-100.0, float:-99.875, float:-99.75, float:-99.625, float:-99.5, float:-99.375, float:-99.25, float:-99.125, float:-99.0, float:-98.875, float:-98.75, float:-98.625, float:-98.5, float:-98.375, float:-98.25, float:-98.125, float:-98.0, float:-97.875, float:-97.75, float:-97.625, float:-97.5, float:-97.375, float:-97.25, float:-97.125, float:-97.0], dict{}), str:'origin_pixel': Variable(tuple[], float:1.5, dict{}), str:'origin_line': Variable(tuple[], float:2.5, dict{})}, attrs=dict{str:'formula': str:'\u03c6 = a0*L^4*P^4 + a1*L^3*P^4 + a2*L^2*P^4 + a3*L*P^4 + a4*P^4 + a5*L^4*P^3 + a6*L^3*P^3 + a7*L^2*P^3 + a8*L*P^3 + a9*P^3 + a10*L^4*P^2 + a11*L^3*P^2 + a12*L^2*P^2 + a13*L*P^2 + a14*P^2 + a15*L^4*P + a16*L^3*P + a17*L^2*P + a18*L*P + a19*P + a20*L^4 + a21*L^3 + a22*L^2 + a23*L + a24; \u03bb = b0*L^4*P^4 + b1*L^3*P^4 + b2*L^2*P^4 + b3*L*P^4 + b4*P^4 + b5*L^4*P^3 + b6*L^3*P^3 + b7*L^2*P^3 + b8*L*P^3 + b9*P^3 + b10*L^4*P^2 + b11*L^3*P^2 + b12*L^2*P^2 + b13*L*P^2 + b14*P^2 + b15*L^4*P + b16*L^3*P + b17*L^2*P + b18*L*P + b19*P + b20*L^4 + b21*L^3 + b22*L^2 + b23*L + b24'}), str:'geographic_to_image': Group(path=str:'/geographic_to_image', url=NoneType:None, data=dict{str:'c': Variable(list[str:'high_precision_coeffs'], list[float:0.001, float:0.0010001, float:0.0010002, float:0.0010003, float:0.0010004, float:0.0010005, float:0.0010006, float:0.0010007, float:0.0010008, float:0.0010009, float:0.001001, float:0.0010011, float:0.0010012, float:0.0010013, float:0.0010014, float:0.0010015, float:0.0010016, float:0.0010017, float:0.0010018, float:0.0010019, float:0.001002, float:0.0010021, float:0.0010022, float:0.0010023, float:0.0010024], dict{}), str:'d': Variable(list[str:'high_precision_coeffs'], list[float:10000000000.0, float:10000001000.0, float:10000002000.0, float:10000003000.0, float:10000004000.0, float:10000005000.0, float:10000006000.0, float:10000007000.0, float:10000008000.0, float:10000009000.0, float:10000010000.0, float:10000011000.0, float:10000012000.0, float:10000013000.0, float:10000014000.0, float:10000015000.0, float:10000016000.0, float:10000017000.0, float:10000018000.0, float:10000019000.0, float:10000020000.0, float:10000021000.0, float:10000022000.0, float:10000023000.0, float:10000024000.0], dict{}), str:'origin_latitude': Variable(tuple[], float:35.25, dict{}), str:'origin_longitude': Variable(tuple[], float:139.75, dict{})}, attrs=dict{str:'formula': str:'p = c0*\u039b^4*\u03a6^4 + c1*\u039b^3*\u03a6^4 + c2*\u039b^2*\u03a6^4 + c3*\u039b*\u03a6^4 + c4*\u03a6^4 + c5*\u039b^4*\u03a6^3 + c6*\u039b^3*\u03a6^3 + c7*\u039b^2*\u03a6^3 + c8*\u039b*\u03a6^3 + c9*\u03a6^3 + c10*\u039b^4*\u03a6^2 + c11*\u039b^3*\u03a6^2 + c12*\u039b^2*\u03a6^2 + c13*\u039b*\u03a6^2 + c14*\u03a6^2 + c15*\u039b^4*\u03a6 + c16*\u039b^3*\u03a6 + c17*\u039b^2*\u03a6 + c18*\u039b*\u03a6 + c19*\u03a6; l = d0*\u039b^4*\u03a6^4 + d1*\u039b^3*\u03a6^4 + d2*\u039b^2*\u03a6^4 + d3*\u039b*\u03a6^4 + d4*\u03a6^4 + d5*\u039b^4*\u03a6^3 + d6*\u039b^3*\u03a6^3 + d7*\u039b^2*\u03a6^3 + d8*\u039b*\u03a6^3 + d9*\u03a6^3 + d10*\u039b^4*\u03a6^2 + d11*\u039b^3*\u03a6^2 + d12*\u039b^2*\u03a6^2 + d13*\u039b*\u03a6^2 + d14*\u03a6^2 + d15*\u039b^4*\u03a6 + d16*\u039b^3*\u03a6 + d17*\u039b^2*\u03a6 + d18*\u039b*\u03a6 + d19*\u03a6 + d20*\u039b^4 + d21*\u039b^3 + d22*\u039b^2 + d23*\u039b + d24'})}, attrs=dict{str:'calibration_mode_data_location_flag': str:'side_of_observation_start_and_end', str:'prf_switching': bool:True, str:'start_line_number_of_prf_switching': int:555})",
 "record5/parsed-blank-floats": "OK Group(path=str:'/', url=NoneType:None, data=dict{str:'projected_to_image': Group(path=str:'/projected_to_image', url=NoneType:None, data=dict{str:'a': Variable(list[str:'mid_precision_coeffs'], list[float:nan, float:nan, float:nan, float:nan, float:nan, float:nan, float:nan, float:nan, float:nan, float:nan], dict{}), str:'b': Variable(list[str:'mid_precision_coeffs'], list[float:-2.0, float:-1.875, float:-1.75, float:-1.625, float:-1.5, float:-1.375, float:-1.25, float:-1.125, float:-1.0, float:-0.875], dict{})}, attrs=dict{str:'formula': str:'P = a0 + a1*\u03c6 + a2*\u03bb + a3*\u03c6*\u03bb + a4*\u03c6^2 + a5*\u03bb^2 + a6*\u03c6^2*\u03bb + a7*\u03c6*\u03bb^2 + a8*\u03c6^3 + a9*\u03bb^3; L = b0 + b1*\u03c6 + b2*\u03bb + b3*\u03c6*\u03bb + b4*\u03c6^2 + b5*\u03bb^2 + b6*\u03c6^2*\u03bb + b7*\u03c6*\u03bb^2 + b8*\u03c6^3 + b9*\u03bb^3'}), str:'calibration_at_upper_image': Group(path=str:'/calibration_at_upper_image', url=NoneType:None, data=dict{}, attrs=dict{str:'start_line_number': int:11, str:'end_line_number': int:22}), str:'calibration_at_bottom_image': Group(path=str:'/calibration_at_bottom_image', url=NoneType:None, data=dict{}, attrs=dict{str:'start_line_number': int:33, str:'end_line_number': int:44}), str:'number_of_loss_lines': Group(path=str:'/number_of_loss_lines', url=NoneType:None, data=dict{}, attrs=dict{str:'level1.0': int:3, str:'others': int:4}), str:'image_to_geographic': Group(path=str:'/image_to_geographic', url=NoneType:None, data=dict{str:'a': Variable(list[str:'high_precision_coeffs'], list[float:100.0, float:100.125, float:100.25, float:100.375, float:100.5, float:100.625, float:100.75, float:100.875, float:101.0, float:101.125, float:101.25, float:101.375, float:101.5, float:101.625, float:101.75, float:101.875, float:102.0, float:102.125, float:102.25, float:102.375, float:102.5, float:102.625, float:102.75, float:102.875, float:103.0], dict{}), str:'b': Variable(list[str:'high_precision_coeffs'], list[float:nan, float:nan, float:nan, float:nan, float:nan, float:nan, float:nan, float:nan, float:nan, float:nan, float:nan, float:nan, float:nan, float:nan, float:nan, float:nan, float:nan, float:nan, float:nan, float:nan, float:nan, float:nan, float:nan, float:nan, float:nan], dict{}), str:'origin_pixel': Variable(tuple[], float:1.5, dict{}), str:'origin_line': Variable(tuple[], float:2.5, dict{})}, attrs=dict{str:'formula': str:'\u03c6 = a0*L^4*P^4 + a1*L^3*P^4 + a2*L^2*P^4 + a3*L*P^4 + a4*P^4 + a5*L^4*P^3 + a6*L^3*P^3 + a7*L^2*P^3 + a8*L*P^3 + a9*P^3 + a10*L^4*P^2 + a11*L^3*P^2 + a12*L^2*P^2 + a13*L*P^2 + a14*P^2 + a15*L^4*P + a16*L^3*P + a17*L^2*P + a18*L*P + a19*P + a20*L^4 + a21*L^3 + a22*L^2 + a23*L + a24; \u03bb = b0*L^4*P^4 + b1*L^3*P^4 + b2*L^2*P^4 + b3*L*P^4 + b4*P^4 + b5*L^4*P^3 + b6*L^3*P^3 + b7*L^2*P^3 + b8*L*P^3 + b9*P^3 + b10*L^4*P^2 + b11*L^3*P^2 + b12*L^2*P^2 + b13*L*P^2 + b14*P^2 + b15*L^4*P + b16*L^3*P + b17*L^2*P + b18*L*P + b19*P + b20*L^4 + b21*L^3 + b22*L^2 + b23*L + b24'}), str:'geographic_to_image': Group(path=str:'/geographic_to_image', url=NoneType:None, data=dict{str:'c': Variable(list[str:'high_precision_coeffs'], list[float:0.001, float:0.0010001, float:0.0010002, float:0.0010003, float:0.0010004, float:0.0010005, float:0.0010006, float:0.0010007, float:0.0010008, float:0.0010009, float:0.001001, float:0.0010011, float:0.0010012, float:0.0010013, float:0.0010014, float:0.0010015, float:0.0010016, float:0.0010017, float:0.0010018, float:0.0010019, float:0.001002, float:0.0010021, float:0.0010022, float:0.0010023, float:0.0010024], dict{}), str:'d': Variable(list[str:'high_precision_coeffs'], list[float:10000000000.0, float:10000001000.0, float:10000002000.0, float:10000003000.0, float:10000004000.0, float:10000005000.0, float:10000006000.0, float:10000007000.0, float:10000008000.0, float:10000009000.0, float:10000010000.0, float:10000011000.0, float:10000012000.0, float:10000013000.0, float:10000014000.0, float:10000015000.0, float:10000016000.0, float:10000017000.0, float:10000018000.0, float:10000019000.0, float:10000020000.0, float:10000021000.0, float:10000022000.0, float:10000023000.0, float:10000024000.0], dict{}), str:'origin_latitude': Variable(tuple[], float:35.25, dict{}), str:'origin_longitude': Variable(tuple[], float:139.75, dict{})}, attrs=dict{str:'formula': str:'p = c0*\u039b^4*\u03a6^4 + c1*\u039b^3*\u03a6^4 + c2*\u039b^2*\u03a6^4 + c3*\u039b*\u03a6^4 + c4*\u03a6^4 + c5*\u039b^4*\u03a6^3 + c6*\u039b^3*\u03a6^3 + c7*\u039b^2*\u03a6^3 + c8*\u039b*\u03a6^3 + c9*\u03a6^3 + c10*\u039b^4*\u03a6^2 + c11*\u039b^3*\u03a6^2 + c12*\u039b^2*\u03a6^2 + c13*\u039b*\u03a6^2 + c14*\u03a6^2 + c15*\u039b^4*\u03a6 + c16*\u039b^3*\u03a6 + c17*\u039b^2*\u03a6 + c18*\u039b*\u03a6 + c19*\u03a6; l = d0*\u039b^4*\u03a6^4 + d1*\u039b^3*\u03a6^4 + d2*\u039b^2*\u03a6^4 + d3*\u039b*\u03a6^4 + d4*\u03a6^4 + d5*\u039b^4*\u03a6^3 + d6*\u039b^3*\u03a6^3 + d7*\u039b^2*\u03a6^3 + d8*\u039b*\u03a6^3 + d9*\u03a6^3 + d10*\u039b^4*\u03a6^2 + d11*\u039b^3*\u03a6^2 + d12*\u039b^2*\u03a6^2 + d13*\u039b*\u03a6^2 + d14*\u03a6^2 + d15*\u039b^4*\u03a6 + d16*\u039b^3*\u03a6 + d17*\u039b^2*\u03a6 + d18*\u039b*\u03a6 + d19*\u03a6 + d20*\u039b^4 + d21*\u039b^3 + d22*\u039b^2 + d23*\u039b + d24'})}, attrs=dict{str:'calibration_mode_data_location_flag': str:'side_of_observation_start', str:'prf_switching': bool:True, str:'start_line_number_of_prf_switching': int:555})",
 "record5/ignored": "OK Group(path=str:'/', url=NoneType:None, data=dict{}, attrs=dict{})",
 "record5/spares-variants": "OK Group(path=str:'/', url=NoneType:None, data=dict{}, attrs=dict{str:'spares': int:3, str:'spare_x': int:4, str:'blanksx': int:7, str:'blank': int:8, str:'spare1a': int:9, str:'Spare': int:10})",
 "record5/nested-spares-and-ignored-names": "OK Group(path=str:'/', url=NoneType:None, data=dict{str:'items': Variable(tuple[], dict{str:'x': int:2}, dict{str:'x': int:4}), str:'sub': Group(path=str:'/sub', url=NoneType:None, data=dict{str:'subsub': Group(path=str:'/sub/subsub', url=NoneType:None, data=dict{}, attrs=dict{str:'system_reserve': int:5})}, attrs=dict{str:'preamble': int:2, str:'keep': int:3})}, attrs=dict{})",
 "record5/flag-0": "OK Group(path=str:'/', url=NoneType:None, data=dict{}, attrs=dict{str:'prf_switching': bool:False})",
 "record5/flag-1": "OK Group(path=str:'/', url=NoneType:None, data=dict{}, attrs=dict{str:'prf_switching': bool:True})",
 "record5/flag-minus-1": "OK Group(path=str:'/', url=NoneType:None, data=dict{}, attrs=dict{str:'prf_switching': bool:True})",
 "record5/flag-none": "OK Group(path=str:'/', url=NoneType:None, data=dict{}, attrs=dict{str:'prf_switching': bool:False})",
 "record5/flag-empty-string": "OK Group(path=str:'/', url=NoneType:None, data=dict{}, attrs=dict{str:'prf_switching': bool:False})",
 "record5/flag-string": "OK Group(path=str:'/', url=NoneType:None, data=dict{}, attrs=dict{str:'prf_switching': bool:True})",
 "record5/flag-list": "OK Group(path=str:'/', url=NoneType:None, data=dict{}, attrs=dict{str:'prf_switching': bool:False})",
 "record5/flag-already-renamed": "OK Group(path=str:'/', url=NoneType:None, data=dict{}, attrs=dict{str:'prf_switching': int:0})",
 "record5/flag-collision-1": "OK Group(path=str:'/', url=NoneType:None, data=dict{}, attrs=dict{str:'prf_switching': str:'kept?', str:'x': int:1})",
 "record5/flag-collision-2": "OK Group(path=str:'/', url=NoneType:None, data=dict{}, attrs=dict{str:'prf_switching': bool:False, str:'x': int:1})",
 "record5/projected": "OK Group(path=str:'/', url=NoneType:None, data=dict{str:'projected_to_image': Group(path=str:'/projected_to_image', url=NoneType:None, data=dict{str:'a': Variable(list[str:'mid_precision_coeffs'], list[int:1, int:2], dict{}), str:'b': Variable(list[str:'mid_precision_coeffs'], list[int:3, int:4], dict{})}, attrs=dict{str:'a': str:'b'})}, attrs=dict{})",
 "record5/image-to-geographic": "OK Group(path=str:'/', url=NoneType:None, data=dict{str:'image_to_geographic': Group(path=str:'/image_to_geographic', url=NoneType:None, data=dict{str:'a': Variable(list[str:'high_precision_coeffs'], list[int:1, int:2], dict{}), str:'b': Variable(tuple[], float:1.0, dict{})}, attrs=dict{str:'d': str:'e'})}, attrs=dict{})",
 "record5/geographic-to-image": "OK Group(path=str:'/', url=NoneType:None, data=dict{str:'geographic_to_image': Group(path=str:'/geographic_to_image', url=NoneType:None, data=dict{str:'c': Variable(list[str:'high_precision_coeffs'], list[int:1, int:2], dict{}), str:'d': Variable(tuple[], float:1.0, dict{})}, attrs=dict{str:'f': str:'e'})}, attrs=dict{})",
 "record5/all-three-reversed": "OK Group(path=str:'/', url=NoneType:None, data=dict{str:'geographic_to_image': Group(path=str:'/geographic_to_image', url=NoneType:None, data=dict{str:'c': Variable(list[str:'high_precision_coeffs'], list[float:1.0], dict{}), str:'origin_latitude': Variable(tuple[], float:1.0, dict{})}, attrs=dict{str:'formula': str:'g'}), str:'image_to_geographic': Group(path=str:'/image_to_geographic', url=NoneType:None, data=dict{str:'a': Variable(list[str:'high_precision_coeffs'], list[float:2.0], dict{}), str:'origin_pixel': Variable(tuple[], float:2.0, dict{})}, attrs=dict{str:'formula': str:'p'}), str:'projected_to_image': Group(path=str:'/projected_to_image', url=NoneType:None, data=dict{str:'a': Variable(list[str:'mid_precision_coeffs'], list[float:3.0], dict{}), str:'b': Variable(list[str:'mid_precision_coeffs'], list[float:4.0], dict{})}, attrs=dict{str:'formula': str:'m'})}, attrs=dict{str:'k': int:1})",
 "record5/conversion-empty": "OK Group(path=str:'/', url=NoneType:None, data=dict{str:'image_to_geographic': Group(path=str:'/image_to_geographic', url=NoneType:None, data=dict{}, attrs=dict{})}, attrs=dict{})",
 "record5/conversion-spare-inside": "OK Group(path=str:'/', url=NoneType:None, data=dict{str:'image_to_geographic': Group(path=str:'/image_to_geographic', url=NoneType:None, data=dict{str:'a': Variable(list[str:'high_precision_coeffs'], list[int:1], dict{}), str:'spare': Variable(tuple[], int:2, dict{}), str:'blanks1': Variable(list[str:'high_precision_coeffs'], list[int:3], dict{})}, attrs=dict{str:'spare': str:'kept'})}, attrs=dict{})",
 "record5/conversion-renamed-name-untouched": "OK Group(path=str:'/', url=NoneType:None, data=dict{str:'projected_to_image': Group(path=str:'/projected_to_image', url=NoneType:None, data=dict{str:'a': Variable(tuple[], int:1, int:2)}, attrs=dict{str:'x': int:1})}, attrs=dict{})",
 "record5/conversion-collision": "EXC ValueError: not enough values to unpack (expected 3, got 1) (cause: None)",
 "record5/conversion-not-a-pair": "EXC ValueError: not enough values to unpack (expected 2, got 1) (cause: None)",
 "record5/conversion-three-tuple": "EXC ValueError: too many values to unpack (expected 2) (cause: None)",
 "record5/conversion-none": "EXC TypeError: cannot unpack non-iterable NoneType object (cause: None)",
 "record5/conversion-list-pair": "OK Group(path=str:'/', url=NoneType:None, data=dict{str:'projected_to_image': Group(path=str:'/projected_to_image', url=NoneType:None, data=dict{str:'a': Variable(list[str:'mid_precision_coeffs'], list[int:1], dict{})}, attrs=dict{str:'f': int:1})}, attrs=dict{})",
 "record5/conversion-list-of-dicts": "OK Group(path=str:'/', url=NoneType:None, data=dict{str:'projected_to_image': Group(path=str:'/projected_to_image', url=NoneType:None, data=dict{str:'a': Variable(tuple[], int:1, dict{})}, attrs=dict{str:'b': int:3})}, attrs=dict{})",
 "record5/conversion-variables-none": "EXC AttributeError: 'NoneType' object has no attribute 'keys' (cause: None)",
 "record5/first-error-wins": "EXC TypeError: cannot unpack non-iterable int object (cause: None)",
 "record5/first-error-wins-reversed": "EXC AttributeError: 'str' object has no attribute 'keys' (cause: None)",
 "record5/subgroups": "OK Group(path=str:'/', url=NoneType:None, data=dict{str:'calibration_at_upper_image': Group(path=str:'/calibration_at_upper_image', url=NoneType:None, data=dict{}, attrs=dict{str:'start_line_number': int:1, str:'end_line_number': int:2}), str:'number_of_loss_lines': Group(path=str:'/number_of_loss_lines', url=NoneType:None, data=dict{}, attrs=dict{str:'level1.0': int:3, str:'others': int:4})}, attrs=dict{str:'calibration_mode_data_location_flag': str:'side_of_observation_start'})",
 "record5/unknown-entries": "EXC ValueError: not enough values to unpack (expected 3, got 1) (cause: None)",
 "record5/unknown-variable-pair": "OK Group(path=str:'/', url=NoneType:None, data=dict{str:'v': Variable(tuple[], list[int:1, int:2], dict{str:'units': str:'m'})}, attrs=dict{})",
 "record5/unknown-variable-triple": "OK Group(path=str:'/', url=NoneType:None, data=dict{str:'v': Variable(list[str:'x'], list[int:1, int:2], dict{str:'units': str:'m'})}, attrs=dict{})",
 "record5/unknown-list": "OK Group(path=str:'/', url=NoneType:None, data=dict{str:'values': Variable(tuple[], int:1, int:2)}, attrs=dict{})",
 "record5/unknown-list-of-three": "OK Group(path=str:'/', url=NoneType:None, data=dict{str:'values': Variable(int:1, int:2, int:3)}, attrs=dict{})",
 "record5/unknown-empty-list": "EXC ValueError: not enough values to unpack (expected 3, got 0) (cause: None)",
 "record5/unknown-tuple-of-dict": "OK Group(path=str:'/', url=NoneType:None, data=dict{str:'g': Group(path=str:'/g', url=NoneType:None, data=dict{str:'v': Variable(int:1, int:2, int:3)}, attrs=dict{str:'a': int:1, str:'extra': int:1})}, attrs=dict{})",
 "record5/unknown-empty-tuple": "EXC IndexError: tuple index out of range (cause: None)",
 "record5/non-string-keys": "EXC AttributeError: 'int' object has no attribute 'startswith' (cause: None)",
 "record5/ordered-dict": "OK Group(path=str:'/', url=NoneType:None, data=dict{}, attrs=dict{str:'prf_switching': bool:True, str:'k': int:2})",
 "record5/none": "EXC AttributeError: 'NoneType' object has no attribute 'items' (cause: None)",
 "record5/list": "EXC AttributeError: 'list' object has no attribute 'items' (cause: None)",
 "record5/tuple-pair": "EXC AttributeError: 'tuple' object has no attribute 'items' (cause: None)",
 "record5/string": "EXC AttributeError: 'str' object has no attribute 'items' (cause: None)",
 "record5/int": "EXC AttributeError: 'int' object has no attribute 'items' (cause: None)",
 "record5/keyword": "OK Group(path=str:'/', url=NoneType:None, data=dict{}, attrs=dict{str:'prf_switching': bool:True})",
 "record5/no-args": "EXC TypeError: transform_record5() missing 1 required positional argument: 'mapping' (cause: None)",
 "record5/two-args": "EXC TypeError: transform_record5() takes 1 positional argument but 2 were given (cause: None)",
 "metadata/parsed": "OK Group(path=str:'/', url=NoneType:None, data=dict{str:'transformations': Group(path=str:'/transformations', url=NoneType:None, data=dict{str:'projected_to_image': Group(path=str:'/transformations/projected_to_image', url=NoneType:None, data=dict{str:'a': Variable(list[str:'mid_precision_coeffs'], list[float:1.0, float:1.125, float:1.25, float:1.375, float:1.5, float:1.625, float:1.75, float:1.875, float:2.0, float:2.125], dict{}), str:'b': Variable(list[str:'mid_precision_coeffs'], list[float:-2.0, float:-1.875, float:-1.75, float:-1.625, float:-1.5, float:-1.375, float:-1.25, float:-1.125, float:-1.0, float:-0.875], dict{})}, attrs=dict{str:'formula': str:'P = a0 + a1*\u03c6 + a2*\u03bb + a3*\u03c6*\u03bb + a4*\u03c6^2 + a5*\u03bb^2 + a6*\u03c6^2*\u03bb + a7*\u03c6*\u03bb^2 + a8*\u03c6^3 + a9*\u03bb^3; L = b0 + b1*\u03c6 + b2*\u03bb + b3*\u03c6*\u03bb + b4*\u03c6^2 + b5*\u03bb^2 + b6*\u03c6^2*\u03bb + b7*\u03c6*\u03bb^2 + b8*\u03c6^3 + b9*\u03bb^3'}), str:'calibration_at_upper_image': Group(path=str:'/transformations/calibration_at_upper_image', url=NoneType:None, data=dict{}, attrs=dict{str:'start_line_number': int:11, str:'end_line_number': int:22}), str:'calibration_at_bottom_image': Group(path=str:'/transformations/calibration_at_bottom_image', url=NoneType:None, data=dict{}, attrs=dict{str:'start_line_number': int:33, str:'end_line_number': int:44}), str:'number_of_loss_lines': Group(path=str:'/transformations/number_of_loss_lines', url=NoneType:None, data=dict{}, attrs=dict{str:'level1.0': int:3, str:'others': int:4}), str:'image_to_geographic': Group(path=str:'/transformations/image_to_geographic', url=NoneType:None, data=dict{str:'a': Variable(list[str:'high_precision_coeffs'], list[float:100.0, float:100.125, float:100.25, float:100.375, float:100.5, float:100.625, float:100.75, float:100.875, float:101.0, float:101.125, float:101.25, float:101.375, float:101.5, float:101.625, float:101.75, float:101.875, float:102.0, float:102.125, float:102.25, float:102.375, float:102.5, float:102.625, float:102.75, float:102.875, float:103.0], dict{}), str:'b': Variable(list[str:'high_precision_coeffs'], list[float:-100.0, float:-99.875, float:-99.75, float:-99.625, float:-99.5, float:-99.375, float:-99.25, float:-99.125, float:-99.0, float:-98.875, float:-98.75, float:-98.625, float:-98.5, float:-98.375, float:-98.25, float:-98.125, float:-98.0, float:-97.875, float:-97.75, float:-97.625, float:-97.5, float:-97.375, float:-97.25, float:-97.125, float:-97.0], dict{}), str:'origin_pixel': Variable(tuple[], float:1.5, dict{}), str:'origin_line': Variable(tuple[], float:2.5, dict{})}, attrs=dict{str:'formula': str:'\u03c6 = a0*L^4*P^4 + a1*L^3*P^4 + a2*L^2*P^4 + a3*L*P^4 + a4*P^4 + a5*L^4*P^3 + a6*L^3*P^3 + a7*L^2*P^3 + a8*L*P^3 + a9*P^3 + a10*L^4*P^2 + a11*L^3*P^2 + a12*L^2*P^2 + a13*L*P^2 + a14*P^2 + a15*L^4*P + a16*L^3*P + a17*L^2*P + a18*L*P + a19*P + a20*L^4 + a21*L^3 + a22*L^2 + a23*L + a24; \u03bb = b0*L^4*P^4 + b1*L^3*P^4 + b2*L^2*P^4 + b3*L*P^4 + b4*P^4 + b5*L^4*P^3 + b6*L^3*P^3 + b7*L^2*P^3 + b8*L*P^3 + b9*P^3 + b10*L^4*P^2 + b11*L^3*P^2 + b12*L^2*P^2 + b13*L*P^2 + b14*P^2 + b15*L^4*P + b16*L^3*P + b17*L^2*P + b18*L*P + b19*P + b20*L^4 + b21*L^3 + b22*L^2 + b23*L + b24'}), str:'geographic_to_image': Group(path=str:'/transformations/geographic_to_image', url=NoneType:None, data=dict{str:'c': Variable(list[str:'high_precision_coeffs'], list[float:0.001, float:0.0010001, float:0.0010002, float:0.0010003, float:0.0010004, float:0.0010005, float:0.0010006, float:0.0010007, float:0.0010008, float:0.0010009, float:0.001001, float:0.0010011, float:0.0010012, float:0.0010013, float:0.0010014, float:0.0010015, float:0.0010016, float:0.0010017, float:0.0010018, float:0.0010019, float:0.001002, float:0.0010021, float:0.0010022, float:0.0010023, float:0.0010024], dict{}), str:'d': Variable(list[str:'high_precision_coeffs'], list[float:10000000000.0, float:10000001000.0, float:10000002000.0, float:10000003000.0, float:10000004000.0, float:10000005000.0, float:10000006000.0, float:10000007000.0, float:10000008000.0, float:10000009000.0, float:10000010000.0, float:10000011000.0, float:10000012000.0, float:10000013000.0, float:10000014000.0, float:10000015000.0, float:10000016000.0, float:10000017000.0, float:10000018000.0, float:10000019000.0, float:10000020000.0, float:10000021000.0, float:10000022000.0, float:10000023000.0, float:10000024000.0], dict{}), str:'origin_latitude': Variable(tuple[], float:35.25, dict{}), str:'origin_longitude': Variable(tuple[], float:139.75, dict{})}, attrs=dict{str:'formula': str:'p = c0*\u039b^4*\u03a6^4 + c1*\u039b^3*\u03a6^4 + c2*\u039b^2*\u03a6^4 + c3*\u039b*\u03a6^4 + c4*\u03a6^4 + c5*\u039b^4*\u03a6^3 + c6*\u039b^3*\u03a6^3 + c7*\u039b^2*\u03a6^3 + c8*\u039b*\u03a6^3 + c9*\u03a6^3 + c10*\u039b^4*\u03a6^2 + c11*\u039b^3*\u03a6^2 + c12*\u039b^2*\u03a6^2 + c13*\u039b*\u03a6^2 + c14*\u03a6^2 + c15*\u039b^4*\u03a6 + c16*\u039b^3*\u03a6 + c17*\u039b^2*\u03a6 + c18*\u039b*\u03a6 + c19*\u03a6; l = d0*\u039b^4*\u03a6^4 + d1*\u039b^3*\u03a6^4 + d2*\u039b^2*\u03a6^4 + d3*\u039b*\u03a6^4 + d4*\u03a6^4 + d5*\u039b^4*\u03a6^3 + d6*\u039b^3*\u03a6^3 + d7*\u039b^2*\u03a6^3 + d8*\u039b*\u03a6^3 + d9*\u03a6^3 + d10*\u039b^4*\u03a6^2 + d11*\u039b^3*\u03a6^2 + d12*\u039b^2*\u03a6^2 + d13*\u039b*\u03a6^2 + d14*\u03a6^2 + d15*\u039b^4*\u03a6 + d16*\u039b^3*\u03a6 + d17*\u039b^2*\u03a6 + d18*\u039b*\u03a6 + d19*\u03a6 + d20*\u039b^4 + d21*\u039b^3 + d22*\u039b^2 + d23*\u039b + d24'})}, attrs=dict{str:'calibration_mode_data_location_flag': str:'side_of_observation_start', str:'prf_switching': bool:True, str:'start_line_number_of_prf_switching': int:555})}, attrs=dict{})",
 "metadata/flag-only": "OK Group(path=str:'/', url=NoneType:None, data=dict{str:'transformations': Group(path=str:'/transformations', url=NoneType:None, data=dict{}, attrs=dict{str:'prf_switching': bool:False})}, attrs=dict{})",
 "metadata/empty-record-is-dropped": "OK Group(path=str:'/', url=NoneType:None, data=dict{}, attrs=dict{})",
 "metadata/bad-conversion": "EXC TypeError: cannot unpack non-iterable int object (cause: None)",
 "auxiliary/1": "OK dict{str:'data_type': str:'dummy data', str:'raw_file_data': str:'payload'}",
 "auxiliary/2": "OK dict{str:'data_type': str:'determined ephemeris', str:'raw_file_data': str:'payload'}",
 "auxiliary/3": "OK dict{str:'data_type': str:'time error information', str:'raw_file_data': str:'payload'}",
 "auxiliary/4": "OK dict{str:'data_type': str:'coordinate conversion information', str:'raw_file_data': str:'payload'}",
 "auxiliary/5": "OK dict{str:'data_type': NoneType:None, str:'raw_file_data': str:'payload'}",
 "auxiliary/0": "OK dict{str:'data_type': NoneType:None, str:'raw_file_data': str:'payload'}",
 "auxiliary/blank-number": "OK dict{str:'data_type': NoneType:None, str:'raw_file_data': str:'payload'}",
 "parse5/raw": "OK dict{str:'preamble': dict{str:'record_sequence_number': int:17, str:'first_record_subtype': int:18, str:'record_type': int:200, str:'second_record_subtype': int:18, str:'third_record_subtype': int:70, str:'record_length': int:5000}, str:'record_sequence_number': int:5, str:'conversion_from_map_projection_to_pixel': tuple[dict{str:'a': list[float:1.0, float:1.125, float:1.25, float:1.375, float:1.5, float:1.625, float:1.75, float:1.875, float:2.0, float:2.125], str:'b': list[float:-2.0, float:-1.875, float:-1.75, float:-1.625, float:-1.5, float:-1.375, float:-1.25, float:-1.125, float:-1.0, float:-0.875]}, dict{str:'formula': str:'P = a0 + a1*\u03c6 + a2*\u03bb + a3*\u03c6*\u03bb + a4*\u03c6^2 + a5*\u03bb^2 + a6*\u03c6^2*\u03bb + a7*\u03c6*\u03bb^2 + a8*\u03c6^3 + a9*\u03bb^3; L = b0 + b1*\u03c6 + b2*\u03bb + b3*\u03c6*\u03bb + b4*\u03c6^2 + b5*\u03bb^2 + b6*\u03c6^2*\u03bb + b7*\u03c6*\u03bb^2 + b8*\u03c6^3 + b9*\u03bb^3'}], str:'calibration_mode_data_location_flag': str:'side_of_observation_start', str:'calibration_at_upper_image': dict{str:'start_line_number': int:11, str:'end_line_number': int:22}, str:'calibration_at_bottom_image': dict{str:'start_line_number': int:33, str:'end_line_number': int:44}, str:'prf_switching_flag': int:1, str:'start_line_number_of_prf_switching': int:555, str:'blanks1': str:'', str:'number_of_loss_lines': dict{str:'level1.0': int:3, str:'others': int:4}, str:'blanks2': str:'', str:'system_reserve': str:'reserved', str:'conversion_from_pixel_to_geographic': tuple[dict{str:'a': list[float:100.0, float:100.125, float:100.25, float:100.375, float:100.5, float:100.625, float:100.75, float:100.875, float:101.0, float:101.125, float:101.25, float:101.375, float:101.5, float:101.625, float:101.75, float:101.875, float:102.0, float:102.125, float:102.25, float:102.375, float:102.5, float:102.625, float:102.75, float:102.875, float:103.0], str:'b': list[float:-100.0, float:-99.875, float:-99.75, float:-99.625, float:-99.5, float:-99.375, float:-99.25, float:-99.125, float:-99.0, float:-98.875, float:-98.75, float:-98.625, float:-98.5, float:-98.375, float:-98.25, float:-98.125, float:-98.0, float:-97.875, float:-97.75, float:-97.625, float:-97.5, float:-97.375, float:-97.25, float:-97.125, float:-97.0], str:'origin_pixel': float:1.5, str:'origin_line': float:2.5}, dict{str:'formula': str:'\u03c6 = a0*L^4*P^4 + a1*L^3*P^4 + a2*L^2*P^4 + a3*L*P^4 + a4*P^4 + a5*L^4*P^3 + a6*L^3*P^3 + a7*L^2*P^3 + a8*L*P^3 + a9*P^3 + a10*L^4*P^2 + a11*L^3*P^2 + a12*L^2*P^2 + a13*L*P^2 + a14*P^2 + a15*L^4*P + a16*L^3*P + a17*L^2*P + a18*L*P + a19*P + a20*L^4 + a21*L^3 + a22*L^2 + a23*L + a24; \u03bb = b0*L^4*P^4 + b1*L^3*P^4 + b2*L^2*P^4 + b3*L*P^4 + b4*P^4 + b5*L^4*P^3 + b6*L^3*P^3 + b7*L^2*P^3 + b8*L*P^3 + b9*P^3 + b10*L^4*P^2 + b11*L^3*P^2 + b12*L^2*P^2 + b13*L*P^2 + b14*P^2 + b15*L^4*P + b16*L^3*P + b17*L^2*P + b18*L*P + b19*P + b20*L^4 + b21*L^3 + b22*L^2 + b23*L + b24'}], str:'conversion_from_geographic_to_pixel': tuple[dict{str:'c': list[float:0.001, float:0.0010001, float:0.0010002, float:0.0010003, float:0.0010004, float:0.0010005, float:0.0010006, float:0.0010007, float:0.0010008, float:0.0010009, float:0.001001, float:0.0010011, float:0.0010012, float:0.0010013, float:0.0010014, float:0.0010015, float:0.0010016, float:0.0010017, float:0.0010018, float:0.0010019, float:0.001002, float:0.0010021, float:0.0010022, float:0.0010023, float:0.0010024], str:'d': list[float:10000000000.0, float:10000001000.0, float:10000002000.0, float:10000003000.0, float:10000004000.0, float:10000005000.0, float:10000006000.0, float:10000007000.0, float:10000008000.0, float:10000009000.0, float:10000010000.0, float:10000011000.0, float:10000012000.0, float:10000013000.0, float:10000014000.0, float:10000015000.0, float:10000016000.0, float:10000017000.0, float:10000018000.0, float:10000019000.0, float:10000020000.0, float:10000021000.0, float:10000022000.0, float:10000023000.0, float:10000024000.0], str:'origin_latitude': float:35.25, str:'origin_longitude': float:139.75}, dict{str:'formula': str:'p = c0*\u039b^4*\u03a6^4 + c1*\u039b^3*\u03a6^4 + c2*\u039b^2*\u03a6^4 + c3*\u039b*\u03a6^4 + c4*\u03a6^4 + c5*\u039b^4*\u03a6^3 + c6*\u039b^3*\u03a6^3 + c7*\u039b^2*\u03a6^3 + c8*\u039b*\u03a6^3 + c9*\u03a6^3 + c10*\u039b^4*\u03a6^2 + c11*\u039b^3*\u03a6^2 + c12*\u039b^2*\u03a6^2 + c13*\u039b*\u03a6^2 + c14*\u03a6^2 + c15*\u039b^4*\u03a6 + c16*\u039b^3*\u03a6 + c17*\u039b^2*\u03a6 + c18*\u039b*\u03a6 + c19*\u03a6; l = d0*\u039b^4*\u03a6^4 + d1*\u039b^3*\u03a6^4 + d2*\u039b^2*\u03a6^4 + d3*\u039b*\u03a6^4 + d4*\u03a6^4 + d5*\u039b^4*\u03a6^3 + d6*\u039b^3*\u03a6^3 + d7*\u039b^2*\u03a6^3 + d8*\u039b*\u03a6^3 + d9*\u03a6^3 + d10*\u039b^4*\u03a6^2 + d11*\u039b^3*\u03a6^2 + d12*\u039b^2*\u03a6^2 + d13*\u039b*\u03a6^2 + d14*\u03a6^2 + d15*\u039b^4*\u03a6 + d16*\u039b^3*\u03a6 + d17*\u039b^2*\u03a6 + d18*\u039b*\u03a6 + d19*\u03a6 + d20*\u039b^4 + d21*\u039b^3 + d22*\u039b^2 + d23*\u039b + d24'}], str:'blanks': str:''}"
}
""")


def compute():
    return {name: outcome(*call) for name, call in cases()}


def test_same_case_ids():
    assert list(compute()) == list(EXPECTED)


def test_outcomes_match_recording():
    actual = compute()
    mismatches = {k: (actual[k], EXPECTED.get(k)) for k in actual if actual[k] != EXPECTED.get(k)}
    assert not mismatches, mismatches


def test_no_state_shared_between_calls():
    mapping = {"prf_switching_flag": 1, "conversion_from_pixel_to_geographic": ({"a": [1]}, {"f": 1})}
    first = frd.transform_record5(mapping)
    first.attrs["injected"] = 1
    first["image_to_geographic"].attrs["injected"] = 1
    second = frd.transform_record5(mapping)
    assert second.attrs == {"prf_switching": True}
    assert second["image_to_geographic"].attrs == {"f": 1}


def test_public_names_still_there():
    for name in (
        "facility_related_data_record",
        "facility_related_data_5_record",
        "transform_auxiliary_file",
        "transform_group",
        "transform_record5",
    ):
        assert hasattr(frd, name)


if __name__ == "__main__":
    if "--record" in sys.argv:
        print(json.dumps(compute(), indent=1, ensure_ascii=True))
        sys.exit(0)

    test_same_case_ids()
    test_outcomes_match_recording()
    test_no_state_shared_between_calls()
    test_public_names_still_there()
    print(f"equiv 4: {len(EXPECTED)} recorded outcomes reproduced")
