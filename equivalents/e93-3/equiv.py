"""Equivalence check for refactoring 3 (caching/__init__.py and caching/path.py).

Run as ``PYTHONPATH=<worktree> python equiv.py``; ``--record`` prints the observed
results instead of comparing them (this is how EXPECTED was produced from the
unchanged code).
"""

import json
import pprint
import shutil
import sys
import tempfile
import warnings
from pathlib import Path, PurePosixPath

import fsspec
import numpy as np
import platformdirs

import ceos_alos2.sar_image.caching as caching
from ceos_alos2.hierarchy import Group, Variable
from ceos_alos2.sar_image.caching import path as cpath


def observe(func, *args, **kwargs):
    try:
        result = func(*args, **kwargs)
    except BaseException as e:  # noqa: B902
        cause = type(e.__cause__).__name__ if e.__cause__ is not None else None
        return ("raised", type(e).__name__, str(e), cause)
    return ("returned", type(result).__name__, repr(result))


class patched:
    """minimal monkeypatch context manager"""

    def __init__(self, obj, **attrs):
        self.obj = obj
        self.attrs = attrs

    def __enter__(self):
        self.saved = {name: getattr(self.obj, name) for name in self.attrs}
        for name, value in self.attrs.items():
            setattr(self.obj, name, value)

    def __exit__(self, *exc):
        for name, value in self.saved.items():
            setattr(self.obj, name, value)


class WeirdFormat:
    def __format__(self, spec):
        return "weird/format"

    def __str__(self):
        return "weird/str"


class FailingFormat:
    def __format__(self, spec):
        raise RuntimeError("cannot format")


class StrSubclass(str):
    def rsplit(self, *args):
        raise AssertionError("not used")

    def rpartition(self, *args):
        raise AssertionError("not used")


PATHS = {
    "plain": "IMG-HH-ALOS2012345678-200101-WBDR1.1__D",
    "relative": "scene/IMG-HV-ALOS2012345678-200101-WBDR1.1__D",
    "absolute": "/data/scene/IMG",
    "trailing-slash": "scene/",
    "empty": "",
    "slash": "/",
    "double-slash": "a//b",
    "dots": "a/../b/.",
    "backslash": "a\\b",
    "unicode": "scène/画像",
    "space": "a b/c d",
    "index-suffix": "a/b.index",
    "url": "s3://bucket/scene/IMG",
    "int": 5,
    "none": None,
    "pure-path": PurePosixPath("a/b/c"),
    "bytes": b"a/b",
    "tuple": ("a/b", "c"),
    "weird-format": WeirdFormat(),
    "failing-format": FailingFormat(),
    "str-subclass": StrSubclass("x/y/z"),
}

ROOTS = {
    "s3": "s3://bucket/scene",
    "memory": "/scene",
    "empty": "",
    "unicode": "s3://bücket/scène",
    "str-subclass": StrSubclass("abc"),
    "none": None,
    "bytes": b"abc",
    "int": 1,
}


def build_group():
    return Group(
        path=None,
        url="memory://eq3/scene",
        data={
            "time": Variable("rows", np.array(["2020-01-01", "2020-01-02"], dtype="M8[s]"), {}),
            "v": Variable(["x"], np.array([1.5, 2.5]), {"t": (1, (2,))}),
            "sub": Group(path=None, url=None, data={}, attrs={"a": [1, (2,)]}),
        },
        attrs={"k": (1, 2)},
    )


VALID = caching.encode(build_group())


class RecordingMapper:
    """mapping-like object which logs how it is used"""

    def __init__(self, log, root="/remote/root", content=None, getitem=None):
        self.log = log
        self._root = root
        self.content = content or {}
        self.getitem = getitem

    @property
    def root(self):
        self.log.append(("mapper.root",))
        if isinstance(self._root, Exception):
            raise self._root
        return self._root

    def __contains__(self, key):
        self.log.append(("mapper.__contains__", key))
        return key in self.content

    def __getitem__(self, key):
        self.log.append(("mapper.__getitem__", key))
        if self.getitem is not None:
            return self.getitem(key)
        return self.content[key]

    def __setitem__(self, key, value):
        self.log.append(("mapper.__setitem__", key, value))


def raiser(exc):
    def func(*args, **kwargs):
        raise exc

    return func


def run_read(log, mapper, path, rpc, *, local_files, read_text=None, decode=None):
    def fake_is_file(self):
        log.append(("Path.is_file", str(self)))
        return self.name in local_files

    def fake_read_text(self, *args, **kwargs):
        log.append(("Path.read_text", str(self), args, kwargs))
        if read_text is not None:
            return read_text(self)
        return local_files[self.name]

    def forbidden(name):
        def func(self, *args, **kwargs):
            log.append((name, str(self), args, kwargs))

        return func

    patches = [
        patched(
            Path,
            is_file=fake_is_file,
            read_text=fake_read_text,
            exists=forbidden("Path.exists"),
            open=forbidden("Path.open"),
            mkdir=forbidden("Path.mkdir"),
            write_text=forbidden("Path.write_text"),
            read_bytes=forbidden("Path.read_bytes"),
            stat=forbidden("Path.stat"),
        ),
        patched(cpath, cache_root=Path("/cache-root")),
    ]
    if decode is not None:
        patches.append(patched(caching, decode=decode))

    for p in patches:
        p.__enter__()
    try:
        if rpc is POSITIONAL:
            outcome = observe(caching.read_cache, mapper, path, 3)
        else:
            outcome = observe(caching.read_cache, mapper, path, records_per_chunk=rpc)
    finally:
        for p in reversed(patches):
            p.__exit__()
    return outcome


POSITIONAL = object()


def describe_tree(outcome_repr):
    return outcome_repr


def read_scenarios():
    results = {}

    def scenario(name, *, path="scene/image", rpc=2, local_files=None, read_text=None, decode=None,
                 **mapper_kwargs):
        log = []
        mapper = RecordingMapper(log, **mapper_kwargs)
        outcome = run_read(
            log, mapper, path, rpc, local_files=local_files or {}, read_text=read_text, decode=decode
        )
        results[f"read_cache/{name}"] = (outcome, log)

    scenario("local", local_files={"image.index": VALID})
    scenario("local-and-remote", local_files={"image.index": VALID},
             content={"scene/image.index": b"{}"})
    scenario("remote", content={"scene/image.index": VALID.encode()})
    scenario("remote-positional-rpc", rpc=POSITIONAL, content={"scene/image.index": VALID.encode()})
    scenario("remote-other-name", content={"image.index": VALID.encode()})
    scenario("local-other-name", local_files={"scene.index": VALID})
    scenario("none")
    scenario("none-weird-path", path=WeirdFormat())
    scenario("none-int-path", path=5)
    scenario("local-invalid", local_files={"image.index": VALID[:-5]})
    scenario("local-empty", local_files={"image.index": ""})
    scenario("local-plain-json", local_files={"image.index": '{"a": [1, 2]}'})
    scenario("local-null", local_files={"image.index": "null"})
    scenario("local-bytes", local_files={"image.index": b'{"a": 1}'})
    scenario("local-none", local_files={"image.index": None})
    scenario("local-incomplete-variable", local_files={"image.index": '{"__type__": "variable"}'})
    scenario("local-oserror", local_files={"image.index": VALID}, read_text=raiser(OSError("boom")))
    scenario("local-filenotfound", local_files={"image.index": VALID},
             read_text=raiser(FileNotFoundError("gone")))
    scenario("local-valueerror", local_files={"image.index": VALID},
             read_text=raiser(ValueError("bad read")))
    scenario("local-unicode-error", local_files={"image.index": VALID},
             read_text=lambda p: b"\xff".decode("utf-8"))
    scenario("remote-invalid", content={"scene/image.index": b'{"__type__": "group"'})
    scenario("remote-not-utf8", content={"scene/image.index": b"\xff\xfe"})
    scenario("remote-str", content={"scene/image.index": VALID})
    scenario("remote-keyerror", content={"scene/image.index": b"{}"},
             getitem=raiser(KeyError("scene/image.index")))
    scenario("remote-oserror", content={"scene/image.index": b"{}"}, getitem=raiser(OSError("net")))
    scenario("root-none", root=None)
    scenario("root-raises", root=AttributeError("no root"))
    scenario("root-bytes", root=b"abc", local_files={"image.index": VALID})
    scenario("failing-path", path=FailingFormat(), root=None)
    for rpc in [None, -1, "auto", "1KiB", "nonsense"]:
        scenario(f"rpc={rpc!r}", rpc=rpc, local_files={"image.index": VALID})
    for name, path in PATHS.items():
        scenario(f"path-{name}", path=path,
                 content={"b.index": b"[1]", "scene/.index": b"[2]", ".index": b"[3]"})

    # how decode is called
    def fake_decode(*args, **kwargs):
        return ("decode", args, kwargs)

    scenario("decode-call-local", local_files={"image.index": "text"}, decode=fake_decode, rpc="x")
    scenario("decode-call-remote", content={"scene/image.index": b"remote"}, decode=fake_decode,
             rpc=POSITIONAL)
    scenario("decode-call-none", decode=fake_decode)
    scenario("decode-raises", local_files={"image.index": "text"}, decode=raiser(KeyError("k")))
    return results


def create_scenarios():
    results = {}

    def scenario(name, *, path="scene/image", data=None, mkdir=None, write_text=None, encode=None,
                 **mapper_kwargs):
        log = []
        mapper = RecordingMapper(log, **mapper_kwargs)

        def fake_mkdir(self, *args, **kwargs):
            log.append(("Path.mkdir", str(self), args, sorted(kwargs.items())))
            if mkdir is not None:
                return mkdir(self)

        def fake_write_text(self, *args, **kwargs):
            log.append(("Path.write_text", str(self), args, kwargs))
            if write_text is not None:
                return write_text(self)
            return 42

        def forbidden(name):
            def func(self, *args, **kwargs):
                log.append((name, str(self), args, kwargs))

            return func

        patches = [
            patched(
                Path,
                mkdir=fake_mkdir,
                write_text=fake_write_text,
                is_file=forbidden("Path.is_file"),
                exists=forbidden("Path.exists"),
                open=forbidden("Path.open"),
                read_text=forbidden("Path.read_text"),
                write_bytes=forbidden("Path.write_bytes"),
            ),
            patched(cpath, cache_root=Path("/cache-root")),
        ]
        if encode is not None:
            patches.append(patched(caching, encode=encode))
        for p in patches:
            p.__enter__()
        try:
            outcome = observe(caching.create_cache, mapper, path, build_group() if data is None else data)
        finally:
            for p in reversed(patches):
                p.__exit__()
        results[f"create_cache/{name}"] = (outcome, log)

    scenario("group")
    scenario("variable", data=Variable("x", np.array([1, 2], dtype="int8"), {}))
    scenario("plain-data", data={"a": (1, 2)})
    scenario("unserialisable", data=Variable("x", np.array([1]), {"s": {1, 2}}))
    scenario("unserialisable-plain", data={"a": object})
    scenario("nan", data={"a": float("nan")})
    scenario("mkdir-fails", mkdir=raiser(PermissionError("read-only")))
    scenario("mkdir-fails-unserialisable", mkdir=raiser(PermissionError("read-only")),
             data={"a": object})
    scenario("write-fails", write_text=raiser(OSError("disk full")))
    scenario("root-none", root=None)
    scenario("root-none-unserialisable", root=None, data={"a": object})
    scenario("encode-call", encode=lambda *args, **kwargs: ("encoded", args, kwargs), data="DATA")
    scenario("encode-raises", encode=raiser(ValueError("no")))
    for name, path in PATHS.items():
        scenario(f"path-{name}", path=path, data={})
    return results


def real_files():
    results = {}
    tmp = Path(tempfile.mkdtemp(prefix="eq3-"))
    try:
        with patched(cpath, cache_root=tmp / "cache" / "root"):
            mapper = fsspec.get_mapper("memory://eq3/scene")
            for key in list(mapper):
                del mapper[key]
            group = build_group()

            results["real/missing"] = observe(caching.read_cache, mapper, "sub/image", 2)
            results["real/create"] = observe(caching.create_cache, mapper, "sub/image", group)
            results["real/files"] = sorted(
                str(p.relative_to(tmp)) for p in tmp.rglob("*") if p.is_file()
            )
            results["real/content"] = [p.read_text() for p in tmp.rglob("*.index")]
            results["real/mapper-untouched"] = list(mapper)
            decoded = caching.read_cache(mapper, "sub/image", records_per_chunk=2)
            results["real/read-local"] = (type(decoded).__name__, bool(decoded == group))
            results["real/create-again"] = observe(
                caching.create_cache, mapper, "sub/image", Variable("x", np.array([1]), {})
            )
            results["real/content-again"] = [p.read_text() for p in tmp.rglob("*.index")]

            mapper["other/image2.index"] = caching.encode(group).encode()
            decoded = caching.read_cache(mapper, "other/image2", records_per_chunk=None)
            results["real/read-remote"] = (type(decoded).__name__, bool(decoded == group))
            results["real/remote-wrong-path"] = observe(caching.read_cache, mapper, "image2", 2)
            mapper["broken.index"] = b'{"__type__": '
            results["real/remote-broken"] = observe(caching.read_cache, mapper, "broken", 2)
            for key in list(mapper):
                del mapper[key]
    finally:
        shutil.rmtree(tmp)
    return results


def collect():
    warnings.simplefilter("ignore")
    results = {}

    results["constants"] = (
        cpath.project_name,
        cpath.cache_root == platformdirs.user_cache_path("xarray-ceos-alos2"),
        type(cpath.cache_root).__name__,
        issubclass(caching.CachingError, FileNotFoundError),
        caching.CachingError.__mro__[1].__name__,
        caching.CachingError.__module__,
        caching.CachingError.__qualname__,
    )

    for algorithm in ["sha256", "md5", "sha1", "blake2b", "SHA256", "nonsense", "", None, 5]:
        for name, data in ROOTS.items():
            results[f"hashsum/{algorithm!r}/{name}"] = observe(cpath.hashsum, data, algorithm)
    for name, data in ROOTS.items():
        results[f"hashsum/default/{name}"] = observe(cpath.hashsum, data)
        results[f"hashsum/keyword/{name}"] = observe(cpath.hashsum, data=data, algorithm="sha1")

    with patched(cpath, cache_root=Path("/cache-root")):
        for rname, root in ROOTS.items():
            for pname, path in PATHS.items():
                if rname not in ("s3", "none") and pname not in ("relative", "empty", "failing-format"):
                    continue
                results[f"local_cache_location/{rname}/{pname}"] = observe(
                    cpath.local_cache_location, root, path
                )
                results[f"remote_cache_location/{rname}/{pname}"] = observe(
                    cpath.remote_cache_location, root, path
                )
        results["local_cache_location/keywords"] = observe(
            cpath.local_cache_location, remote_root="r", path="a/b"
        )
        results["remote_cache_location/keywords"] = observe(
            cpath.remote_cache_location, remote_root="r", path="a/b"
        )
    with patched(cpath, cache_root=PurePosixPath("relative/cache")):
        results["local_cache_location/relative-root"] = observe(
            cpath.local_cache_location, "r", "a/b"
        )
    with patched(cpath, cache_root="/string-root"):
        results["local_cache_location/str-root"] = observe(cpath.local_cache_location, "r", "a/b")
    with patched(cpath, hashsum=lambda data: "HASH"):
        results["local_cache_location/patched-hashsum"] = observe(
            cpath.local_cache_location, "r", "a/b"
        )
    results["reexports"] = (
        caching.local_cache_location is cpath.local_cache_location,
        caching.remote_cache_location is cpath.remote_cache_location,
    )

    # encode / decode
    results["encode/group"] = observe(caching.encode, build_group())
    results["encode/plain"] = observe(caching.encode, {"a": (1, [2, (3,)]), "b": None})
    results["encode/unserialisable"] = observe(caching.encode, {"a": {1}})
    results["encode/non-str-keys"] = observe(caching.encode, {1: 2, None: 3})
    for name, text in {
        "valid": VALID,
        "empty": "",
        "truncated": VALID[: len(VALID) // 2],
        "trailing": VALID + "x",
        "bytes": VALID.encode(),
        "bytearray": bytearray(b"[1, 2]"),
        "bad-bytes": b"\xff\xfe\x00",
        "none": None,
        "int": 1,
        "nan": "NaN",
        "tuple": '{"__type__": "tuple", "data": [1, 2]}',
        "tuple-no-data": '{"__type__": "tuple"}',
        "incomplete-group": '{"__type__": "group", "path": "/"}',
    }.items():
        for rpc in [2, None]:
            results[f"decode/{name}/{rpc}"] = observe(caching.decode, text, records_per_chunk=rpc)
    results["decode/positional"] = observe(caching.decode, "[1]", 2)
    results["decode/missing-argument"] = observe(caching.decode, "[1]")
    decoded = caching.decode(VALID, records_per_chunk=2)
    results["decode/roundtrip"] = bool(decoded == build_group())

    results.update(read_scenarios())
    results.update(create_scenarios())
    results.update(real_files())

    results["public"] = (
        sorted(
            name
            for name in ["CachingError", "encode", "decode", "read_cache", "create_cache", "json",
                         "decode_hierarchy", "postprocess", "encode_hierarchy", "preprocess",
                         "local_cache_location", "remote_cache_location", "decoders", "encoders",
                         "path"]
            if hasattr(caching, name)
        ),
        sorted(
            name
            for name in ["hashlib", "platformdirs", "project_name", "cache_root", "hashsum",
                         "local_cache_location", "remote_cache_location"]
            if hasattr(cpath, name)
        ),
    )
    return results


# recorded with the unchanged code (HEAD) using --record
EXPECTED = {'constants': ('xarray-ceos-alos2',
               True,
               'PosixPath',
               True,
               'FileNotFoundError',
               'ceos_alos2.sar_image.caching',
               'CachingError'),
 "hashsum/'sha256'/s3": ('returned',
                         'str',
                         "'3190b4c3291d58bab9f052faeb08c11ecdff8f47805e5fd4afff6691632ee557'"),
 "hashsum/'sha256'/memory": ('returned',
                             'str',
                             "'37fa43bc068584629fbf957b989f1898ef747773c500de88e426337fb06e364d'"),
 "hashsum/'sha256'/empty": ('returned',
                            'str',
                            "'e3b0c44298fc1c149afbf4c8996fb92427ae41e4649b934ca495991b7852b855'"),
 "hashsum/'sha256'/unicode": ('returned',
                              'str',
                              "'7d2c78f01a5bcec364453ae367b6617c50324d5feff5b3a51c02d2f186fb5cc4'"),
 "hashsum/'sha256'/str-subclass": ('returned',
                                   'str',
                                   "'ba7816bf8f01cfea414140de5dae2223b00361a396177a9cb410ff61f20015ad'"),
 "hashsum/'sha256'/none": ('raised',
                           'AttributeError',
                           "'NoneType' object has no attribute 'encode'",
                           None),
 "hashsum/'sha256'/bytes": ('raised',
                            'AttributeError',
                            "'bytes' object has no attribute 'encode'",
                            None),
 "hashsum/'sha256'/int": ('raised',
                          'AttributeError',
                          "'int' object has no attribute 'encode'",
                          None),
 "hashsum/'md5'/s3": ('returned', 'str', "'0e5069065130c45eab878fffc23dd093'"),
 "hashsum/'md5'/memory": ('returned', 'str', "'2e8e0645123e55c3bfef9b0bdbc211eb'"),
 "hashsum/'md5'/empty": ('returned', 'str', "'d41d8cd98f00b204e9800998ecf8427e'"),
 "hashsum/'md5'/unicode": ('returned', 'str', "'0465cc4b4d93105a11cd57bfe257859a'"),
 "hashsum/'md5'/str-subclass": ('returned', 'str', "'900150983cd24fb0d6963f7d28e17f72'"),
 "hashsum/'md5'/none": ('raised',
                        'AttributeError',
                        "'NoneType' object has no attribute 'encode'",
                        None),
 "hashsum/'md5'/bytes": ('raised',
                         'AttributeError',
                         "'bytes' object has no attribute 'encode'",
                         None),
 "hashsum/'md5'/int": ('raised', 'AttributeError', "'int' object has no attribute 'encode'", None),
 "hashsum/'sha1'/s3": ('returned', 'str', "'df6ab6e7296394d0256c0e5a27f4632cf35cbfaa'"),
 "hashsum/'sha1'/memory": ('returned', 'str', "'4e15334c04de2bd81fb97171e4a185dde1eeba90'"),
 "hashsum/'sha1'/empty": ('returned', 'str', "'da39a3ee5e6b4b0d3255bfef95601890afd80709'"),
 "hashsum/'sha1'/unicode": ('returned', 'str', "'f1e175595dea352ca3f6c1aef0714172aa0314c9'"),
 "hashsum/'sha1'/str-subclass": ('returned', 'str', "'a9993e364706816aba3e25717850c26c9cd0d89d'"),
 "hashsum/'sha1'/none": ('raised',
                         'AttributeError',
                         "'NoneType' object has no attribute 'encode'",
                         None),
 "hashsum/'sha1'/bytes": ('raised',
                          'AttributeError',
                          "'bytes' object has no attribute 'encode'",
                          None),
 "hashsum/'sha1'/int": ('raised', 'AttributeError', "'int' object has no attribute 'encode'", None),
 "hashsum/'blake2b'/s3": ('returned',
                          'str',
                          "'5ba0d3a1614f75449dac739f4ce51a7b069841f9c0bb805262fd01d0ccd07a8cc9db35b74c1e02250257a925ed8422d2bca6f6a03249395016a154150df097dc'"),
 "hashsum/'blake2b'/memory": ('returned',
                              'str',
                              "'375869a97028c7e126123153abf9e5c806dac16da2f8c1e10a6b718d8b466ce1d3fef5f8cf35b31873276ad80d6927f2fe5a09dc69caeda88a18a81762abca7f'"),
 "hashsum/'blake2b'/empty": ('returned',
                             'str',
                             "'786a02f742015903c6c6fd852552d272912f4740e15847618a86e217f71f5419d25e1031afee585313896444934eb04b903a685b1448b755d56f701afe9be2ce'"),
 "hashsum/'blake2b'/unicode": ('returned',
                               'str',
                               "'0e70023c6a5557e2e5b81a5947139f3539eb93172e4c492f071ae0172ab5dc141f5e923af60e4afd821462a02fafb77ee096863e28e3aaa0a560e35e21c8319c'"),
 "hashsum/'blake2b'/str-subclass": ('returned',
                                    'str',
                                    "'ba80a53f981c4d0d6a2797b69f12f6e94c212f14685ac4b74b12bb6fdbffa2d17d87c5392aab792dc252d5de4533cc9518d38aa8dbf1925ab92386edd4009923'"),
 "hashsum/'blake2b'/none": ('raised',
                            'AttributeError',
                            "'NoneType' object has no attribute 'encode'",
                            None),
 "hashsum/'blake2b'/bytes": ('raised',
                             'AttributeError',
                             "'bytes' object has no attribute 'encode'",
                             None),
 "hashsum/'blake2b'/int": ('raised',
                           'AttributeError',
                           "'int' object has no attribute 'encode'",
                           None),
 "hashsum/'SHA256'/s3": ('returned',
                         'str',
                         "'3190b4c3291d58bab9f052faeb08c11ecdff8f47805e5fd4afff6691632ee557'"),
 "hashsum/'SHA256'/memory": ('returned',
                             'str',
                             "'37fa43bc068584629fbf957b989f1898ef747773c500de88e426337fb06e364d'"),
 "hashsum/'SHA256'/empty": ('returned',
                            'str',
                            "'e3b0c44298fc1c149afbf4c8996fb92427ae41e4649b934ca495991b7852b855'"),
 "hashsum/'SHA256'/unicode": ('returned',
                              'str',
                              "'7d2c78f01a5bcec364453ae367b6617c50324d5feff5b3a51c02d2f186fb5cc4'"),
 "hashsum/'SHA256'/str-subclass": ('returned',
                                   'str',
                                   "'ba7816bf8f01cfea414140de5dae2223b00361a396177a9cb410ff61f20015ad'"),
 "hashsum/'SHA256'/none": ('raised',
                           'AttributeError',
                           "'NoneType' object has no attribute 'encode'",
                           None),
 "hashsum/'SHA256'/bytes": ('raised',
                            'AttributeError',
                            "'bytes' object has no attribute 'encode'",
                            None),
 "hashsum/'SHA256'/int": ('raised',
                          'AttributeError',
                          "'int' object has no attribute 'encode'",
                          None),
 "hashsum/'nonsense'/s3": ('raised', 'ValueError', 'unsupported hash type nonsense', None),
 "hashsum/'nonsense'/memory": ('raised', 'ValueError', 'unsupported hash type nonsense', None),
 "hashsum/'nonsense'/empty": ('raised', 'ValueError', 'unsupported hash type nonsense', None),
 "hashsum/'nonsense'/unicode": ('raised', 'ValueError', 'unsupported hash type nonsense', None),
 "hashsum/'nonsense'/str-subclass": ('raised',
                                     'ValueError',
                                     'unsupported hash type nonsense',
                                     None),
 "hashsum/'nonsense'/none": ('raised', 'ValueError', 'unsupported hash type nonsense', None),
 "hashsum/'nonsense'/bytes": ('raised', 'ValueError', 'unsupported hash type nonsense', None),
 "hashsum/'nonsense'/int": ('raised', 'ValueError', 'unsupported hash type nonsense', None),
 "hashsum/''/s3": ('raised', 'ValueError', 'unsupported hash type ', None),
 "hashsum/''/memory": ('raised', 'ValueError', 'unsupported hash type ', None),
 "hashsum/''/empty": ('raised', 'ValueError', 'unsupported hash type ', None),
 "hashsum/''/unicode": ('raised', 'ValueError', 'unsupported hash type ', None),
 "hashsum/''/str-subclass": ('raised', 'ValueError', 'unsupported hash type ', None),
 "hashsum/''/none": ('raised', 'ValueError', 'unsupported hash type ', None),
 "hashsum/''/bytes": ('raised', 'ValueError', 'unsupported hash type ', None),
 "hashsum/''/int": ('raised', 'ValueError', 'unsupported hash type ', None),
 'hashsum/None/s3': ('raised', 'TypeError', 'name must be a string', None),
 'hashsum/None/memory': ('raised', 'TypeError', 'name must be a string', None),
 'hashsum/None/empty': ('raised', 'TypeError', 'name must be a string', None),
 'hashsum/None/unicode': ('raised', 'TypeError', 'name must be a string', None),
 'hashsum/None/str-subclass': ('raised', 'TypeError', 'name must be a string', None),
 'hashsum/None/none': ('raised', 'TypeError', 'name must be a string', None),
 'hashsum/None/bytes': ('raised', 'TypeError', 'name must be a string', None),
 'hashsum/None/int': ('raised', 'TypeError', 'name must be a string', None),
 'hashsum/5/s3': ('raised', 'TypeError', 'name must be a string', None),
 'hashsum/5/memory': ('raised', 'TypeError', 'name must be a string', None),
 'hashsum/5/empty': ('raised', 'TypeError', 'name must be a string', None),
 'hashsum/5/unicode': ('raised', 'TypeError', 'name must be a string', None),
 'hashsum/5/str-subclass': ('raised', 'TypeError', 'name must be a string', None),
 'hashsum/5/none': ('raised', 'TypeError', 'name must be a string', None),
 'hashsum/5/bytes': ('raised', 'TypeError', 'name must be a string', None),
 'hashsum/5/int': ('raised', 'TypeError', 'name must be a string', None),
 'hashsum/default/s3': ('returned',
                        'str',
                        "'3190b4c3291d58bab9f052faeb08c11ecdff8f47805e5fd4afff6691632ee557'"),
 'hashsum/keyword/s3': ('returned', 'str', "'df6ab6e7296394d0256c0e5a27f4632cf35cbfaa'"),
 'hashsum/default/memory': ('returned',
                            'str',
                            "'37fa43bc068584629fbf957b989f1898ef747773c500de88e426337fb06e364d'"),
 'hashsum/keyword/memory': ('returned', 'str', "'4e15334c04de2bd81fb97171e4a185dde1eeba90'"),
 'hashsum/default/empty': ('returned',
                           'str',
                           "'e3b0c44298fc1c149afbf4c8996fb92427ae41e4649b934ca495991b7852b855'"),
 'hashsum/keyword/empty': ('returned', 'str', "'da39a3ee5e6b4b0d3255bfef95601890afd80709'"),
 'hashsum/default/unicode': ('returned',
                             'str',
                             "'7d2c78f01a5bcec364453ae367b6617c50324d5feff5b3a51c02d2f186fb5cc4'"),
 'hashsum/keyword/unicode': ('returned', 'str', "'f1e175595dea352ca3f6c1aef0714172aa0314c9'"),
 'hashsum/default/str-subclass': ('returned',
                                  'str',
                                  "'ba7816bf8f01cfea414140de5dae2223b00361a396177a9cb410ff61f20015ad'"),
 'hashsum/keyword/str-subclass': ('returned', 'str', "'a9993e364706816aba3e25717850c26c9cd0d89d'"),
 'hashsum/default/none': ('raised',
                          'AttributeError',
                          "'NoneType' object has no attribute 'encode'",
                          None),
 'hashsum/keyword/none': ('raised',
                          'AttributeError',
                          "'NoneType' object has no attribute 'encode'",
                          None),
 'hashsum/default/bytes': ('raised',
                           'AttributeError',
                           "'bytes' object has no attribute 'encode'",
                           None),
 'hashsum/keyword/bytes': ('raised',
                           'AttributeError',
                           "'bytes' object has no attribute 'encode'",
                           None),
 'hashsum/default/int': ('raised',
                         'AttributeError',
                         "'int' object has no attribute 'encode'",
                         None),
 'hashsum/keyword/int': ('raised',
                         'AttributeError',
                         "'int' object has no attribute 'encode'",
                         None),
 'local_cache_location/s3/plain': ('returned',
                                   'PosixPath',
                                   "PosixPath('/cache-root/3190b4c3291d58bab9f052faeb08c11ecdff8f47805e5fd4afff6691632ee557/IMG-HH-ALOS2012345678-200101-WBDR1.1__D.index')"),
 'remote_cache_location/s3/plain': ('returned',
                                    'str',
                                    "'IMG-HH-ALOS2012345678-200101-WBDR1.1__D.index'"),
 'local_cache_location/s3/relative': ('returned',
                                      'PosixPath',
                                      "PosixPath('/cache-root/3190b4c3291d58bab9f052faeb08c11ecdff8f47805e5fd4afff6691632ee557/IMG-HV-ALOS2012345678-200101-WBDR1.1__D.index')"),
 'remote_cache_location/s3/relative': ('returned',
                                       'str',
                                       "'scene/IMG-HV-ALOS2012345678-200101-WBDR1.1__D.index'"),
 'local_cache_location/s3/absolute': ('returned',
                                      'PosixPath',
                                      "PosixPath('/cache-root/3190b4c3291d58bab9f052faeb08c11ecdff8f47805e5fd4afff6691632ee557/IMG.index')"),
 'remote_cache_location/s3/absolute': ('returned', 'str', "'/data/scene/IMG.index'"),
 'local_cache_location/s3/trailing-slash': ('returned',
                                            'PosixPath',
                                            "PosixPath('/cache-root/3190b4c3291d58bab9f052faeb08c11ecdff8f47805e5fd4afff6691632ee557/.index')"),
 'remote_cache_location/s3/trailing-slash': ('returned', 'str', "'scene/.index'"),
 'local_cache_location/s3/empty': ('returned',
                                   'PosixPath',
                                   "PosixPath('/cache-root/3190b4c3291d58bab9f052faeb08c11ecdff8f47805e5fd4afff6691632ee557/.index')"),
 'remote_cache_location/s3/empty': ('returned', 'str', "'.index'"),
 'local_cache_location/s3/slash': ('returned',
                                   'PosixPath',
                                   "PosixPath('/cache-root/3190b4c3291d58bab9f052faeb08c11ecdff8f47805e5fd4afff6691632ee557/.index')"),
 'remote_cache_location/s3/slash': ('returned', 'str', "'/.index'"),
 'local_cache_location/s3/double-slash': ('returned',
                                          'PosixPath',
                                          "PosixPath('/cache-root/3190b4c3291d58bab9f052faeb08c11ecdff8f47805e5fd4afff6691632ee557/b.index')"),
 'remote_cache_location/s3/double-slash': ('returned', 'str', "'a//b.index'"),
 'local_cache_location/s3/dots': ('returned',
                                  'PosixPath',
                                  "PosixPath('/cache-root/3190b4c3291d58bab9f052faeb08c11ecdff8f47805e5fd4afff6691632ee557/..index')"),
 'remote_cache_location/s3/dots': ('returned', 'str', "'a/../b/..index'"),
 'local_cache_location/s3/backslash': ('returned',
                                       'PosixPath',
                                       "PosixPath('/cache-root/3190b4c3291d58bab9f052faeb08c11ecdff8f47805e5fd4afff6691632ee557/a\\\\b.index')"),
 'remote_cache_location/s3/backslash': ('returned', 'str', "'a\\\\b.index'"),
 'local_cache_location/s3/unicode': ('returned',
                                     'PosixPath',
                                     "PosixPath('/cache-root/3190b4c3291d58bab9f052faeb08c11ecdff8f47805e5fd4afff6691632ee557/画像.index')"),
 'remote_cache_location/s3/unicode': ('returned', 'str', "'scène/画像.index'"),
 'local_cache_location/s3/space': ('returned',
                                   'PosixPath',
                                   "PosixPath('/cache-root/3190b4c3291d58bab9f052faeb08c11ecdff8f47805e5fd4afff6691632ee557/c "
                                   "d.index')"),
 'remote_cache_location/s3/space': ('returned', 'str', "'a b/c d.index'"),
 'local_cache_location/s3/index-suffix': ('returned',
                                          'PosixPath',
                                          "PosixPath('/cache-root/3190b4c3291d58bab9f052faeb08c11ecdff8f47805e5fd4afff6691632ee557/b.index.index')"),
 'remote_cache_location/s3/index-suffix': ('returned', 'str', "'a/b.index.index'"),
 'local_cache_location/s3/url': ('returned',
                                 'PosixPath',
                                 "PosixPath('/cache-root/3190b4c3291d58bab9f052faeb08c11ecdff8f47805e5fd4afff6691632ee557/IMG.index')"),
 'remote_cache_location/s3/url': ('returned', 'str', "'s3://bucket/scene/IMG.index'"),
 'local_cache_location/s3/int': ('returned',
                                 'PosixPath',
                                 "PosixPath('/cache-root/3190b4c3291d58bab9f052faeb08c11ecdff8f47805e5fd4afff6691632ee557/5.index')"),
 'remote_cache_location/s3/int': ('returned', 'str', "'5.index'"),
 'local_cache_location/s3/none': ('returned',
                                  'PosixPath',
                                  "PosixPath('/cache-root/3190b4c3291d58bab9f052faeb08c11ecdff8f47805e5fd4afff6691632ee557/None.index')"),
 'remote_cache_location/s3/none': ('returned', 'str', "'None.index'"),
 'local_cache_location/s3/pure-path': ('returned',
                                       'PosixPath',
                                       "PosixPath('/cache-root/3190b4c3291d58bab9f052faeb08c11ecdff8f47805e5fd4afff6691632ee557/c.index')"),
 'remote_cache_location/s3/pure-path': ('returned', 'str', "'a/b/c.index'"),
 'local_cache_location/s3/bytes': ('returned',
                                   'PosixPath',
                                   'PosixPath("/cache-root/3190b4c3291d58bab9f052faeb08c11ecdff8f47805e5fd4afff6691632ee557/b\'.index")'),
 'remote_cache_location/s3/bytes': ('returned', 'str', '"b\'a/b\'.index"'),
 'local_cache_location/s3/tuple': ('returned',
                                   'PosixPath',
                                   'PosixPath("/cache-root/3190b4c3291d58bab9f052faeb08c11ecdff8f47805e5fd4afff6691632ee557/b\', '
                                   '\'c\').index")'),
 'remote_cache_location/s3/tuple': ('returned', 'str', '"(\'a/b\', \'c\').index"'),
 'local_cache_location/s3/weird-format': ('returned',
                                          'PosixPath',
                                          "PosixPath('/cache-root/3190b4c3291d58bab9f052faeb08c11ecdff8f47805e5fd4afff6691632ee557/format.index')"),
 'remote_cache_location/s3/weird-format': ('returned', 'str', "'weird/format.index'"),
 'local_cache_location/s3/failing-format': ('raised', 'RuntimeError', 'cannot format', None),
 'remote_cache_location/s3/failing-format': ('raised', 'RuntimeError', 'cannot format', None),
 'local_cache_location/s3/str-subclass': ('returned',
                                          'PosixPath',
                                          "PosixPath('/cache-root/3190b4c3291d58bab9f052faeb08c11ecdff8f47805e5fd4afff6691632ee557/z.index')"),
 'remote_cache_location/s3/str-subclass': ('returned', 'str', "'x/y/z.index'"),
 'local_cache_location/memory/relative': ('returned',
                                          'PosixPath',
                                          "PosixPath('/cache-root/37fa43bc068584629fbf957b989f1898ef747773c500de88e426337fb06e364d/IMG-HV-ALOS2012345678-200101-WBDR1.1__D.index')"),
 'remote_cache_location/memory/relative': ('returned',
                                           'str',
                                           "'scene/IMG-HV-ALOS2012345678-200101-WBDR1.1__D.index'"),
 'local_cache_location/memory/empty': ('returned',
                                       'PosixPath',
                                       "PosixPath('/cache-root/37fa43bc068584629fbf957b989f1898ef747773c500de88e426337fb06e364d/.index')"),
 'remote_cache_location/memory/empty': ('returned', 'str', "'.index'"),
 'local_cache_location/memory/failing-format': ('raised', 'RuntimeError', 'cannot format', None),
 'remote_cache_location/memory/failing-format': ('raised', 'RuntimeError', 'cannot format', None),
 'local_cache_location/empty/relative': ('returned',
                                         'PosixPath',
                                         "PosixPath('/cache-root/e3b0c44298fc1c149afbf4c8996fb92427ae41e4649b934ca495991b7852b855/IMG-HV-ALOS2012345678-200101-WBDR1.1__D.index')"),
 'remote_cache_location/empty/relative': ('returned',
                                          'str',
                                          "'scene/IMG-HV-ALOS2012345678-200101-WBDR1.1__D.index'"),
 'local_cache_location/empty/empty': ('returned',
                                      'PosixPath',
                                      "PosixPath('/cache-root/e3b0c44298fc1c149afbf4c8996fb92427ae41e4649b934ca495991b7852b855/.index')"),
 'remote_cache_location/empty/empty': ('returned', 'str', "'.index'"),
 'local_cache_location/empty/failing-format': ('raised', 'RuntimeError', 'cannot format', None),
 'remote_cache_location/empty/failing-format': ('raised', 'RuntimeError', 'cannot format', None),
 'local_cache_location/unicode/relative': ('returned',
                                           'PosixPath',
                                           "PosixPath('/cache-root/7d2c78f01a5bcec364453ae367b6617c50324d5feff5b3a51c02d2f186fb5cc4/IMG-HV-ALOS2012345678-200101-WBDR1.1__D.index')"),
 'remote_cache_location/unicode/relative': ('returned',
                                            'str',
                                            "'scene/IMG-HV-ALOS2012345678-200101-WBDR1.1__D.index'"),
 'local_cache_location/unicode/empty': ('returned',
                                        'PosixPath',
                                        "PosixPath('/cache-root/7d2c78f01a5bcec364453ae367b6617c50324d5feff5b3a51c02d2f186fb5cc4/.index')"),
 'remote_cache_location/unicode/empty': ('returned', 'str', "'.index'"),
 'local_cache_location/unicode/failing-format': ('raised', 'RuntimeError', 'cannot format', None),
 'remote_cache_location/unicode/failing-format': ('raised', 'RuntimeError', 'cannot format', None),
 'local_cache_location/str-subclass/relative': ('returned',
                                                'PosixPath',
                                                "PosixPath('/cache-root/ba7816bf8f01cfea414140de5dae2223b00361a396177a9cb410ff61f20015ad/IMG-HV-ALOS2012345678-200101-WBDR1.1__D.index')"),
 'remote_cache_location/str-subclass/relative': ('returned',
                                                 'str',
                                                 "'scene/IMG-HV-ALOS2012345678-200101-WBDR1.1__D.index'"),
 'local_cache_location/str-subclass/empty': ('returned',
                                             'PosixPath',
                                             "PosixPath('/cache-root/ba7816bf8f01cfea414140de5dae2223b00361a396177a9cb410ff61f20015ad/.index')"),
 'remote_cache_location/str-subclass/empty': ('returned', 'str', "'.index'"),
 'local_cache_location/str-subclass/failing-format': ('raised',
                                                      'RuntimeError',
                                                      'cannot format',
                                                      None),
 'remote_cache_location/str-subclass/failing-format': ('raised',
                                                       'RuntimeError',
                                                       'cannot format',
                                                       None),
 'local_cache_location/none/plain': ('raised',
                                     'AttributeError',
                                     "'NoneType' object has no attribute 'encode'",
                                     None),
 'remote_cache_location/none/plain': ('returned',
                                      'str',
                                      "'IMG-HH-ALOS2012345678-200101-WBDR1.1__D.index'"),
 'local_cache_location/none/relative': ('raised',
                                        'AttributeError',
                                        "'NoneType' object has no attribute 'encode'",
                                        None),
 'remote_cache_location/none/relative': ('returned',
                                         'str',
                                         "'scene/IMG-HV-ALOS2012345678-200101-WBDR1.1__D.index'"),
 'local_cache_location/none/absolute': ('raised',
                                        'AttributeError',
                                        "'NoneType' object has no attribute 'encode'",
                                        None),
 'remote_cache_location/none/absolute': ('returned', 'str', "'/data/scene/IMG.index'"),
 'local_cache_location/none/trailing-slash': ('raised',
                                              'AttributeError',
                                              "'NoneType' object has no attribute 'encode'",
                                              None),
 'remote_cache_location/none/trailing-slash': ('returned', 'str', "'scene/.index'"),
 'local_cache_location/none/empty': ('raised',
                                     'AttributeError',
                                     "'NoneType' object has no attribute 'encode'",
                                     None),
 'remote_cache_location/none/empty': ('returned', 'str', "'.index'"),
 'local_cache_location/none/slash': ('raised',
                                     'AttributeError',
                                     "'NoneType' object has no attribute 'encode'",
                                     None),
 'remote_cache_location/none/slash': ('returned', 'str', "'/.index'"),
 'local_cache_location/none/double-slash': ('raised',
                                            'AttributeError',
                                            "'NoneType' object has no attribute 'encode'",
                                            None),
 'remote_cache_location/none/double-slash': ('returned', 'str', "'a//b.index'"),
 'local_cache_location/none/dots': ('raised',
                                    'AttributeError',
                                    "'NoneType' object has no attribute 'encode'",
                                    None),
 'remote_cache_location/none/dots': ('returned', 'str', "'a/../b/..index'"),
 'local_cache_location/none/backslash': ('raised',
                                         'AttributeError',
                                         "'NoneType' object has no attribute 'encode'",
                                         None),
 'remote_cache_location/none/backslash': ('returned', 'str', "'a\\\\b.index'"),
 'local_cache_location/none/unicode': ('raised',
                                       'AttributeError',
                                       "'NoneType' object has no attribute 'encode'",
                                       None),
 'remote_cache_location/none/unicode': ('returned', 'str', "'scène/画像.index'"),
 'local_cache_location/none/space': ('raised',
                                     'AttributeError',
                                     "'NoneType' object has no attribute 'encode'",
                                     None),
 'remote_cache_location/none/space': ('returned', 'str', "'a b/c d.index'"),
 'local_cache_location/none/index-suffix': ('raised',
                                            'AttributeError',
                                            "'NoneType' object has no attribute 'encode'",
                                            None),
 'remote_cache_location/none/index-suffix': ('returned', 'str', "'a/b.index.index'"),
 'local_cache_location/none/url': ('raised',
                                   'AttributeError',
                                   "'NoneType' object has no attribute 'encode'",
                                   None),
 'remote_cache_location/none/url': ('returned', 'str', "'s3://bucket/scene/IMG.index'"),
 'local_cache_location/none/int': ('raised',
                                   'AttributeError',
                                   "'NoneType' object has no attribute 'encode'",
                                   None),
 'remote_cache_location/none/int': ('returned', 'str', "'5.index'"),
 'local_cache_location/none/none': ('raised',
                                    'AttributeError',
                                    "'NoneType' object has no attribute 'encode'",
                                    None),
 'remote_cache_location/none/none': ('returned', 'str', "'None.index'"),
 'local_cache_location/none/pure-path': ('raised',
                                         'AttributeError',
                                         "'NoneType' object has no attribute 'encode'",
                                         None),
 'remote_cache_location/none/pure-path': ('returned', 'str', "'a/b/c.index'"),
 'local_cache_location/none/bytes': ('raised',
                                     'AttributeError',
                                     "'NoneType' object has no attribute 'encode'",
                                     None),
 'remote_cache_location/none/bytes': ('returned', 'str', '"b\'a/b\'.index"'),
 'local_cache_location/none/tuple': ('raised',
                                     'AttributeError',
                                     "'NoneType' object has no attribute 'encode'",
                                     None),
 'remote_cache_location/none/tuple': ('returned', 'str', '"(\'a/b\', \'c\').index"'),
 'local_cache_location/none/weird-format': ('raised',
                                            'AttributeError',
                                            "'NoneType' object has no attribute 'encode'",
                                            None),
 'remote_cache_location/none/weird-format': ('returned', 'str', "'weird/format.index'"),
 'local_cache_location/none/failing-format': ('raised', 'RuntimeError', 'cannot format', None),
 'remote_cache_location/none/failing-format': ('raised', 'RuntimeError', 'cannot format', None),
 'local_cache_location/none/str-subclass': ('raised',
                                            'AttributeError',
                                            "'NoneType' object has no attribute 'encode'",
                                            None),
 'remote_cache_location/none/str-subclass': ('returned', 'str', "'x/y/z.index'"),
 'local_cache_location/bytes/relative': ('raised',
                                         'AttributeError',
                                         "'bytes' object has no attribute 'encode'",
                                         None),
 'remote_cache_location/bytes/relative': ('returned',
                                          'str',
                                          "'scene/IMG-HV-ALOS2012345678-200101-WBDR1.1__D.index'"),
 'local_cache_location/bytes/empty': ('raised',
                                      'AttributeError',
                                      "'bytes' object has no attribute 'encode'",
                                      None),
 'remote_cache_location/bytes/empty': ('returned', 'str', "'.index'"),
 'local_cache_location/bytes/failing-format': ('raised', 'RuntimeError', 'cannot format', None),
 'remote_cache_location/bytes/failing-format': ('raised', 'RuntimeError', 'cannot format', None),
 'local_cache_location/int/relative': ('raised',
                                       'AttributeError',
                                       "'int' object has no attribute 'encode'",
                                       None),
 'remote_cache_location/int/relative': ('returned',
                                        'str',
                                        "'scene/IMG-HV-ALOS2012345678-200101-WBDR1.1__D.index'"),
 'local_cache_location/int/empty': ('raised',
                                    'AttributeError',
                                    "'int' object has no attribute 'encode'",
                                    None),
 'remote_cache_location/int/empty': ('returned', 'str', "'.index'"),
 'local_cache_location/int/failing-format': ('raised', 'RuntimeError', 'cannot format', None),
 'remote_cache_location/int/failing-format': ('raised', 'RuntimeError', 'cannot format', None),
 'local_cache_location/keywords': ('returned',
                                   'PosixPath',
                                   "PosixPath('/cache-root/454349e422f05297191ead13e21d3db520e5abef52055e4964b82fb213f593a1/b.index')"),
 'remote_cache_location/keywords': ('returned', 'str', "'a/b.index'"),
 'local_cache_location/relative-root': ('returned',
                                        'PurePosixPath',
                                        "PurePosixPath('relative/cache/454349e422f05297191ead13e21d3db520e5abef52055e4964b82fb213f593a1/b.index')"),
 'local_cache_location/str-root': ('raised',
                                   'TypeError',
                                   "unsupported operand type(s) for /: 'str' and 'str'",
                                   None),
 'local_cache_location/patched-hashsum': ('returned',
                                          'PosixPath',
                                          "PosixPath('/root/.cache/xarray-ceos-alos2/HASH/b.index')"),
 'reexports': (True, True),
 'encode/group': ('returned',
                  'str',
                  '\'{"__type__": "group", "url": "memory://eq3/scene", "data": {"time": '
                  '{"__type__": "variable", "dims": ["rows"], "data": {"__type__": "array", '
                  '"dtype": "datetime64[s]", "data": [0, 86400], "encoding": {"reference": '
                  '"2020-01-01T00:00:00", "units": "s"}}, "attrs": {}}, "v": {"__type__": '
                  '"variable", "dims": ["x"], "data": {"__type__": "array", "dtype": "float64", '
                  '"data": [1.5, 2.5], "encoding": {}}, "attrs": {"t": {"__type__": "tuple", '
                  '"data": [1, {"__type__": "tuple", "data": [2]}]}}}, "sub": {"__type__": '
                  '"group", "url": "memory://eq3/scene", "data": {}, "path": "/sub", "attrs": '
                  '{"a": [1, {"__type__": "tuple", "data": [2]}]}}}, "path": "/", "attrs": {"k": '
                  '{"__type__": "tuple", "data": [1, 2]}}}\''),
 'encode/plain': ('returned',
                  'str',
                  '\'{"a": {"__type__": "tuple", "data": [1, [2, {"__type__": "tuple", "data": '
                  '[3]}]]}, "b": null}\''),
 'encode/unserialisable': ('raised',
                           'TypeError',
                           'Object of type set is not JSON serializable',
                           None),
 'encode/non-str-keys': ('returned', 'str', '\'{"1": 2, "null": 3}\''),
 'decode/valid/2': ('returned',
                    'Group',
                    "Group(path='/', url='memory://eq3/scene', data={'time': "
                    "Variable(dims=['rows'], data=array(['2020-01-01T00:00:00', "
                    "'2020-01-02T00:00:00'],\n"
                    "      dtype='datetime64[s]'), attrs={}), 'v': Variable(dims=['x'], "
                    "data=array([1.5, 2.5]), attrs={'t': (1, (2,))}), 'sub': Group(path='/sub', "
                    "url='memory://eq3/scene', data={}, attrs={'a': [1, (2,)]})}, attrs={'k': (1, "
                    '2)})'),
 'decode/valid/None': ('returned',
                       'Group',
                       "Group(path='/', url='memory://eq3/scene', data={'time': "
                       "Variable(dims=['rows'], data=array(['2020-01-01T00:00:00', "
                       "'2020-01-02T00:00:00'],\n"
                       "      dtype='datetime64[s]'), attrs={}), 'v': Variable(dims=['x'], "
                       "data=array([1.5, 2.5]), attrs={'t': (1, (2,))}), 'sub': Group(path='/sub', "
                       "url='memory://eq3/scene', data={}, attrs={'a': [1, (2,)]})}, attrs={'k': "
                       '(1, 2)})'),
 'decode/empty/2': ('raised',
                    'CachingError',
                    'invalid or incomplete cache file',
                    'JSONDecodeError'),
 'decode/empty/None': ('raised',
                       'CachingError',
                       'invalid or incomplete cache file',
                       'JSONDecodeError'),
 'decode/truncated/2': ('raised',
                        'CachingError',
                        'invalid or incomplete cache file',
                        'JSONDecodeError'),
 'decode/truncated/None': ('raised',
                           'CachingError',
                           'invalid or incomplete cache file',
                           'JSONDecodeError'),
 'decode/trailing/2': ('raised',
                       'CachingError',
                       'invalid or incomplete cache file',
                       'JSONDecodeError'),
 'decode/trailing/None': ('raised',
                          'CachingError',
                          'invalid or incomplete cache file',
                          'JSONDecodeError'),
 'decode/bytes/2': ('returned',
                    'Group',
                    "Group(path='/', url='memory://eq3/scene', data={'time': "
                    "Variable(dims=['rows'], data=array(['2020-01-01T00:00:00', "
                    "'2020-01-02T00:00:00'],\n"
                    "      dtype='datetime64[s]'), attrs={}), 'v': Variable(dims=['x'], "
                    "data=array([1.5, 2.5]), attrs={'t': (1, (2,))}), 'sub': Group(path='/sub', "
                    "url='memory://eq3/scene', data={}, attrs={'a': [1, (2,)]})}, attrs={'k': (1, "
                    '2)})'),
 'decode/bytes/None': ('returned',
                       'Group',
                       "Group(path='/', url='memory://eq3/scene', data={'time': "
                       "Variable(dims=['rows'], data=array(['2020-01-01T00:00:00', "
                       "'2020-01-02T00:00:00'],\n"
                       "      dtype='datetime64[s]'), attrs={}), 'v': Variable(dims=['x'], "
                       "data=array([1.5, 2.5]), attrs={'t': (1, (2,))}), 'sub': Group(path='/sub', "
                       "url='memory://eq3/scene', data={}, attrs={'a': [1, (2,)]})}, attrs={'k': "
                       '(1, 2)})'),
 'decode/bytearray/2': ('raised', 'AttributeError', "'list' object has no attribute 'get'", None),
 'decode/bytearray/None': ('raised',
                           'AttributeError',
                           "'list' object has no attribute 'get'",
                           None),
 'decode/bad-bytes/2': ('raised',
                        'CachingError',
                        'invalid or incomplete cache file',
                        'UnicodeDecodeError'),
 'decode/bad-bytes/None': ('raised',
                           'CachingError',
                           'invalid or incomplete cache file',
                           'UnicodeDecodeError'),
 'decode/none/2': ('raised',
                   'TypeError',
                   'the JSON object must be str, bytes or bytearray, not NoneType',
                   None),
 'decode/none/None': ('raised',
                      'TypeError',
                      'the JSON object must be str, bytes or bytearray, not NoneType',
                      None),
 'decode/int/2': ('raised',
                  'TypeError',
                  'the JSON object must be str, bytes or bytearray, not int',
                  None),
 'decode/int/None': ('raised',
                     'TypeError',
                     'the JSON object must be str, bytes or bytearray, not int',
                     None),
 'decode/nan/2': ('raised', 'AttributeError', "'float' object has no attribute 'get'", None),
 'decode/nan/None': ('raised', 'AttributeError', "'float' object has no attribute 'get'", None),
 'decode/tuple/2': ('raised', 'AttributeError', "'tuple' object has no attribute 'get'", None),
 'decode/tuple/None': ('raised', 'AttributeError', "'tuple' object has no attribute 'get'", None),
 'decode/tuple-no-data/2': ('raised', 'KeyError', "'data'", None),
 'decode/tuple-no-data/None': ('raised', 'KeyError', "'data'", None),
 'decode/incomplete-group/2': ('raised', 'KeyError', "'data'", None),
 'decode/incomplete-group/None': ('raised', 'KeyError', "'data'", None),
 'decode/positional': ('raised', 'AttributeError', "'list' object has no attribute 'get'", None),
 'decode/missing-argument': ('raised',
                             'TypeError',
                             "decode() missing 1 required positional argument: 'records_per_chunk'",
                             None),
 'decode/roundtrip': True,
 'read_cache/local': (('returned',
                       'Group',
                       "Group(path='/', url='memory://eq3/scene', data={'time': "
                       "Variable(dims=['rows'], data=array(['2020-01-01T00:00:00', "
                       "'2020-01-02T00:00:00'],\n"
                       "      dtype='datetime64[s]'), attrs={}), 'v': Variable(dims=['x'], "
                       "data=array([1.5, 2.5]), attrs={'t': (1, (2,))}), 'sub': Group(path='/sub', "
                       "url='memory://eq3/scene', data={}, attrs={'a': [1, (2,)]})}, attrs={'k': "
                       '(1, 2)})'),
                      [('mapper.root',),
                       ('mapper.root',),
                       ('Path.is_file',
                        '/cache-root/6a705687dc0b7aa47adb404a69f3d480e84ab12a441340906ed6839711112f5e/image.index'),
                       ('Path.read_text',
                        '/cache-root/6a705687dc0b7aa47adb404a69f3d480e84ab12a441340906ed6839711112f5e/image.index',
                        (),
                        {})]),
 'read_cache/local-and-remote': (('returned',
                                  'Group',
                                  "Group(path='/', url='memory://eq3/scene', data={'time': "
                                  "Variable(dims=['rows'], data=array(['2020-01-01T00:00:00', "
                                  "'2020-01-02T00:00:00'],\n"
                                  "      dtype='datetime64[s]'), attrs={}), 'v': "
                                  "Variable(dims=['x'], data=array([1.5, 2.5]), attrs={'t': (1, "
                                  "(2,))}), 'sub': Group(path='/sub', url='memory://eq3/scene', "
                                  "data={}, attrs={'a': [1, (2,)]})}, attrs={'k': (1, 2)})"),
                                 [('mapper.root',),
                                  ('mapper.root',),
                                  ('Path.is_file',
                                   '/cache-root/6a705687dc0b7aa47adb404a69f3d480e84ab12a441340906ed6839711112f5e/image.index'),
                                  ('Path.read_text',
                                   '/cache-root/6a705687dc0b7aa47adb404a69f3d480e84ab12a441340906ed6839711112f5e/image.index',
                                   (),
                                   {})]),
 'read_cache/remote': (('returned',
                        'Group',
                        "Group(path='/', url='memory://eq3/scene', data={'time': "
                        "Variable(dims=['rows'], data=array(['2020-01-01T00:00:00', "
                        "'2020-01-02T00:00:00'],\n"
                        "      dtype='datetime64[s]'), attrs={}), 'v': Variable(dims=['x'], "
                        "data=array([1.5, 2.5]), attrs={'t': (1, (2,))}), 'sub': "
                        "Group(path='/sub', url='memory://eq3/scene', data={}, attrs={'a': [1, "
                        "(2,)]})}, attrs={'k': (1, 2)})"),
                       [('mapper.root',),
                        ('mapper.root',),
                        ('Path.is_file',
                         '/cache-root/6a705687dc0b7aa47adb404a69f3d480e84ab12a441340906ed6839711112f5e/image.index'),
                        ('mapper.__contains__', 'scene/image.index'),
                        ('mapper.__getitem__', 'scene/image.index')]),
 'read_cache/remote-positional-rpc': (('returned',
                                       'Group',
                                       "Group(path='/', url='memory://eq3/scene', data={'time': "
                                       "Variable(dims=['rows'], data=array(['2020-01-01T00:00:00', "
                                       "'2020-01-02T00:00:00'],\n"
                                       "      dtype='datetime64[s]'), attrs={}), 'v': "
                                       "Variable(dims=['x'], data=array([1.5, 2.5]), attrs={'t': "
                                       "(1, (2,))}), 'sub': Group(path='/sub', "
                                       "url='memory://eq3/scene', data={}, attrs={'a': [1, "
                                       "(2,)]})}, attrs={'k': (1, 2)})"),
                                      [('mapper.root',),
                                       ('mapper.root',),
                                       ('Path.is_file',
                                        '/cache-root/6a705687dc0b7aa47adb404a69f3d480e84ab12a441340906ed6839711112f5e/image.index'),
                                       ('mapper.__contains__', 'scene/image.index'),
                                       ('mapper.__getitem__', 'scene/image.index')]),
 'read_cache/remote-other-name': (('raised',
                                   'CachingError',
                                   'no cache found for scene/image',
                                   None),
                                  [('mapper.root',),
                                   ('mapper.root',),
                                   ('Path.is_file',
                                    '/cache-root/6a705687dc0b7aa47adb404a69f3d480e84ab12a441340906ed6839711112f5e/image.index'),
                                   ('mapper.__contains__', 'scene/image.index')]),
 'read_cache/local-other-name': (('raised', 'CachingError', 'no cache found for scene/image', None),
                                 [('mapper.root',),
                                  ('mapper.root',),
                                  ('Path.is_file',
                                   '/cache-root/6a705687dc0b7aa47adb404a69f3d480e84ab12a441340906ed6839711112f5e/image.index'),
                                  ('mapper.__contains__', 'scene/image.index')]),
 'read_cache/none': (('raised', 'CachingError', 'no cache found for scene/image', None),
                     [('mapper.root',),
                      ('mapper.root',),
                      ('Path.is_file',
                       '/cache-root/6a705687dc0b7aa47adb404a69f3d480e84ab12a441340906ed6839711112f5e/image.index'),
                      ('mapper.__contains__', 'scene/image.index')]),
 'read_cache/none-weird-path': (('raised', 'CachingError', 'no cache found for weird/format', None),
                                [('mapper.root',),
                                 ('mapper.root',),
                                 ('Path.is_file',
                                  '/cache-root/6a705687dc0b7aa47adb404a69f3d480e84ab12a441340906ed6839711112f5e/format.index'),
                                 ('mapper.__contains__', 'weird/format.index')]),
 'read_cache/none-int-path': (('raised', 'CachingError', 'no cache found for 5', None),
                              [('mapper.root',),
                               ('mapper.root',),
                               ('Path.is_file',
                                '/cache-root/6a705687dc0b7aa47adb404a69f3d480e84ab12a441340906ed6839711112f5e/5.index'),
                               ('mapper.__contains__', '5.index')]),
 'read_cache/local-invalid': (('raised',
                               'CachingError',
                               'invalid or incomplete cache file',
                               'JSONDecodeError'),
                              [('mapper.root',),
                               ('mapper.root',),
                               ('Path.is_file',
                                '/cache-root/6a705687dc0b7aa47adb404a69f3d480e84ab12a441340906ed6839711112f5e/image.index'),
                               ('Path.read_text',
                                '/cache-root/6a705687dc0b7aa47adb404a69f3d480e84ab12a441340906ed6839711112f5e/image.index',
                                (),
                                {})]),
 'read_cache/local-empty': (('raised',
                             'CachingError',
                             'invalid or incomplete cache file',
                             'JSONDecodeError'),
                            [('mapper.root',),
                             ('mapper.root',),
                             ('Path.is_file',
                              '/cache-root/6a705687dc0b7aa47adb404a69f3d480e84ab12a441340906ed6839711112f5e/image.index'),
                             ('Path.read_text',
                              '/cache-root/6a705687dc0b7aa47adb404a69f3d480e84ab12a441340906ed6839711112f5e/image.index',
                              (),
                              {})]),
 'read_cache/local-plain-json': (('returned', 'dict', "{'a': [1, 2]}"),
                                 [('mapper.root',),
                                  ('mapper.root',),
                                  ('Path.is_file',
                                   '/cache-root/6a705687dc0b7aa47adb404a69f3d480e84ab12a441340906ed6839711112f5e/image.index'),
                                  ('Path.read_text',
                                   '/cache-root/6a705687dc0b7aa47adb404a69f3d480e84ab12a441340906ed6839711112f5e/image.index',
                                   (),
                                   {})]),
 'read_cache/local-null': (('raised',
                            'AttributeError',
                            "'NoneType' object has no attribute 'get'",
                            None),
                           [('mapper.root',),
                            ('mapper.root',),
                            ('Path.is_file',
                             '/cache-root/6a705687dc0b7aa47adb404a69f3d480e84ab12a441340906ed6839711112f5e/image.index'),
                            ('Path.read_text',
                             '/cache-root/6a705687dc0b7aa47adb404a69f3d480e84ab12a441340906ed6839711112f5e/image.index',
                             (),
                             {})]),
 'read_cache/local-bytes': (('returned', 'dict', "{'a': 1}"),
                            [('mapper.root',),
                             ('mapper.root',),
                             ('Path.is_file',
                              '/cache-root/6a705687dc0b7aa47adb404a69f3d480e84ab12a441340906ed6839711112f5e/image.index'),
                             ('Path.read_text',
                              '/cache-root/6a705687dc0b7aa47adb404a69f3d480e84ab12a441340906ed6839711112f5e/image.index',
                              (),
                              {})]),
 'read_cache/local-none': (('raised',
                            'TypeError',
                            'the JSON object must be str, bytes or bytearray, not NoneType',
                            None),
                           [('mapper.root',),
                            ('mapper.root',),
                            ('Path.is_file',
                             '/cache-root/6a705687dc0b7aa47adb404a69f3d480e84ab12a441340906ed6839711112f5e/image.index'),
                            ('Path.read_text',
                             '/cache-root/6a705687dc0b7aa47adb404a69f3d480e84ab12a441340906ed6839711112f5e/image.index',
                             (),
                             {})]),
 'read_cache/local-incomplete-variable': (('raised', 'KeyError', "'data'", None),
                                          [('mapper.root',),
                                           ('mapper.root',),
                                           ('Path.is_file',
                                            '/cache-root/6a705687dc0b7aa47adb404a69f3d480e84ab12a441340906ed6839711112f5e/image.index'),
                                           ('Path.read_text',
                                            '/cache-root/6a705687dc0b7aa47adb404a69f3d480e84ab12a441340906ed6839711112f5e/image.index',
                                            (),
                                            {})]),
 'read_cache/local-oserror': (('raised', 'OSError', 'boom', None),
                              [('mapper.root',),
                               ('mapper.root',),
                               ('Path.is_file',
                                '/cache-root/6a705687dc0b7aa47adb404a69f3d480e84ab12a441340906ed6839711112f5e/image.index'),
                               ('Path.read_text',
                                '/cache-root/6a705687dc0b7aa47adb404a69f3d480e84ab12a441340906ed6839711112f5e/image.index',
                                (),
                                {})]),
 'read_cache/local-filenotfound': (('raised', 'FileNotFoundError', 'gone', None),
                                   [('mapper.root',),
                                    ('mapper.root',),
                                    ('Path.is_file',
                                     '/cache-root/6a705687dc0b7aa47adb404a69f3d480e84ab12a441340906ed6839711112f5e/image.index'),
                                    ('Path.read_text',
                                     '/cache-root/6a705687dc0b7aa47adb404a69f3d480e84ab12a441340906ed6839711112f5e/image.index',
                                     (),
                                     {})]),
 'read_cache/local-valueerror': (('raised', 'ValueError', 'bad read', None),
                                 [('mapper.root',),
                                  ('mapper.root',),
                                  ('Path.is_file',
                                   '/cache-root/6a705687dc0b7aa47adb404a69f3d480e84ab12a441340906ed6839711112f5e/image.index'),
                                  ('Path.read_text',
                                   '/cache-root/6a705687dc0b7aa47adb404a69f3d480e84ab12a441340906ed6839711112f5e/image.index',
                                   (),
                                   {})]),
 'read_cache/local-unicode-error': (('raised',
                                     'UnicodeDecodeError',
                                     "'utf-8' codec can't decode byte 0xff in position 0: invalid "
                                     'start byte',
                                     None),
                                    [('mapper.root',),
                                     ('mapper.root',),
                                     ('Path.is_file',
                                      '/cache-root/6a705687dc0b7aa47adb404a69f3d480e84ab12a441340906ed6839711112f5e/image.index'),
                                     ('Path.read_text',
                                      '/cache-root/6a705687dc0b7aa47adb404a69f3d480e84ab12a441340906ed6839711112f5e/image.index',
                                      (),
                                      {})]),
 'read_cache/remote-invalid': (('raised',
                                'CachingError',
                                'invalid or incomplete cache file',
                                'JSONDecodeError'),
                               [('mapper.root',),
                                ('mapper.root',),
                                ('Path.is_file',
                                 '/cache-root/6a705687dc0b7aa47adb404a69f3d480e84ab12a441340906ed6839711112f5e/image.index'),
                                ('mapper.__contains__', 'scene/image.index'),
                                ('mapper.__getitem__', 'scene/image.index')]),
 'read_cache/remote-not-utf8': (('raised',
                                 'UnicodeDecodeError',
                                 "'utf-8' codec can't decode byte 0xff in position 0: invalid "
                                 'start byte',
                                 None),
                                [('mapper.root',),
                                 ('mapper.root',),
                                 ('Path.is_file',
                                  '/cache-root/6a705687dc0b7aa47adb404a69f3d480e84ab12a441340906ed6839711112f5e/image.index'),
                                 ('mapper.__contains__', 'scene/image.index'),
                                 ('mapper.__getitem__', 'scene/image.index')]),
 'read_cache/remote-str': (('raised',
                            'AttributeError',
                            "'str' object has no attribute 'decode'",
                            None),
                           [('mapper.root',),
                            ('mapper.root',),
                            ('Path.is_file',
                             '/cache-root/6a705687dc0b7aa47adb404a69f3d480e84ab12a441340906ed6839711112f5e/image.index'),
                            ('mapper.__contains__', 'scene/image.index'),
                            ('mapper.__getitem__', 'scene/image.index')]),
 'read_cache/remote-keyerror': (('raised', 'KeyError', "'scene/image.index'", None),
                                [('mapper.root',),
                                 ('mapper.root',),
                                 ('Path.is_file',
                                  '/cache-root/6a705687dc0b7aa47adb404a69f3d480e84ab12a441340906ed6839711112f5e/image.index'),
                                 ('mapper.__contains__', 'scene/image.index'),
                                 ('mapper.__getitem__', 'scene/image.index')]),
 'read_cache/remote-oserror': (('raised', 'OSError', 'net', None),
                               [('mapper.root',),
                                ('mapper.root',),
                                ('Path.is_file',
                                 '/cache-root/6a705687dc0b7aa47adb404a69f3d480e84ab12a441340906ed6839711112f5e/image.index'),
                                ('mapper.__contains__', 'scene/image.index'),
                                ('mapper.__getitem__', 'scene/image.index')]),
 'read_cache/root-none': (('raised',
                           'AttributeError',
                           "'NoneType' object has no attribute 'encode'",
                           None),
                          [('mapper.root',), ('mapper.root',)]),
 'read_cache/root-raises': (('raised', 'AttributeError', 'no root', None), [('mapper.root',)]),
 'read_cache/root-bytes': (('raised',
                            'AttributeError',
                            "'bytes' object has no attribute 'encode'",
                            None),
                           [('mapper.root',), ('mapper.root',)]),
 'read_cache/failing-path': (('raised', 'RuntimeError', 'cannot format', None), [('mapper.root',)]),
 'read_cache/rpc=None': (('returned',
                          'Group',
                          "Group(path='/', url='memory://eq3/scene', data={'time': "
                          "Variable(dims=['rows'], data=array(['2020-01-01T00:00:00', "
                          "'2020-01-02T00:00:00'],\n"
                          "      dtype='datetime64[s]'), attrs={}), 'v': Variable(dims=['x'], "
                          "data=array([1.5, 2.5]), attrs={'t': (1, (2,))}), 'sub': "
                          "Group(path='/sub', url='memory://eq3/scene', data={}, attrs={'a': [1, "
                          "(2,)]})}, attrs={'k': (1, 2)})"),
                         [('mapper.root',),
                          ('mapper.root',),
                          ('Path.is_file',
                           '/cache-root/6a705687dc0b7aa47adb404a69f3d480e84ab12a441340906ed6839711112f5e/image.index'),
                          ('Path.read_text',
                           '/cache-root/6a705687dc0b7aa47adb404a69f3d480e84ab12a441340906ed6839711112f5e/image.index',
                           (),
                           {})]),
 'read_cache/rpc=-1': (('returned',
                        'Group',
                        "Group(path='/', url='memory://eq3/scene', data={'time': "
                        "Variable(dims=['rows'], data=array(['2020-01-01T00:00:00', "
                        "'2020-01-02T00:00:00'],\n"
                        "      dtype='datetime64[s]'), attrs={}), 'v': Variable(dims=['x'], "
                        "data=array([1.5, 2.5]), attrs={'t': (1, (2,))}), 'sub': "
                        "Group(path='/sub', url='memory://eq3/scene', data={}, attrs={'a': [1, "
                        "(2,)]})}, attrs={'k': (1, 2)})"),
                       [('mapper.root',),
                        ('mapper.root',),
                        ('Path.is_file',
                         '/cache-root/6a705687dc0b7aa47adb404a69f3d480e84ab12a441340906ed6839711112f5e/image.index'),
                        ('Path.read_text',
                         '/cache-root/6a705687dc0b7aa47adb404a69f3d480e84ab12a441340906ed6839711112f5e/image.index',
                         (),
                         {})]),
 "read_cache/rpc='auto'": (('returned',
                            'Group',
                            "Group(path='/', url='memory://eq3/scene', data={'time': "
                            "Variable(dims=['rows'], data=array(['2020-01-01T00:00:00', "
                            "'2020-01-02T00:00:00'],\n"
                            "      dtype='datetime64[s]'), attrs={}), 'v': Variable(dims=['x'], "
                            "data=array([1.5, 2.5]), attrs={'t': (1, (2,))}), 'sub': "
                            "Group(path='/sub', url='memory://eq3/scene', data={}, attrs={'a': [1, "
                            "(2,)]})}, attrs={'k': (1, 2)})"),
                           [('mapper.root',),
                            ('mapper.root',),
                            ('Path.is_file',
                             '/cache-root/6a705687dc0b7aa47adb404a69f3d480e84ab12a441340906ed6839711112f5e/image.index'),
                            ('Path.read_text',
                             '/cache-root/6a705687dc0b7aa47adb404a69f3d480e84ab12a441340906ed6839711112f5e/image.index',
                             (),
                             {})]),
 "read_cache/rpc='1KiB'": (('returned',
                            'Group',
                            "Group(path='/', url='memory://eq3/scene', data={'time': "
                            "Variable(dims=['rows'], data=array(['2020-01-01T00:00:00', "
                            "'2020-01-02T00:00:00'],\n"
                            "      dtype='datetime64[s]'), attrs={}), 'v': Variable(dims=['x'], "
                            "data=array([1.5, 2.5]), attrs={'t': (1, (2,))}), 'sub': "
                            "Group(path='/sub', url='memory://eq3/scene', data={}, attrs={'a': [1, "
                            "(2,)]})}, attrs={'k': (1, 2)})"),
                           [('mapper.root',),
                            ('mapper.root',),
                            ('Path.is_file',
                             '/cache-root/6a705687dc0b7aa47adb404a69f3d480e84ab12a441340906ed6839711112f5e/image.index'),
                            ('Path.read_text',
                             '/cache-root/6a705687dc0b7aa47adb404a69f3d480e84ab12a441340906ed6839711112f5e/image.index',
                             (),
                             {})]),
 "read_cache/rpc='nonsense'": (('returned',
                                'Group',
                                "Group(path='/', url='memory://eq3/scene', data={'time': "
                                "Variable(dims=['rows'], data=array(['2020-01-01T00:00:00', "
                                "'2020-01-02T00:00:00'],\n"
                                "      dtype='datetime64[s]'), attrs={}), 'v': "
                                "Variable(dims=['x'], data=array([1.5, 2.5]), attrs={'t': (1, "
                                "(2,))}), 'sub': Group(path='/sub', url='memory://eq3/scene', "
                                "data={}, attrs={'a': [1, (2,)]})}, attrs={'k': (1, 2)})"),
                               [('mapper.root',),
                                ('mapper.root',),
                                ('Path.is_file',
                                 '/cache-root/6a705687dc0b7aa47adb404a69f3d480e84ab12a441340906ed6839711112f5e/image.index'),
                                ('Path.read_text',
                                 '/cache-root/6a705687dc0b7aa47adb404a69f3d480e84ab12a441340906ed6839711112f5e/image.index',
                                 (),
                                 {})]),
 'read_cache/path-plain': (('raised',
                            'CachingError',
                            'no cache found for IMG-HH-ALOS2012345678-200101-WBDR1.1__D',
                            None),
                           [('mapper.root',),
                            ('mapper.root',),
                            ('Path.is_file',
                             '/cache-root/6a705687dc0b7aa47adb404a69f3d480e84ab12a441340906ed6839711112f5e/IMG-HH-ALOS2012345678-200101-WBDR1.1__D.index'),
                            ('mapper.__contains__',
                             'IMG-HH-ALOS2012345678-200101-WBDR1.1__D.index')]),
 'read_cache/path-relative': (('raised',
                               'CachingError',
                               'no cache found for scene/IMG-HV-ALOS2012345678-200101-WBDR1.1__D',
                               None),
                              [('mapper.root',),
                               ('mapper.root',),
                               ('Path.is_file',
                                '/cache-root/6a705687dc0b7aa47adb404a69f3d480e84ab12a441340906ed6839711112f5e/IMG-HV-ALOS2012345678-200101-WBDR1.1__D.index'),
                               ('mapper.__contains__',
                                'scene/IMG-HV-ALOS2012345678-200101-WBDR1.1__D.index')]),
 'read_cache/path-absolute': (('raised',
                               'CachingError',
                               'no cache found for /data/scene/IMG',
                               None),
                              [('mapper.root',),
                               ('mapper.root',),
                               ('Path.is_file',
                                '/cache-root/6a705687dc0b7aa47adb404a69f3d480e84ab12a441340906ed6839711112f5e/IMG.index'),
                               ('mapper.__contains__', '/data/scene/IMG.index')]),
 'read_cache/path-trailing-slash': (('raised',
                                     'AttributeError',
                                     "'list' object has no attribute 'get'",
                                     None),
                                    [('mapper.root',),
                                     ('mapper.root',),
                                     ('Path.is_file',
                                      '/cache-root/6a705687dc0b7aa47adb404a69f3d480e84ab12a441340906ed6839711112f5e/.index'),
                                     ('mapper.__contains__', 'scene/.index'),
                                     ('mapper.__getitem__', 'scene/.index')]),
 'read_cache/path-empty': (('raised',
                            'AttributeError',
                            "'list' object has no attribute 'get'",
                            None),
                           [('mapper.root',),
                            ('mapper.root',),
                            ('Path.is_file',
                             '/cache-root/6a705687dc0b7aa47adb404a69f3d480e84ab12a441340906ed6839711112f5e/.index'),
                            ('mapper.__contains__', '.index'),
                            ('mapper.__getitem__', '.index')]),
 'read_cache/path-slash': (('raised', 'CachingError', 'no cache found for /', None),
                           [('mapper.root',),
                            ('mapper.root',),
                            ('Path.is_file',
                             '/cache-root/6a705687dc0b7aa47adb404a69f3d480e84ab12a441340906ed6839711112f5e/.index'),
                            ('mapper.__contains__', '/.index')]),
 'read_cache/path-double-slash': (('raised', 'CachingError', 'no cache found for a//b', None),
                                  [('mapper.root',),
                                   ('mapper.root',),
                                   ('Path.is_file',
                                    '/cache-root/6a705687dc0b7aa47adb404a69f3d480e84ab12a441340906ed6839711112f5e/b.index'),
                                   ('mapper.__contains__', 'a//b.index')]),
 'read_cache/path-dots': (('raised', 'CachingError', 'no cache found for a/../b/.', None),
                          [('mapper.root',),
                           ('mapper.root',),
                           ('Path.is_file',
                            '/cache-root/6a705687dc0b7aa47adb404a69f3d480e84ab12a441340906ed6839711112f5e/..index'),
                           ('mapper.__contains__', 'a/../b/..index')]),
 'read_cache/path-backslash': (('raised', 'CachingError', 'no cache found for a\\b', None),
                               [('mapper.root',),
                                ('mapper.root',),
                                ('Path.is_file',
                                 '/cache-root/6a705687dc0b7aa47adb404a69f3d480e84ab12a441340906ed6839711112f5e/a\\b.index'),
                                ('mapper.__contains__', 'a\\b.index')]),
 'read_cache/path-unicode': (('raised', 'CachingError', 'no cache found for scène/画像', None),
                             [('mapper.root',),
                              ('mapper.root',),
                              ('Path.is_file',
                               '/cache-root/6a705687dc0b7aa47adb404a69f3d480e84ab12a441340906ed6839711112f5e/画像.index'),
                              ('mapper.__contains__', 'scène/画像.index')]),
 'read_cache/path-space': (('raised', 'CachingError', 'no cache found for a b/c d', None),
                           [('mapper.root',),
                            ('mapper.root',),
                            ('Path.is_file',
                             '/cache-root/6a705687dc0b7aa47adb404a69f3d480e84ab12a441340906ed6839711112f5e/c '
                             'd.index'),
                            ('mapper.__contains__', 'a b/c d.index')]),
 'read_cache/path-index-suffix': (('raised', 'CachingError', 'no cache found for a/b.index', None),
                                  [('mapper.root',),
                                   ('mapper.root',),
                                   ('Path.is_file',
                                    '/cache-root/6a705687dc0b7aa47adb404a69f3d480e84ab12a441340906ed6839711112f5e/b.index.index'),
                                   ('mapper.__contains__', 'a/b.index.index')]),
 'read_cache/path-url': (('raised',
                          'CachingError',
                          'no cache found for s3://bucket/scene/IMG',
                          None),
                         [('mapper.root',),
                          ('mapper.root',),
                          ('Path.is_file',
                           '/cache-root/6a705687dc0b7aa47adb404a69f3d480e84ab12a441340906ed6839711112f5e/IMG.index'),
                          ('mapper.__contains__', 's3://bucket/scene/IMG.index')]),
 'read_cache/path-int': (('raised', 'CachingError', 'no cache found for 5', None),
                         [('mapper.root',),
                          ('mapper.root',),
                          ('Path.is_file',
                           '/cache-root/6a705687dc0b7aa47adb404a69f3d480e84ab12a441340906ed6839711112f5e/5.index'),
                          ('mapper.__contains__', '5.index')]),
 'read_cache/path-none': (('raised', 'CachingError', 'no cache found for None', None),
                          [('mapper.root',),
                           ('mapper.root',),
                           ('Path.is_file',
                            '/cache-root/6a705687dc0b7aa47adb404a69f3d480e84ab12a441340906ed6839711112f5e/None.index'),
                           ('mapper.__contains__', 'None.index')]),
 'read_cache/path-pure-path': (('raised', 'CachingError', 'no cache found for a/b/c', None),
                               [('mapper.root',),
                                ('mapper.root',),
                                ('Path.is_file',
                                 '/cache-root/6a705687dc0b7aa47adb404a69f3d480e84ab12a441340906ed6839711112f5e/c.index'),
                                ('mapper.__contains__', 'a/b/c.index')]),
 'read_cache/path-bytes': (('raised', 'CachingError', "no cache found for b'a/b'", None),
                           [('mapper.root',),
                            ('mapper.root',),
                            ('Path.is_file',
                             "/cache-root/6a705687dc0b7aa47adb404a69f3d480e84ab12a441340906ed6839711112f5e/b'.index"),
                            ('mapper.__contains__', "b'a/b'.index")]),
 'read_cache/path-tuple': (('raised', 'CachingError', "no cache found for ('a/b', 'c')", None),
                           [('mapper.root',),
                            ('mapper.root',),
                            ('Path.is_file',
                             "/cache-root/6a705687dc0b7aa47adb404a69f3d480e84ab12a441340906ed6839711112f5e/b', "
                             "'c').index"),
                            ('mapper.__contains__', "('a/b', 'c').index")]),
 'read_cache/path-weird-format': (('raised',
                                   'CachingError',
                                   'no cache found for weird/format',
                                   None),
                                  [('mapper.root',),
                                   ('mapper.root',),
                                   ('Path.is_file',
                                    '/cache-root/6a705687dc0b7aa47adb404a69f3d480e84ab12a441340906ed6839711112f5e/format.index'),
                                   ('mapper.__contains__', 'weird/format.index')]),
 'read_cache/path-failing-format': (('raised', 'RuntimeError', 'cannot format', None),
                                    [('mapper.root',)]),
 'read_cache/path-str-subclass': (('raised', 'CachingError', 'no cache found for x/y/z', None),
                                  [('mapper.root',),
                                   ('mapper.root',),
                                   ('Path.is_file',
                                    '/cache-root/6a705687dc0b7aa47adb404a69f3d480e84ab12a441340906ed6839711112f5e/z.index'),
                                   ('mapper.__contains__', 'x/y/z.index')]),
 'read_cache/decode-call-local': (('returned',
                                   'tuple',
                                   "('decode', ('text',), {'records_per_chunk': 'x'})"),
                                  [('mapper.root',),
                                   ('mapper.root',),
                                   ('Path.is_file',
                                    '/cache-root/6a705687dc0b7aa47adb404a69f3d480e84ab12a441340906ed6839711112f5e/image.index'),
                                   ('Path.read_text',
                                    '/cache-root/6a705687dc0b7aa47adb404a69f3d480e84ab12a441340906ed6839711112f5e/image.index',
                                    (),
                                    {})]),
 'read_cache/decode-call-remote': (('returned',
                                    'tuple',
                                    "('decode', ('remote',), {'records_per_chunk': 3})"),
                                   [('mapper.root',),
                                    ('mapper.root',),
                                    ('Path.is_file',
                                     '/cache-root/6a705687dc0b7aa47adb404a69f3d480e84ab12a441340906ed6839711112f5e/image.index'),
                                    ('mapper.__contains__', 'scene/image.index'),
                                    ('mapper.__getitem__', 'scene/image.index')]),
 'read_cache/decode-call-none': (('raised', 'CachingError', 'no cache found for scene/image', None),
                                 [('mapper.root',),
                                  ('mapper.root',),
                                  ('Path.is_file',
                                   '/cache-root/6a705687dc0b7aa47adb404a69f3d480e84ab12a441340906ed6839711112f5e/image.index'),
                                  ('mapper.__contains__', 'scene/image.index')]),
 'read_cache/decode-raises': (('raised', 'KeyError', "'k'", None),
                              [('mapper.root',),
                               ('mapper.root',),
                               ('Path.is_file',
                                '/cache-root/6a705687dc0b7aa47adb404a69f3d480e84ab12a441340906ed6839711112f5e/image.index'),
                               ('Path.read_text',
                                '/cache-root/6a705687dc0b7aa47adb404a69f3d480e84ab12a441340906ed6839711112f5e/image.index',
                                (),
                                {})]),
 'create_cache/group': (('returned', 'NoneType', 'None'),
                        [('mapper.root',),
                         ('Path.mkdir',
                          '/cache-root/6a705687dc0b7aa47adb404a69f3d480e84ab12a441340906ed6839711112f5e',
                          (),
                          [('exist_ok', True), ('parents', True)]),
                         ('Path.write_text',
                          '/cache-root/6a705687dc0b7aa47adb404a69f3d480e84ab12a441340906ed6839711112f5e/image.index',
                          ('{"__type__": "group", "url": "memory://eq3/scene", "data": {"time": '
                           '{"__type__": "variable", "dims": ["rows"], "data": {"__type__": '
                           '"array", "dtype": "datetime64[s]", "data": [0, 86400], "encoding": '
                           '{"reference": "2020-01-01T00:00:00", "units": "s"}}, "attrs": {}}, '
                           '"v": {"__type__": "variable", "dims": ["x"], "data": {"__type__": '
                           '"array", "dtype": "float64", "data": [1.5, 2.5], "encoding": {}}, '
                           '"attrs": {"t": {"__type__": "tuple", "data": [1, {"__type__": "tuple", '
                           '"data": [2]}]}}}, "sub": {"__type__": "group", "url": '
                           '"memory://eq3/scene", "data": {}, "path": "/sub", "attrs": {"a": [1, '
                           '{"__type__": "tuple", "data": [2]}]}}}, "path": "/", "attrs": {"k": '
                           '{"__type__": "tuple", "data": [1, 2]}}}',),
                          {})]),
 'create_cache/variable': (('returned', 'NoneType', 'None'),
                           [('mapper.root',),
                            ('Path.mkdir',
                             '/cache-root/6a705687dc0b7aa47adb404a69f3d480e84ab12a441340906ed6839711112f5e',
                             (),
                             [('exist_ok', True), ('parents', True)]),
                            ('Path.write_text',
                             '/cache-root/6a705687dc0b7aa47adb404a69f3d480e84ab12a441340906ed6839711112f5e/image.index',
                             ('{"__type__": "variable", "dims": ["x"], "data": {"__type__": '
                              '"array", "dtype": "int8", "data": [1, 2], "encoding": {}}, "attrs": '
                              '{}}',),
                             {})]),
 'create_cache/plain-data': (('returned', 'NoneType', 'None'),
                             [('mapper.root',),
                              ('Path.mkdir',
                               '/cache-root/6a705687dc0b7aa47adb404a69f3d480e84ab12a441340906ed6839711112f5e',
                               (),
                               [('exist_ok', True), ('parents', True)]),
                              ('Path.write_text',
                               '/cache-root/6a705687dc0b7aa47adb404a69f3d480e84ab12a441340906ed6839711112f5e/image.index',
                               ('{"a": {"__type__": "tuple", "data": [1, 2]}}',),
                               {})]),
 'create_cache/unserialisable': (('raised',
                                  'TypeError',
                                  'Object of type set is not JSON serializable',
                                  None),
                                 [('mapper.root',),
                                  ('Path.mkdir',
                                   '/cache-root/6a705687dc0b7aa47adb404a69f3d480e84ab12a441340906ed6839711112f5e',
                                   (),
                                   [('exist_ok', True), ('parents', True)])]),
 'create_cache/unserialisable-plain': (('raised',
                                        'TypeError',
                                        'Object of type type is not JSON serializable',
                                        None),
                                       [('mapper.root',),
                                        ('Path.mkdir',
                                         '/cache-root/6a705687dc0b7aa47adb404a69f3d480e84ab12a441340906ed6839711112f5e',
                                         (),
                                         [('exist_ok', True), ('parents', True)])]),
 'create_cache/nan': (('returned', 'NoneType', 'None'),
                      [('mapper.root',),
                       ('Path.mkdir',
                        '/cache-root/6a705687dc0b7aa47adb404a69f3d480e84ab12a441340906ed6839711112f5e',
                        (),
                        [('exist_ok', True), ('parents', True)]),
                       ('Path.write_text',
                        '/cache-root/6a705687dc0b7aa47adb404a69f3d480e84ab12a441340906ed6839711112f5e/image.index',
                        ('{"a": NaN}',),
                        {})]),
 'create_cache/mkdir-fails': (('raised', 'PermissionError', 'read-only', None),
                              [('mapper.root',),
                               ('Path.mkdir',
                                '/cache-root/6a705687dc0b7aa47adb404a69f3d480e84ab12a441340906ed6839711112f5e',
                                (),
                                [('exist_ok', True), ('parents', True)])]),
 'create_cache/mkdir-fails-unserialisable': (('raised', 'PermissionError', 'read-only', None),
                                             [('mapper.root',),
                                              ('Path.mkdir',
                                               '/cache-root/6a705687dc0b7aa47adb404a69f3d480e84ab12a441340906ed6839711112f5e',
                                               (),
                                               [('exist_ok', True), ('parents', True)])]),
 'create_cache/write-fails': (('raised', 'OSError', 'disk full', None),
                              [('mapper.root',),
                               ('Path.mkdir',
                                '/cache-root/6a705687dc0b7aa47adb404a69f3d480e84ab12a441340906ed6839711112f5e',
                                (),
                                [('exist_ok', True), ('parents', True)]),
                               ('Path.write_text',
                                '/cache-root/6a705687dc0b7aa47adb404a69f3d480e84ab12a441340906ed6839711112f5e/image.index',
                                ('{"__type__": "group", "url": "memory://eq3/scene", "data": '
                                 '{"time": {"__type__": "variable", "dims": ["rows"], "data": '
                                 '{"__type__": "array", "dtype": "datetime64[s]", "data": [0, '
                                 '86400], "encoding": {"reference": "2020-01-01T00:00:00", '
                                 '"units": "s"}}, "attrs": {}}, "v": {"__type__": "variable", '
                                 '"dims": ["x"], "data": {"__type__": "array", "dtype": "float64", '
                                 '"data": [1.5, 2.5], "encoding": {}}, "attrs": {"t": {"__type__": '
                                 '"tuple", "data": [1, {"__type__": "tuple", "data": [2]}]}}}, '
                                 '"sub": {"__type__": "group", "url": "memory://eq3/scene", '
                                 '"data": {}, "path": "/sub", "attrs": {"a": [1, {"__type__": '
                                 '"tuple", "data": [2]}]}}}, "path": "/", "attrs": {"k": '
                                 '{"__type__": "tuple", "data": [1, 2]}}}',),
                                {})]),
 'create_cache/root-none': (('raised',
                             'AttributeError',
                             "'NoneType' object has no attribute 'encode'",
                             None),
                            [('mapper.root',)]),
 'create_cache/root-none-unserialisable': (('raised',
                                            'AttributeError',
                                            "'NoneType' object has no attribute 'encode'",
                                            None),
                                           [('mapper.root',)]),
 'create_cache/encode-call': (('returned', 'NoneType', 'None'),
                              [('mapper.root',),
                               ('Path.mkdir',
                                '/cache-root/6a705687dc0b7aa47adb404a69f3d480e84ab12a441340906ed6839711112f5e',
                                (),
                                [('exist_ok', True), ('parents', True)]),
                               ('Path.write_text',
                                '/cache-root/6a705687dc0b7aa47adb404a69f3d480e84ab12a441340906ed6839711112f5e/image.index',
                                (('encoded', ('DATA',), {}),),
                                {})]),
 'create_cache/encode-raises': (('raised', 'ValueError', 'no', None),
                                [('mapper.root',),
                                 ('Path.mkdir',
                                  '/cache-root/6a705687dc0b7aa47adb404a69f3d480e84ab12a441340906ed6839711112f5e',
                                  (),
                                  [('exist_ok', True), ('parents', True)])]),
 'create_cache/path-plain': (('returned', 'NoneType', 'None'),
                             [('mapper.root',),
                              ('Path.mkdir',
                               '/cache-root/6a705687dc0b7aa47adb404a69f3d480e84ab12a441340906ed6839711112f5e',
                               (),
                               [('exist_ok', True), ('parents', True)]),
                              ('Path.write_text',
                               '/cache-root/6a705687dc0b7aa47adb404a69f3d480e84ab12a441340906ed6839711112f5e/IMG-HH-ALOS2012345678-200101-WBDR1.1__D.index',
                               ('{}',),
                               {})]),
 'create_cache/path-relative': (('returned', 'NoneType', 'None'),
                                [('mapper.root',),
                                 ('Path.mkdir',
                                  '/cache-root/6a705687dc0b7aa47adb404a69f3d480e84ab12a441340906ed6839711112f5e',
                                  (),
                                  [('exist_ok', True), ('parents', True)]),
                                 ('Path.write_text',
                                  '/cache-root/6a705687dc0b7aa47adb404a69f3d480e84ab12a441340906ed6839711112f5e/IMG-HV-ALOS2012345678-200101-WBDR1.1__D.index',
                                  ('{}',),
                                  {})]),
 'create_cache/path-absolute': (('returned', 'NoneType', 'None'),
                                [('mapper.root',),
                                 ('Path.mkdir',
                                  '/cache-root/6a705687dc0b7aa47adb404a69f3d480e84ab12a441340906ed6839711112f5e',
                                  (),
                                  [('exist_ok', True), ('parents', True)]),
                                 ('Path.write_text',
                                  '/cache-root/6a705687dc0b7aa47adb404a69f3d480e84ab12a441340906ed6839711112f5e/IMG.index',
                                  ('{}',),
                                  {})]),
 'create_cache/path-trailing-slash': (('returned', 'NoneType', 'None'),
                                      [('mapper.root',),
                                       ('Path.mkdir',
                                        '/cache-root/6a705687dc0b7aa47adb404a69f3d480e84ab12a441340906ed6839711112f5e',
                                        (),
                                        [('exist_ok', True), ('parents', True)]),
                                       ('Path.write_text',
                                        '/cache-root/6a705687dc0b7aa47adb404a69f3d480e84ab12a441340906ed6839711112f5e/.index',
                                        ('{}',),
                                        {})]),
 'create_cache/path-empty': (('returned', 'NoneType', 'None'),
                             [('mapper.root',),
                              ('Path.mkdir',
                               '/cache-root/6a705687dc0b7aa47adb404a69f3d480e84ab12a441340906ed6839711112f5e',
                               (),
                               [('exist_ok', True), ('parents', True)]),
                              ('Path.write_text',
                               '/cache-root/6a705687dc0b7aa47adb404a69f3d480e84ab12a441340906ed6839711112f5e/.index',
                               ('{}',),
                               {})]),
 'create_cache/path-slash': (('returned', 'NoneType', 'None'),
                             [('mapper.root',),
                              ('Path.mkdir',
                               '/cache-root/6a705687dc0b7aa47adb404a69f3d480e84ab12a441340906ed6839711112f5e',
                               (),
                               [('exist_ok', True), ('parents', True)]),
                              ('Path.write_text',
                               '/cache-root/6a705687dc0b7aa47adb404a69f3d480e84ab12a441340906ed6839711112f5e/.index',
                               ('{}',),
                               {})]),
 'create_cache/path-double-slash': (('returned', 'NoneType', 'None'),
                                    [('mapper.root',),
                                     ('Path.mkdir',
                                      '/cache-root/6a705687dc0b7aa47adb404a69f3d480e84ab12a441340906ed6839711112f5e',
                                      (),
                                      [('exist_ok', True), ('parents', True)]),
                                     ('Path.write_text',
                                      '/cache-root/6a705687dc0b7aa47adb404a69f3d480e84ab12a441340906ed6839711112f5e/b.index',
                                      ('{}',),
                                      {})]),
 'create_cache/path-dots': (('returned', 'NoneType', 'None'),
                            [('mapper.root',),
                             ('Path.mkdir',
                              '/cache-root/6a705687dc0b7aa47adb404a69f3d480e84ab12a441340906ed6839711112f5e',
                              (),
                              [('exist_ok', True), ('parents', True)]),
                             ('Path.write_text',
                              '/cache-root/6a705687dc0b7aa47adb404a69f3d480e84ab12a441340906ed6839711112f5e/..index',
                              ('{}',),
                              {})]),
 'create_cache/path-backslash': (('returned', 'NoneType', 'None'),
                                 [('mapper.root',),
                                  ('Path.mkdir',
                                   '/cache-root/6a705687dc0b7aa47adb404a69f3d480e84ab12a441340906ed6839711112f5e',
                                   (),
                                   [('exist_ok', True), ('parents', True)]),
                                  ('Path.write_text',
                                   '/cache-root/6a705687dc0b7aa47adb404a69f3d480e84ab12a441340906ed6839711112f5e/a\\b.index',
                                   ('{}',),
                                   {})]),
 'create_cache/path-unicode': (('returned', 'NoneType', 'None'),
                               [('mapper.root',),
                                ('Path.mkdir',
                                 '/cache-root/6a705687dc0b7aa47adb404a69f3d480e84ab12a441340906ed6839711112f5e',
                                 (),
                                 [('exist_ok', True), ('parents', True)]),
                                ('Path.write_text',
                                 '/cache-root/6a705687dc0b7aa47adb404a69f3d480e84ab12a441340906ed6839711112f5e/画像.index',
                                 ('{}',),
                                 {})]),
 'create_cache/path-space': (('returned', 'NoneType', 'None'),
                             [('mapper.root',),
                              ('Path.mkdir',
                               '/cache-root/6a705687dc0b7aa47adb404a69f3d480e84ab12a441340906ed6839711112f5e',
                               (),
                               [('exist_ok', True), ('parents', True)]),
                              ('Path.write_text',
                               '/cache-root/6a705687dc0b7aa47adb404a69f3d480e84ab12a441340906ed6839711112f5e/c '
                               'd.index',
                               ('{}',),
                               {})]),
 'create_cache/path-index-suffix': (('returned', 'NoneType', 'None'),
                                    [('mapper.root',),
                                     ('Path.mkdir',
                                      '/cache-root/6a705687dc0b7aa47adb404a69f3d480e84ab12a441340906ed6839711112f5e',
                                      (),
                                      [('exist_ok', True), ('parents', True)]),
                                     ('Path.write_text',
                                      '/cache-root/6a705687dc0b7aa47adb404a69f3d480e84ab12a441340906ed6839711112f5e/b.index.index',
                                      ('{}',),
                                      {})]),
 'create_cache/path-url': (('returned', 'NoneType', 'None'),
                           [('mapper.root',),
                            ('Path.mkdir',
                             '/cache-root/6a705687dc0b7aa47adb404a69f3d480e84ab12a441340906ed6839711112f5e',
                             (),
                             [('exist_ok', True), ('parents', True)]),
                            ('Path.write_text',
                             '/cache-root/6a705687dc0b7aa47adb404a69f3d480e84ab12a441340906ed6839711112f5e/IMG.index',
                             ('{}',),
                             {})]),
 'create_cache/path-int': (('returned', 'NoneType', 'None'),
                           [('mapper.root',),
                            ('Path.mkdir',
                             '/cache-root/6a705687dc0b7aa47adb404a69f3d480e84ab12a441340906ed6839711112f5e',
                             (),
                             [('exist_ok', True), ('parents', True)]),
                            ('Path.write_text',
                             '/cache-root/6a705687dc0b7aa47adb404a69f3d480e84ab12a441340906ed6839711112f5e/5.index',
                             ('{}',),
                             {})]),
 'create_cache/path-none': (('returned', 'NoneType', 'None'),
                            [('mapper.root',),
                             ('Path.mkdir',
                              '/cache-root/6a705687dc0b7aa47adb404a69f3d480e84ab12a441340906ed6839711112f5e',
                              (),
                              [('exist_ok', True), ('parents', True)]),
                             ('Path.write_text',
                              '/cache-root/6a705687dc0b7aa47adb404a69f3d480e84ab12a441340906ed6839711112f5e/None.index',
                              ('{}',),
                              {})]),
 'create_cache/path-pure-path': (('returned', 'NoneType', 'None'),
                                 [('mapper.root',),
                                  ('Path.mkdir',
                                   '/cache-root/6a705687dc0b7aa47adb404a69f3d480e84ab12a441340906ed6839711112f5e',
                                   (),
                                   [('exist_ok', True), ('parents', True)]),
                                  ('Path.write_text',
                                   '/cache-root/6a705687dc0b7aa47adb404a69f3d480e84ab12a441340906ed6839711112f5e/c.index',
                                   ('{}',),
                                   {})]),
 'create_cache/path-bytes': (('returned', 'NoneType', 'None'),
                             [('mapper.root',),
                              ('Path.mkdir',
                               '/cache-root/6a705687dc0b7aa47adb404a69f3d480e84ab12a441340906ed6839711112f5e',
                               (),
                               [('exist_ok', True), ('parents', True)]),
                              ('Path.write_text',
                               "/cache-root/6a705687dc0b7aa47adb404a69f3d480e84ab12a441340906ed6839711112f5e/b'.index",
                               ('{}',),
                               {})]),
 'create_cache/path-tuple': (('returned', 'NoneType', 'None'),
                             [('mapper.root',),
                              ('Path.mkdir',
                               '/cache-root/6a705687dc0b7aa47adb404a69f3d480e84ab12a441340906ed6839711112f5e',
                               (),
                               [('exist_ok', True), ('parents', True)]),
                              ('Path.write_text',
                               "/cache-root/6a705687dc0b7aa47adb404a69f3d480e84ab12a441340906ed6839711112f5e/b', "
                               "'c').index",
                               ('{}',),
                               {})]),
 'create_cache/path-weird-format': (('returned', 'NoneType', 'None'),
                                    [('mapper.root',),
                                     ('Path.mkdir',
                                      '/cache-root/6a705687dc0b7aa47adb404a69f3d480e84ab12a441340906ed6839711112f5e',
                                      (),
                                      [('exist_ok', True), ('parents', True)]),
                                     ('Path.write_text',
                                      '/cache-root/6a705687dc0b7aa47adb404a69f3d480e84ab12a441340906ed6839711112f5e/format.index',
                                      ('{}',),
                                      {})]),
 'create_cache/path-failing-format': (('raised', 'RuntimeError', 'cannot format', None),
                                      [('mapper.root',)]),
 'create_cache/path-str-subclass': (('returned', 'NoneType', 'None'),
                                    [('mapper.root',),
                                     ('Path.mkdir',
                                      '/cache-root/6a705687dc0b7aa47adb404a69f3d480e84ab12a441340906ed6839711112f5e',
                                      (),
                                      [('exist_ok', True), ('parents', True)]),
                                     ('Path.write_text',
                                      '/cache-root/6a705687dc0b7aa47adb404a69f3d480e84ab12a441340906ed6839711112f5e/z.index',
                                      ('{}',),
                                      {})]),
 'real/missing': ('raised', 'CachingError', 'no cache found for sub/image', None),
 'real/create': ('returned', 'NoneType', 'None'),
 'real/files': ['cache/root/3edf3e5e3c5e7c3ed16e0a02ce6aca9fcd593b1d544c2cd40560b010ab24fb28/image.index'],
 'real/content': ['{"__type__": "group", "url": "memory://eq3/scene", "data": {"time": '
                  '{"__type__": "variable", "dims": ["rows"], "data": {"__type__": "array", '
                  '"dtype": "datetime64[s]", "data": [0, 86400], "encoding": {"reference": '
                  '"2020-01-01T00:00:00", "units": "s"}}, "attrs": {}}, "v": {"__type__": '
                  '"variable", "dims": ["x"], "data": {"__type__": "array", "dtype": "float64", '
                  '"data": [1.5, 2.5], "encoding": {}}, "attrs": {"t": {"__type__": "tuple", '
                  '"data": [1, {"__type__": "tuple", "data": [2]}]}}}, "sub": {"__type__": '
                  '"group", "url": "memory://eq3/scene", "data": {}, "path": "/sub", "attrs": '
                  '{"a": [1, {"__type__": "tuple", "data": [2]}]}}}, "path": "/", "attrs": {"k": '
                  '{"__type__": "tuple", "data": [1, 2]}}}'],
 'real/mapper-untouched': [],
 'real/read-local': ('Group', True),
 'real/create-again': ('returned', 'NoneType', 'None'),
 'real/content-again': ['{"__type__": "variable", "dims": ["x"], "data": {"__type__": "array", '
                        '"dtype": "int64", "data": [1], "encoding": {}}, "attrs": {}}'],
 'real/read-remote': ('Group', True),
 'real/remote-wrong-path': ('raised', 'CachingError', 'no cache found for image2', None),
 'real/remote-broken': ('raised',
                        'CachingError',
                        'invalid or incomplete cache file',
                        'JSONDecodeError'),
 'public': (['CachingError',
             'create_cache',
             'decode',
             'decode_hierarchy',
             'decoders',
             'encode',
             'encode_hierarchy',
             'encoders',
             'json',
             'local_cache_location',
             'path',
             'postprocess',
             'preprocess',
             'read_cache',
             'remote_cache_location'],
            ['cache_root',
             'hashlib',
             'hashsum',
             'local_cache_location',
             'platformdirs',
             'project_name',
             'remote_cache_location'])}


def main():
    results = collect()
    if "--record" in sys.argv:
        pprint.pprint(results, width=100, sort_dicts=False)
        return 0

    failed = 0
    for key in sorted(set(results) | set(EXPECTED)):
        if results.get(key) != EXPECTED.get(key):
            failed += 1
            print(f"MISMATCH {key}:\n  expected {EXPECTED.get(key)!r}\n  got      {results.get(key)!r}")
    print(f"{len(results)} observations, {failed} mismatches")
    return 1 if failed else 0


def test_equivalence():
    assert collect() == EXPECTED


if __name__ == "__main__":
    sys.exit(main())
