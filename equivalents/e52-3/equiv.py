"""Equivalence check for refactoring 3 (``LazilyIndexedWrapper`` / ``to_variable`` in ceos_alos2/xarray.py).

Run as::

    cd /tmp/wt7/e52 && PYTHONPATH=/tmp/wt7/e52 /venv/bin/python _eq/3/equiv.py

Drives the wrapper and ``to_variable`` with numpy arrays and with
``ceos_alos2.array.Array`` objects on top of a recording file system and a
recording lock, and compares results (types, values), exceptions (type and
message) and the interleaved trace of lock and I/O events with values recorded
from the UNCHANGED code (``EXPECTED`` below). ``--record`` prints the observed
values instead of comparing them.
"""

import io
import pickle
import pprint
import sys
import warnings

import numpy as np
import xarray as xr
from xarray.backends import BackendArray
from xarray.core import indexing
from xarray.core.indexing import BasicIndexer, OuterIndexer, VectorizedIndexer

from ceos_alos2 import xarray as cx
from ceos_alos2.array import Array
from ceos_alos2.hierarchy import Variable

LOG = []


class RecordingFile:
    def __init__(self, content):
        self._f = io.BytesIO(content)

    def __enter__(self):
        LOG.append(("enter",))
        return self

    def __exit__(self, exc_type, exc, tb):
        LOG.append(("exit", None if exc_type is None else exc_type.__name__))
        return False

    def seek(self, offset, whence=0):
        LOG.append(("seek", int(offset), whence))
        return self._f.seek(offset, whence)

    def read(self, size=-1):
        LOG.append(("read", int(size)))
        return self._f.read(size)


class RecordingFS:
    def __init__(self, files):
        self.files = files

    def open(self, url, mode="rb", **kwargs):
        LOG.append(("open", url, mode, tuple(sorted(kwargs))))
        return RecordingFile(self.files[url])

    def __eq__(self, other):
        return isinstance(other, RecordingFS) and self.files == other.files


class RecordingLock:
    def __init__(self, fail=False):
        self.fail = fail

    def __enter__(self):
        LOG.append(("lock-acquire",))
        if self.fail:
            raise RuntimeError("cannot acquire")
        return self

    def __exit__(self, exc_type, exc, tb):
        LOG.append(("lock-release", None if exc_type is None else exc_type.__name__))
        return False


class RecordingArray:
    """numpy-backed array-like which logs the keys it receives"""

    def __init__(self, data):
        self.data = data
        self.shape = data.shape
        self.dtype = data.dtype

    def __getitem__(self, key):
        LOG.append(("getitem", describe_key(key)))
        return self.data[key]


def describe_key(key):
    if isinstance(key, tuple):
        return tuple(describe_key(k) for k in key)
    if isinstance(key, np.ndarray):
        return ("ndarray", str(key.dtype), key.shape, key.tolist())
    if isinstance(key, (np.generic,)):
        return (type(key).__name__, key.item())
    return repr(key)


def describe(value):
    if isinstance(value, np.ndarray):
        return ("ndarray", str(value.dtype), value.shape, value.ravel().tolist())
    if isinstance(value, np.generic):
        return ("scalar", type(value).__name__, value.item())
    return ("other", type(value).__name__, repr(value))


def attempt(f, *args, **kwargs):
    del LOG[:]
    try:
        with warnings.catch_warnings():
            warnings.simplefilter("ignore")
            result = ("ok", f(*args, **kwargs))
    except Exception as e:  # noqa: BLE001
        result = ("error", type(e).__name__, str(e))
    return result, list(LOG)


def make_array(records_per_chunk=2, shape=None, type_code="IU2", dtype=None):
    data = (np.arange(24, dtype="uint16") * 5 + 2).reshape(4, 6)
    encoded = data.astype(">u2").tobytes()
    rowsize = 12
    gap = b"\xee" * 8
    content = b"".join(gap + encoded[i * rowsize : (i + 1) * rowsize] for i in range(4))
    byte_ranges = [(8 * (i + 1) + rowsize * i, (8 + rowsize) * (i + 1)) for i in range(4)]
    fs = RecordingFS({"image": content})
    return Array(
        fs=fs,
        url="image",
        byte_ranges=byte_ranges,
        shape=data.shape if shape is None else shape,
        dtype=data.dtype if dtype is None else dtype,
        type_code=type_code,
        records_per_chunk=records_per_chunk,
    )


keys = {
    "basic-int-int": BasicIndexer((0, 1)),
    "basic-slices": BasicIndexer((slice(None), slice(None))),
    "basic-mixed": BasicIndexer((slice(1, 3), 2)),
    "basic-neg-step": BasicIndexer((slice(None, None, -1), slice(None, None, -2))),
    "basic-empty": BasicIndexer((slice(0, 0), slice(None))),
    "basic-neg-int": BasicIndexer((-1, slice(None))),
    "basic-np-int": BasicIndexer((np.int64(2), slice(1, 4))),
    "outer-arrays": OuterIndexer((np.array([0, 2]), np.array([1, 0, 3]))),
    "outer-mixed": OuterIndexer((np.array([3, 1]), slice(None, 2))),
    "outer-int": OuterIndexer((1, np.array([2, 2]))),
    "outer-empty": OuterIndexer((np.array([], dtype=int), slice(None))),
    "vectorized-slices": VectorizedIndexer((slice(None), slice(None))),
    "vectorized-arrays": VectorizedIndexer((np.array([0, 1, 3]), np.array([2, 2, 0]))),
    "vectorized-2d": VectorizedIndexer((np.array([[0, 1], [3, 2]]), np.array([[1, 1], [0, 5]]))),
    "vectorized-mixed": VectorizedIndexer((np.array([2, 0]), slice(1, 3))),
    "basic-too-few": BasicIndexer((1,)),
    "basic-too-many": BasicIndexer((1, 1, 1)),
    "basic-out-of-bounds": BasicIndexer((10, 0)),
    "raw-tuple": (0, 1),
    "raw-int": 0,
    "raw-slice": slice(None),
    "raw-none": None,
}


def wrapper_summary(wrapper):
    return {
        "type": (type(wrapper).__module__, type(wrapper).__qualname__),
        "is-backend-array": isinstance(wrapper, BackendArray),
        "is-explicitly-indexed": isinstance(wrapper, indexing.ExplicitlyIndexed),
        "vars": list(vars(wrapper)),
        "shape": wrapper.shape,
        "dtype": (type(wrapper.dtype).__name__, str(wrapper.dtype)),
        "ndim": wrapper.ndim,
        "size": wrapper.size,
        "len": len(wrapper) if wrapper.ndim else None,
    }


def variable_summary(var, converted):
    data = converted._data
    summary = {
        "type": type(converted).__name__,
        "dims": converted.dims,
        "attrs": dict(converted.attrs),
        "attrs-copied": converted.attrs is not var.attrs,
        "encoding": dict(converted.encoding),
        "in-memory": converted._in_memory,
        "data-type": type(data).__name__,
        "shape": converted.shape,
        "dtype": str(converted.dtype),
    }
    if isinstance(data, indexing.LazilyIndexedArray):
        wrapper = data.array
        summary["lazy"] = {
            "wrapper": wrapper_summary(wrapper),
            "wrapped-is-var-data": wrapper.array is var.data,
            "lock-type": type(wrapper.lock).__name__,
            "key": repr(data.key),
        }
    else:
        summary["same-data"] = data is var.data or np.shares_memory(data, var.data)
    return summary


def collect():
    results = {}
    data = np.arange(24).reshape(4, 6) * 3 - 7

    # --- construction of the wrapper
    lock = RecordingLock()
    constructions = {
        "numpy": lambda: data,
        "numpy-1d": lambda: data[0],
        "numpy-0d": lambda: np.array(5.0),
        "numpy-float32": lambda: data.astype("float32"),
        "numpy-bigendian": lambda: data.astype(">i2"),
        "recording": lambda: RecordingArray(data),
        "Array": lambda: make_array(),
        "Array-complex": lambda: make_array(dtype="complex64"),
        "Array-dtype-object": lambda: make_array(dtype=np.dtype("uint16")),
        "Array-bad-dtype": lambda: make_array(dtype="not-a-dtype"),
        "list": lambda: [1, 2, 3],
        "none": lambda: None,
    }
    for name, create in constructions.items():
        results[f"init|{name}"] = attempt(lambda: wrapper_summary(cx.LazilyIndexedWrapper(create(), lock)))

    def attributes():
        arr = make_array()
        wrapper = cx.LazilyIndexedWrapper(arr, lock)
        return [wrapper.array is arr, wrapper.lock is lock, wrapper.shape == arr.shape, wrapper.dtype == arr.dtype]

    results["init|identity"] = attempt(attributes)
    results["init|positional-only-two"] = attempt(cx.LazilyIndexedWrapper, data)
    results["init|keywords"] = attempt(lambda: wrapper_summary(cx.LazilyIndexedWrapper(array=data, lock=lock)))
    results["init|no-lock-check"] = attempt(lambda: wrapper_summary(cx.LazilyIndexedWrapper(data, None)))

    # --- indexing the wrapper
    for key_id, key in keys.items():
        wrapped = cx.LazilyIndexedWrapper(RecordingArray(data), RecordingLock())
        results[f"getitem|recording|{key_id}"] = attempt(lambda: describe(wrapped[key]))

        wrapped = cx.LazilyIndexedWrapper(make_array(), RecordingLock())
        results[f"getitem|Array|{key_id}"] = attempt(lambda: describe(wrapped[key]))

    for rpc in (1, 3, None):
        wrapped = cx.LazilyIndexedWrapper(make_array(records_per_chunk=rpc), RecordingLock())
        for key_id in ("basic-slices", "outer-arrays", "vectorized-arrays", "basic-neg-step"):
            results[f"getitem|Array-rpc={rpc}|{key_id}"] = attempt(lambda: describe(wrapped[keys[key_id]]))

    wrapped = cx.LazilyIndexedWrapper(RecordingArray(data), RecordingLock(fail=True))
    results["getitem|failing-lock"] = attempt(lambda: describe(wrapped[keys["basic-slices"]]))
    wrapped = cx.LazilyIndexedWrapper(RecordingArray(data), None)
    results["getitem|no-lock"] = attempt(lambda: describe(wrapped[keys["basic-slices"]]))
    wrapped = cx.LazilyIndexedWrapper(make_array(type_code="F*8"), RecordingLock())
    results["getitem|undecodable"] = attempt(lambda: describe(wrapped[keys["basic-slices"]]))
    wrapped = cx.LazilyIndexedWrapper(RecordingArray(data), RecordingLock())
    results["get_duck_array"] = attempt(lambda: describe(wrapped.get_duck_array()))
    results["raw-indexing-method"] = attempt(lambda: describe(wrapped._raw_indexing_method((slice(1, 2), 0))))
    wrapped.shape = (2, 2)  # the shape handed to xarray is the instance attribute
    results["getitem|overridden-shape"] = attempt(lambda: describe(wrapped[keys["basic-neg-step"]]))

    # --- pickling
    def roundtrip():
        wrapper = cx.LazilyIndexedWrapper(data, cx.SerializableLock())
        restored = pickle.loads(pickle.dumps(wrapper))
        return [
            wrapper_summary(restored),
            describe(restored[keys["basic-mixed"]]),
            type(restored.lock).__name__,
            restored.lock.token == wrapper.lock.token,
        ]

    results["pickle"] = attempt(roundtrip)

    # --- to_variable
    variables = {
        "numpy-1d": lambda: Variable("x", np.array([1, 2], dtype="int8"), {"a": 1}),
        "numpy-2d": lambda: Variable(["x", "y"], data, {"b": "abc", "c": [1, 2]}),
        "numpy-0d": lambda: Variable([], np.array(1.5), {}),
        "numpy-datetime": lambda: Variable("t", np.array(["2020-01-01", "2021-03-04"], dtype="datetime64[ns]"), {}),
        "numpy-str": lambda: Variable("s", np.array(["a", "bc"]), {"units": "1"}),
        "numpy-object": lambda: Variable("o", np.array([1, "a"], dtype=object), {}),
        "list-data": lambda: Variable("x", [1, 2, 3], {}),
        "scalar-data": lambda: Variable([], 4, {}),
        "lazy-2d": lambda: Variable(["rows", "cols"], make_array(), {"b": 3}),
        "lazy-rpc1": lambda: Variable(["rows", "cols"], make_array(records_per_chunk=1), {}),
        "lazy-rpc-none": lambda: Variable(["rows", "cols"], make_array(records_per_chunk=None), {}),
        "lazy-rpc-all": lambda: Variable(["rows", "cols"], make_array(records_per_chunk=-1), {}),
        "lazy-rpc-auto": lambda: Variable(["rows", "cols"], make_array(records_per_chunk="auto"), {}),
        "lazy-complex-declared": lambda: Variable(["rows", "cols"], make_array(dtype="complex64"), {}),
        "lazy-1d-declared": lambda: Variable("rows", make_array(shape=(4,)), {}),
        "dims-mismatch-numpy": lambda: Variable(["x", "y"], np.array([1, 2]), {}),
        "dims-mismatch-lazy": lambda: Variable("rows", make_array(), {}),
        "duplicate-dims": lambda: Variable(["x", "x"], make_array(), {}),
        "attrs-none": lambda: Variable("x", np.array([1]), None),
        "attrs-not-a-dict": lambda: Variable("x", np.array([1]), 5),
    }
    for name, create in variables.items():

        def convert():
            var = create()
            return variable_summary(var, cx.to_variable(var))

        results[f"to_variable|{name}"] = attempt(convert)

    def convert_object(obj):
        return lambda: repr(cx.to_variable(obj))

    results["to_variable|not-a-variable"] = attempt(convert_object(5))
    results["to_variable|xr-variable"] = attempt(convert_object(xr.Variable("x", [1, 2])))

    # duck-typed stand-ins: which attribute is missed first
    from types import SimpleNamespace

    ducks = {
        "data-only": SimpleNamespace(data=np.array([1, 2])),
        "no-dims": SimpleNamespace(data=np.array([1, 2]), attrs={}, chunks={}),
        "no-attrs": SimpleNamespace(data=np.array([1, 2]), dims="x", chunks={}),
        "no-chunks": SimpleNamespace(data=np.array([1, 2]), dims="x", attrs={}),
        "complete": SimpleNamespace(data=np.array([1, 2]), dims="x", attrs={"a": 1}, chunks={}),
        "chunked": SimpleNamespace(data=np.array([1, 2]), dims="x", attrs={}, chunks={"x": -1}, sizes={"x": 2}),
        "lazy-data-only": SimpleNamespace(data=make_array()),
        "lazy-no-chunks": SimpleNamespace(data=make_array(), dims=["a", "b"], attrs={}),
    }
    for name, duck in ducks.items():
        results[f"to_variable|duck-{name}"] = attempt(convert_object(duck))

    def distinct_locks():
        first = cx.to_variable(Variable(["rows", "cols"], make_array(), {}))
        second = cx.to_variable(Variable(["rows", "cols"], make_array(), {}))
        return first._data.array.lock is not second._data.array.lock

    results["to_variable|distinct-locks"] = attempt(distinct_locks)

    # --- loading lazily converted variables: values and I/O requests
    selections = {
        "all": lambda v: v,
        "rows": lambda v: v[1:3],
        "row": lambda v: v[2],
        "cols": lambda v: v[:, ::2],
        "element": lambda v: v[3, 4],
        "reversed": lambda v: v[::-1, ::-1],
        "outer": lambda v: v[[0, 3], [1, 2, 5]],
        "isel": lambda v: v.isel(rows=[2, 0], cols=slice(1, 3)),
        "vectorized": lambda v: v[xr.Variable("p", [0, 3, 1]), xr.Variable("p", [5, 0, 2])],
        "chained": lambda v: v[1:][::2][:, 1],
        "empty": lambda v: v[0:0],
        "transposed": lambda v: v.transpose("cols", "rows")[1:3, 0:2],
    }
    for rpc in (2, 3, None):
        for sel_id, select in selections.items():

            def load():
                v = cx.to_variable(Variable(["rows", "cols"], make_array(records_per_chunk=rpc), {"k": "v"}))
                selected = select(v)
                before = len(LOG)
                values = selected.values
                return [before, describe(values), selected.dims, dict(selected.attrs), dict(selected.encoding)]

            results[f"load|rpc={rpc}|{sel_id}"] = attempt(load)

    def load_twice():
        v = cx.to_variable(Variable(["rows", "cols"], make_array(), {}))
        return [describe(v.values), describe(v.values), describe(v.load().values), v._in_memory]

    results["load|twice"] = attempt(load_twice)

    return results


# recorded from the unchanged code (HEAD 343c5cf)
EXPECTED = {'get_duck_array': (('ok',
                     ('ndarray', 'int64', (4, 6), [-7, -4, -1, 2, 5, 8, 11, 14, 17, 20, 23, 26, 29, 32, 35, 38, 41, 44, 47, 50, 53, 56, 59, 62])),
                    [('lock-acquire',), ('getitem', ('slice(None, None, None)', 'slice(None, None, None)')), ('lock-release', None)]),
 'getitem|Array-rpc=1|basic-neg-step': (('ok', ('ndarray', 'uint16', (4, 3), [117, 107, 97, 87, 77, 67, 57, 47, 37, 27, 17, 7])),
                                        [('lock-acquire',), ('open', 'image', 'rb', ()), ('enter',), ('seek', 8, 0), ('read', 12), ('seek', 28, 0),
                                         ('read', 12), ('seek', 48, 0), ('read', 12), ('seek', 68, 0), ('read', 12), ('exit', None),
                                         ('lock-release', None)]),
 'getitem|Array-rpc=1|basic-slices': (('ok',
                                       ('ndarray', 'uint16', (4, 6),
                                        [2, 7, 12, 17, 22, 27, 32, 37, 42, 47, 52, 57, 62, 67, 72, 77, 82, 87, 92, 97, 102, 107, 112, 117])),
                                      [('lock-acquire',), ('open', 'image', 'rb', ()), ('enter',), ('seek', 8, 0), ('read', 12), ('seek', 28, 0),
                                       ('read', 12), ('seek', 48, 0), ('read', 12), ('seek', 68, 0), ('read', 12), ('exit', None),
                                       ('lock-release', None)]),
 'getitem|Array-rpc=1|outer-arrays': (('ok', ('ndarray', 'uint16', (2, 3), [7, 2, 17, 67, 62, 77])),
                                      [('lock-acquire',), ('open', 'image', 'rb', ()), ('enter',), ('seek', 8, 0), ('read', 12), ('seek', 28, 0),
                                       ('read', 12), ('seek', 48, 0), ('read', 12), ('exit', None), ('lock-release', None)]),
 'getitem|Array-rpc=1|vectorized-arrays': (('ok', ('ndarray', 'uint16', (3,), [12, 42, 92])),
                                           [('lock-acquire',), ('open', 'image', 'rb', ()), ('enter',), ('seek', 8, 0), ('read', 12), ('seek', 28, 0),
                                            ('read', 12), ('seek', 48, 0), ('read', 12), ('seek', 68, 0), ('read', 12), ('exit', None),
                                            ('lock-release', None)]),
 'getitem|Array-rpc=3|basic-neg-step': (('ok', ('ndarray', 'uint16', (4, 3), [117, 107, 97, 87, 77, 67, 57, 47, 37, 27, 17, 7])),
                                        [('lock-acquire',), ('open', 'image', 'rb', ()), ('enter',), ('seek', 8, 0), ('read', 52), ('seek', 68, 0),
                                         ('read', 12), ('exit', None), ('lock-release', None)]),
 'getitem|Array-rpc=3|basic-slices': (('ok',
                                       ('ndarray', 'uint16', (4, 6),
                                        [2, 7, 12, 17, 22, 27, 32, 37, 42, 47, 52, 57, 62, 67, 72, 77, 82, 87, 92, 97, 102, 107, 112, 117])),
                                      [('lock-acquire',), ('open', 'image', 'rb', ()), ('enter',), ('seek', 8, 0), ('read', 52), ('seek', 68, 0),
                                       ('read', 12), ('exit', None), ('lock-release', None)]),
 'getitem|Array-rpc=3|outer-arrays': (('ok', ('ndarray', 'uint16', (2, 3), [7, 2, 17, 67, 62, 77])),
                                      [('lock-acquire',), ('open', 'image', 'rb', ()), ('enter',), ('seek', 8, 0), ('read', 52), ('exit', None),
                                       ('lock-release', None)]),
 'getitem|Array-rpc=3|vectorized-arrays': (('ok', ('ndarray', 'uint16', (3,), [12, 42, 92])),
                                           [('lock-acquire',), ('open', 'image', 'rb', ()), ('enter',), ('seek', 8, 0), ('read', 52), ('seek', 68, 0),
                                            ('read', 12), ('exit', None), ('lock-release', None)]),
 'getitem|Array-rpc=None|basic-neg-step': (('ok', ('ndarray', 'uint16', (4, 3), [117, 107, 97, 87, 77, 67, 57, 47, 37, 27, 17, 7])),
                                           [('lock-acquire',), ('open', 'image', 'rb', ()), ('enter',), ('seek', 8, 0), ('read', 72), ('exit', None),
                                            ('lock-release', None)]),
 'getitem|Array-rpc=None|basic-slices': (('ok',
                                          ('ndarray', 'uint16', (4, 6),
                                           [2, 7, 12, 17, 22, 27, 32, 37, 42, 47, 52, 57, 62, 67, 72, 77, 82, 87, 92, 97, 102, 107, 112, 117])),
                                         [('lock-acquire',), ('open', 'image', 'rb', ()), ('enter',), ('seek', 8, 0), ('read', 72), ('exit', None),
                                          ('lock-release', None)]),
 'getitem|Array-rpc=None|outer-arrays': (('ok', ('ndarray', 'uint16', (2, 3), [7, 2, 17, 67, 62, 77])),
                                         [('lock-acquire',), ('open', 'image', 'rb', ()), ('enter',), ('seek', 8, 0), ('read', 72), ('exit', None),
                                          ('lock-release', None)]),
 'getitem|Array-rpc=None|vectorized-arrays': (('ok', ('ndarray', 'uint16', (3,), [12, 42, 92])),
                                              [('lock-acquire',), ('open', 'image', 'rb', ()), ('enter',), ('seek', 8, 0), ('read', 72),
                                               ('exit', None), ('lock-release', None)]),
 'getitem|Array|basic-empty': (('ok', ('ndarray', 'uint16', (0, 6), [])),
                               [('lock-acquire',), ('open', 'image', 'rb', ()), ('enter',), ('exit', None), ('lock-release', None)]),
 'getitem|Array|basic-int-int': (('ok', ('scalar', 'uint16', 7)),
                                 [('lock-acquire',), ('open', 'image', 'rb', ()), ('enter',), ('seek', 8, 0), ('read', 32), ('exit', None),
                                  ('lock-release', None)]),
 'getitem|Array|basic-mixed': (('ok', ('ndarray', 'uint16', (2,), [42, 72])),
                               [('lock-acquire',), ('open', 'image', 'rb', ()), ('enter',), ('seek', 8, 0), ('read', 32), ('seek', 48, 0),
                                ('read', 32), ('exit', None), ('lock-release', None)]),
 'getitem|Array|basic-neg-int': (('ok', ('ndarray', 'uint16', (6,), [92, 97, 102, 107, 112, 117])),
                                 [('lock-acquire',), ('open', 'image', 'rb', ()), ('enter',), ('seek', 48, 0), ('read', 32), ('exit', None),
                                  ('lock-release', None)]),
 'getitem|Array|basic-neg-step': (('ok', ('ndarray', 'uint16', (4, 3), [117, 107, 97, 87, 77, 67, 57, 47, 37, 27, 17, 7])),
                                  [('lock-acquire',), ('open', 'image', 'rb', ()), ('enter',), ('seek', 8, 0), ('read', 32), ('seek', 48, 0),
                                   ('read', 32), ('exit', None), ('lock-release', None)]),
 'getitem|Array|basic-np-int': (('ok', ('ndarray', 'uint16', (3,), [67, 72, 77])),
                                [('lock-acquire',), ('open', 'image', 'rb', ()), ('enter',), ('seek', 48, 0), ('read', 32), ('exit', None),
                                 ('lock-release', None)]),
 'getitem|Array|basic-out-of-bounds': (('error', 'IndexError', 'list index out of range'), [('lock-acquire',), ('lock-release', 'IndexError')]),
 'getitem|Array|basic-slices': (('ok',
                                 ('ndarray', 'uint16', (4, 6),
                                  [2, 7, 12, 17, 22, 27, 32, 37, 42, 47, 52, 57, 62, 67, 72, 77, 82, 87, 92, 97, 102, 107, 112, 117])),
                                [('lock-acquire',), ('open', 'image', 'rb', ()), ('enter',), ('seek', 8, 0), ('read', 32), ('seek', 48, 0),
                                 ('read', 32), ('exit', None), ('lock-release', None)]),
 'getitem|Array|basic-too-few': (('ok', ('ndarray', 'uint16', (6,), [32, 37, 42, 47, 52, 57])),
                                 [('lock-acquire',), ('open', 'image', 'rb', ()), ('enter',), ('seek', 8, 0), ('read', 32), ('exit', None),
                                  ('lock-release', None)]),
 'getitem|Array|basic-too-many': (('ok', ('scalar', 'uint16', 37)),
                                  [('lock-acquire',), ('open', 'image', 'rb', ()), ('enter',), ('seek', 8, 0), ('read', 32), ('exit', None),
                                   ('lock-release', None)]),
 'getitem|Array|outer-arrays': (('ok', ('ndarray', 'uint16', (2, 3), [7, 2, 17, 67, 62, 77])),
                                [('lock-acquire',), ('open', 'image', 'rb', ()), ('enter',), ('seek', 8, 0), ('read', 32), ('seek', 48, 0),
                                 ('read', 32), ('exit', None), ('lock-release', None)]),
 'getitem|Array|outer-empty': (('error', 'ValueError', 'zero-size array to reduction operation minimum which has no identity'), []),
 'getitem|Array|outer-int': (('ok', ('ndarray', 'uint16', (2,), [42, 42])),
                             [('lock-acquire',), ('open', 'image', 'rb', ()), ('enter',), ('seek', 8, 0), ('read', 32), ('exit', None),
                              ('lock-release', None)]),
 'getitem|Array|outer-mixed': (('ok', ('ndarray', 'uint16', (2, 2), [92, 97, 32, 37])),
                               [('lock-acquire',), ('open', 'image', 'rb', ()), ('enter',), ('seek', 8, 0), ('read', 32), ('seek', 48, 0),
                                ('read', 32), ('exit', None), ('lock-release', None)]),
 'getitem|Array|raw-int': (('error', 'TypeError', 'unexpected key type: 0'), []),
 'getitem|Array|raw-none': (('error', 'TypeError', 'unexpected key type: None'), []),
 'getitem|Array|raw-slice': (('error', 'TypeError', 'unexpected key type: slice(None, None, None)'), []),
 'getitem|Array|raw-tuple': (('error', 'TypeError', 'unexpected key type: (0, 1)'), []),
 'getitem|Array|vectorized-2d': (('ok', ('ndarray', 'uint16', (2, 2), [7, 37, 92, 87])),
                                 [('lock-acquire',), ('open', 'image', 'rb', ()), ('enter',), ('seek', 8, 0), ('read', 32), ('seek', 48, 0),
                                  ('read', 32), ('exit', None), ('lock-release', None)]),
 'getitem|Array|vectorized-arrays': (('ok', ('ndarray', 'uint16', (3,), [12, 42, 92])),
                                     [('lock-acquire',), ('open', 'image', 'rb', ()), ('enter',), ('seek', 8, 0), ('read', 32), ('seek', 48, 0),
                                      ('read', 32), ('exit', None), ('lock-release', None)]),
 'getitem|Array|vectorized-mixed': (('error', 'IndexError', 'index 2 is out of bounds for axis 1 with size 2'),
                                    [('lock-acquire',), ('open', 'image', 'rb', ()), ('enter',), ('seek', 8, 0), ('read', 32), ('seek', 48, 0),
                                     ('read', 32), ('exit', None), ('lock-release', None)]),
 'getitem|Array|vectorized-slices': (('ok',
                                      ('ndarray', 'uint16', (4, 6),
                                       [2, 7, 12, 17, 22, 27, 32, 37, 42, 47, 52, 57, 62, 67, 72, 77, 82, 87, 92, 97, 102, 107, 112, 117])),
                                     [('lock-acquire',), ('open', 'image', 'rb', ()), ('enter',), ('seek', 8, 0), ('read', 32), ('seek', 48, 0),
                                      ('read', 32), ('exit', None), ('lock-release', None)]),
 'getitem|failing-lock': (('error', 'RuntimeError', 'cannot acquire'), [('lock-acquire',)]),
 'getitem|no-lock': (('error', 'TypeError', "'NoneType' object does not support the context manager protocol"), []),
 'getitem|overridden-shape': (('ok', ('ndarray', 'int64', (2, 1), [14, -4])),
                              [('lock-acquire',), ('getitem', ('slice(0, 2, 1)', 'slice(1, 2, 2)')), ('lock-release', None)]),
 'getitem|recording|basic-empty': (('ok', ('ndarray', 'int64', (0, 6), [])),
                                   [('lock-acquire',), ('getitem', ('slice(0, 0, None)', 'slice(None, None, None)')), ('lock-release', None)]),
 'getitem|recording|basic-int-int': (('ok', ('scalar', 'int64', -4)), [('lock-acquire',), ('getitem', ('0', '1')), ('lock-release', None)]),
 'getitem|recording|basic-mixed': (('ok', ('ndarray', 'int64', (2,), [17, 35])),
                                   [('lock-acquire',), ('getitem', ('slice(1, 3, None)', '2')), ('lock-release', None)]),
 'getitem|recording|basic-neg-int': (('ok', ('ndarray', 'int64', (6,), [47, 50, 53, 56, 59, 62])),
                                     [('lock-acquire',), ('getitem', ('3', 'slice(None, None, None)')), ('lock-release', None)]),
 'getitem|recording|basic-neg-step': (('ok', ('ndarray', 'int64', (4, 3), [62, 56, 50, 44, 38, 32, 26, 20, 14, 8, 2, -4])),
                                      [('lock-acquire',), ('getitem', ('slice(0, 4, 1)', 'slice(1, 6, 2)')), ('lock-release', None)]),
 'getitem|recording|basic-np-int': (('ok', ('ndarray', 'int64', (3,), [32, 35, 38])),
                                    [('lock-acquire',), ('getitem', ('2', 'slice(1, 4, None)')), ('lock-release', None)]),
 'getitem|recording|basic-out-of-bounds': (('error', 'IndexError', 'index 10 is out of bounds for axis 0 with size 4'),
                                           [('lock-acquire',), ('getitem', ('10', '0')), ('lock-release', 'IndexError')]),
 'getitem|recording|basic-slices': (('ok',
                                     ('ndarray', 'int64', (4, 6),
                                      [-7, -4, -1, 2, 5, 8, 11, 14, 17, 20, 23, 26, 29, 32, 35, 38, 41, 44, 47, 50, 53, 56, 59, 62])),
                                    [('lock-acquire',), ('getitem', ('slice(None, None, None)', 'slice(None, None, None)')), ('lock-release', None)]),
 'getitem|recording|basic-too-few': (('ok', ('ndarray', 'int64', (6,), [11, 14, 17, 20, 23, 26])),
                                     [('lock-acquire',), ('getitem', ('1',)), ('lock-release', None)]),
 'getitem|recording|basic-too-many': (('ok', ('scalar', 'int64', 14)), [('lock-acquire',), ('getitem', ('1', '1')), ('lock-release', None)]),
 'getitem|recording|outer-arrays': (('ok', ('ndarray', 'int64', (2, 3), [-4, -7, 2, 32, 29, 38])),
                                    [('lock-acquire',), ('getitem', ('slice(0, 3, None)', 'slice(0, 4, None)')), ('lock-release', None)]),
 'getitem|recording|outer-empty': (('error', 'ValueError', 'zero-size array to reduction operation minimum which has no identity'), []),
 'getitem|recording|outer-int': (('ok', ('ndarray', 'int64', (2,), [17, 17])),
                                 [('lock-acquire',), ('getitem', ('1', 'slice(2, 3, None)')), ('lock-release', None)]),
 'getitem|recording|outer-mixed': (('ok', ('ndarray', 'int64', (2, 2), [47, 50, 11, 14])),
                                   [('lock-acquire',), ('getitem', ('slice(1, 4, None)', 'slice(None, 2, None)')), ('lock-release', None)]),
 'getitem|recording|raw-int': (('error', 'TypeError', 'unexpected key type: 0'), []),
 'getitem|recording|raw-none': (('error', 'TypeError', 'unexpected key type: None'), []),
 'getitem|recording|raw-slice': (('error', 'TypeError', 'unexpected key type: slice(None, None, None)'), []),
 'getitem|recording|raw-tuple': (('error', 'TypeError', 'unexpected key type: (0, 1)'), []),
 'getitem|recording|vectorized-2d': (('ok', ('ndarray', 'int64', (2, 2), [-4, 14, 47, 44])),
                                     [('lock-acquire',), ('getitem', ('slice(0, 4, None)', 'slice(0, 6, None)')), ('lock-release', None)]),
 'getitem|recording|vectorized-arrays': (('ok', ('ndarray', 'int64', (3,), [-1, 17, 47])),
                                         [('lock-acquire',), ('getitem', ('slice(0, 4, None)', 'slice(0, 3, None)')), ('lock-release', None)]),
 'getitem|recording|vectorized-mixed': (('error', 'IndexError', 'index 2 is out of bounds for axis 1 with size 2'),
                                        [('lock-acquire',), ('getitem', ('slice(0, 3, None)', 'slice(1, 3, None)')), ('lock-release', None)]),
 'getitem|recording|vectorized-slices': (('ok',
                                          ('ndarray', 'int64', (4, 6),
                                           [-7, -4, -1, 2, 5, 8, 11, 14, 17, 20, 23, 26, 29, 32, 35, 38, 41, 44, 47, 50, 53, 56, 59, 62])),
                                         [('lock-acquire',), ('getitem', ('slice(None, None, None)', 'slice(None, None, None)')),
                                          ('lock-release', None)]),
 'getitem|undecodable': (('error', 'ValueError', 'unknown type code: F*8'),
                         [('lock-acquire',), ('open', 'image', 'rb', ()), ('enter',), ('seek', 8, 0), ('read', 32), ('exit', 'ValueError'),
                          ('lock-release', 'ValueError')]),
 'init|Array': (('ok',
                 {'dtype': ('UInt16DType', 'uint16'),
                  'is-backend-array': True,
                  'is-explicitly-indexed': True,
                  'len': 4,
                  'ndim': 2,
                  'shape': (4, 6),
                  'size': 24,
                  'type': ('ceos_alos2.xarray', 'LazilyIndexedWrapper'),
                  'vars': ['array', 'lock', 'shape', 'dtype']}),
                []),
 'init|Array-bad-dtype': (('error', 'TypeError', "data type 'not-a-dtype' not understood"), []),
 'init|Array-complex': (('ok',
                         {'dtype': ('Complex64DType', 'complex64'),
                          'is-backend-array': True,
                          'is-explicitly-indexed': True,
                          'len': 4,
                          'ndim': 2,
                          'shape': (4, 6),
                          'size': 24,
                          'type': ('ceos_alos2.xarray', 'LazilyIndexedWrapper'),
                          'vars': ['array', 'lock', 'shape', 'dtype']}),
                        []),
 'init|Array-dtype-object': (('ok',
                              {'dtype': ('UInt16DType', 'uint16'),
                               'is-backend-array': True,
                               'is-explicitly-indexed': True,
                               'len': 4,
                               'ndim': 2,
                               'shape': (4, 6),
                               'size': 24,
                               'type': ('ceos_alos2.xarray', 'LazilyIndexedWrapper'),
                               'vars': ['array', 'lock', 'shape', 'dtype']}),
                             []),
 'init|identity': (('ok', [True, True, True, True]), []),
 'init|keywords': (('ok',
                    {'dtype': ('Int64DType', 'int64'),
                     'is-backend-array': True,
                     'is-explicitly-indexed': True,
                     'len': 4,
                     'ndim': 2,
                     'shape': (4, 6),
                     'size': 24,
                     'type': ('ceos_alos2.xarray', 'LazilyIndexedWrapper'),
                     'vars': ['array', 'lock', 'shape', 'dtype']}),
                   []),
 'init|list': (('error', 'AttributeError', "'list' object has no attribute 'shape'"), []),
 'init|no-lock-check': (('ok',
                         {'dtype': ('Int64DType', 'int64'),
                          'is-backend-array': True,
                          'is-explicitly-indexed': True,
                          'len': 4,
                          'ndim': 2,
                          'shape': (4, 6),
                          'size': 24,
                          'type': ('ceos_alos2.xarray', 'LazilyIndexedWrapper'),
                          'vars': ['array', 'lock', 'shape', 'dtype']}),
                        []),
 'init|none': (('error', 'AttributeError', "'NoneType' object has no attribute 'shape'"), []),
 'init|numpy': (('ok',
                 {'dtype': ('Int64DType', 'int64'),
                  'is-backend-array': True,
                  'is-explicitly-indexed': True,
                  'len': 4,
                  'ndim': 2,
                  'shape': (4, 6),
                  'size': 24,
                  'type': ('ceos_alos2.xarray', 'LazilyIndexedWrapper'),
                  'vars': ['array', 'lock', 'shape', 'dtype']}),
                []),
 'init|numpy-0d': (('ok',
                    {'dtype': ('Float64DType', 'float64'),
                     'is-backend-array': True,
                     'is-explicitly-indexed': True,
                     'len': None,
                     'ndim': 0,
                     'shape': (),
                     'size': 1,
                     'type': ('ceos_alos2.xarray', 'LazilyIndexedWrapper'),
                     'vars': ['array', 'lock', 'shape', 'dtype']}),
                   []),
 'init|numpy-1d': (('ok',
                    {'dtype': ('Int64DType', 'int64'),
                     'is-backend-array': True,
                     'is-explicitly-indexed': True,
                     'len': 6,
                     'ndim': 1,
                     'shape': (6,),
                     'size': 6,
                     'type': ('ceos_alos2.xarray', 'LazilyIndexedWrapper'),
                     'vars': ['array', 'lock', 'shape', 'dtype']}),
                   []),
 'init|numpy-bigendian': (('ok',
                           {'dtype': ('Int16DType', '>i2'),
                            'is-backend-array': True,
                            'is-explicitly-indexed': True,
                            'len': 4,
                            'ndim': 2,
                            'shape': (4, 6),
                            'size': 24,
                            'type': ('ceos_alos2.xarray', 'LazilyIndexedWrapper'),
                            'vars': ['array', 'lock', 'shape', 'dtype']}),
                          []),
 'init|numpy-float32': (('ok',
                         {'dtype': ('Float32DType', 'float32'),
                          'is-backend-array': True,
                          'is-explicitly-indexed': True,
                          'len': 4,
                          'ndim': 2,
                          'shape': (4, 6),
                          'size': 24,
                          'type': ('ceos_alos2.xarray', 'LazilyIndexedWrapper'),
                          'vars': ['array', 'lock', 'shape', 'dtype']}),
                        []),
 'init|positional-only-two': (('error', 'TypeError', "LazilyIndexedWrapper.__init__() missing 1 required positional argument: 'lock'"), []),
 'init|recording': (('ok',
                     {'dtype': ('Int64DType', 'int64'),
                      'is-backend-array': True,
                      'is-explicitly-indexed': True,
                      'len': 4,
                      'ndim': 2,
                      'shape': (4, 6),
                      'size': 24,
                      'type': ('ceos_alos2.xarray', 'LazilyIndexedWrapper'),
                      'vars': ['array', 'lock', 'shape', 'dtype']}),
                    []),
 'load|rpc=2|all': (('ok',
                     [0,
                      ('ndarray', 'uint16', (4, 6),
                       [2, 7, 12, 17, 22, 27, 32, 37, 42, 47, 52, 57, 62, 67, 72, 77, 82, 87, 92, 97, 102, 107, 112, 117]),
                      ('rows', 'cols'), {'k': 'v'}, {'preferred_chunksizes': {'cols': 6, 'rows': 2}}]),
                    [('open', 'image', 'rb', ()), ('enter',), ('seek', 8, 0), ('read', 32), ('seek', 48, 0), ('read', 32), ('exit', None)]),
 'load|rpc=2|chained': (('ok', [0, ('ndarray', 'uint16', (2,), [37, 97]), ('rows',), {'k': 'v'}, {'preferred_chunksizes': {'cols': 6, 'rows': 2}}]),
                        [('open', 'image', 'rb', ()), ('enter',), ('seek', 8, 0), ('read', 32), ('seek', 48, 0), ('read', 32), ('exit', None)]),
 'load|rpc=2|cols': (('ok',
                      [0, ('ndarray', 'uint16', (4, 3), [2, 12, 22, 32, 42, 52, 62, 72, 82, 92, 102, 112]), ('rows', 'cols'), {'k': 'v'},
                       {'preferred_chunksizes': {'cols': 6, 'rows': 2}}]),
                     [('open', 'image', 'rb', ()), ('enter',), ('seek', 8, 0), ('read', 32), ('seek', 48, 0), ('read', 32), ('exit', None)]),
 'load|rpc=2|element': (('ok', [0, ('ndarray', 'uint16', (), [112]), (), {'k': 'v'}, {'preferred_chunksizes': {'cols': 6, 'rows': 2}}]),
                        [('open', 'image', 'rb', ()), ('enter',), ('seek', 48, 0), ('read', 32), ('exit', None)]),
 'load|rpc=2|empty': (('ok', [0, ('ndarray', 'uint16', (0, 6), []), ('rows', 'cols'), {'k': 'v'}, {'preferred_chunksizes': {'cols': 6, 'rows': 2}}]),
                      [('open', 'image', 'rb', ()), ('enter',), ('exit', None)]),
 'load|rpc=2|isel': (('ok',
                      [0, ('ndarray', 'uint16', (2, 2), [67, 72, 7, 12]), ('rows', 'cols'), {'k': 'v'},
                       {'preferred_chunksizes': {'cols': 6, 'rows': 2}}]),
                     [('open', 'image', 'rb', ()), ('enter',), ('seek', 8, 0), ('read', 32), ('seek', 48, 0), ('read', 32), ('exit', None)]),
 'load|rpc=2|outer': (('ok',
                       [0, ('ndarray', 'uint16', (2, 3), [7, 12, 27, 97, 102, 117]), ('rows', 'cols'), {'k': 'v'},
                        {'preferred_chunksizes': {'cols': 6, 'rows': 2}}]),
                      [('open', 'image', 'rb', ()), ('enter',), ('seek', 8, 0), ('read', 32), ('seek', 48, 0), ('read', 32), ('exit', None)]),
 'load|rpc=2|reversed': (('ok',
                          [0,
                           ('ndarray', 'uint16', (4, 6),
                            [117, 112, 107, 102, 97, 92, 87, 82, 77, 72, 67, 62, 57, 52, 47, 42, 37, 32, 27, 22, 17, 12, 7, 2]),
                           ('rows', 'cols'), {'k': 'v'}, {'preferred_chunksizes': {'cols': 6, 'rows': 2}}]),
                         [('open', 'image', 'rb', ()), ('enter',), ('seek', 8, 0), ('read', 32), ('seek', 48, 0), ('read', 32), ('exit', None)]),
 'load|rpc=2|row': (('ok',
                     [0, ('ndarray', 'uint16', (6,), [62, 67, 72, 77, 82, 87]), ('cols',), {'k': 'v'},
                      {'preferred_chunksizes': {'cols': 6, 'rows': 2}}]),
                    [('open', 'image', 'rb', ()), ('enter',), ('seek', 48, 0), ('read', 32), ('exit', None)]),
 'load|rpc=2|rows': (('ok',
                      [0, ('ndarray', 'uint16', (2, 6), [32, 37, 42, 47, 52, 57, 62, 67, 72, 77, 82, 87]), ('rows', 'cols'), {'k': 'v'},
                       {'preferred_chunksizes': {'cols': 6, 'rows': 2}}]),
                     [('open', 'image', 'rb', ()), ('enter',), ('seek', 8, 0), ('read', 32), ('seek', 48, 0), ('read', 32), ('exit', None)]),
 'load|rpc=2|transposed': (('ok',
                            [0, ('ndarray', 'uint16', (2, 2), [7, 37, 12, 42]), ('cols', 'rows'), {'k': 'v'},
                             {'preferred_chunksizes': {'cols': 6, 'rows': 2}}]),
                           [('open', 'image', 'rb', ()), ('enter',), ('seek', 8, 0), ('read', 32), ('exit', None)]),
 'load|rpc=2|vectorized': (('ok',
                            [0, ('ndarray', 'uint16', (3,), [27, 92, 42]), ('p',), {'k': 'v'}, {'preferred_chunksizes': {'cols': 6, 'rows': 2}}]),
                           [('open', 'image', 'rb', ()), ('enter',), ('seek', 8, 0), ('read', 32), ('seek', 48, 0), ('read', 32), ('exit', None)]),
 'load|rpc=3|all': (('ok',
                     [0,
                      ('ndarray', 'uint16', (4, 6),
                       [2, 7, 12, 17, 22, 27, 32, 37, 42, 47, 52, 57, 62, 67, 72, 77, 82, 87, 92, 97, 102, 107, 112, 117]),
                      ('rows', 'cols'), {'k': 'v'}, {'preferred_chunksizes': {'cols': 6, 'rows': 3}}]),
                    [('open', 'image', 'rb', ()), ('enter',), ('seek', 8, 0), ('read', 52), ('seek', 68, 0), ('read', 12), ('exit', None)]),
 'load|rpc=3|chained': (('ok', [0, ('ndarray', 'uint16', (2,), [37, 97]), ('rows',), {'k': 'v'}, {'preferred_chunksizes': {'cols': 6, 'rows': 3}}]),
                        [('open', 'image', 'rb', ()), ('enter',), ('seek', 8, 0), ('read', 52), ('seek', 68, 0), ('read', 12), ('exit', None)]),
 'load|rpc=3|cols': (('ok',
                      [0, ('ndarray', 'uint16', (4, 3), [2, 12, 22, 32, 42, 52, 62, 72, 82, 92, 102, 112]), ('rows', 'cols'), {'k': 'v'},
                       {'preferred_chunksizes': {'cols': 6, 'rows': 3}}]),
                     [('open', 'image', 'rb', ()), ('enter',), ('seek', 8, 0), ('read', 52), ('seek', 68, 0), ('read', 12), ('exit', None)]),
 'load|rpc=3|element': (('ok', [0, ('ndarray', 'uint16', (), [112]), (), {'k': 'v'}, {'preferred_chunksizes': {'cols': 6, 'rows': 3}}]),
                        [('open', 'image', 'rb', ()), ('enter',), ('seek', 68, 0), ('read', 12), ('exit', None)]),
 'load|rpc=3|empty': (('ok', [0, ('ndarray', 'uint16', (0, 6), []), ('rows', 'cols'), {'k': 'v'}, {'preferred_chunksizes': {'cols': 6, 'rows': 3}}]),
                      [('open', 'image', 'rb', ()), ('enter',), ('exit', None)]),
 'load|rpc=3|isel': (('ok',
                      [0, ('ndarray', 'uint16', (2, 2), [67, 72, 7, 12]), ('rows', 'cols'), {'k': 'v'},
                       {'preferred_chunksizes': {'cols': 6, 'rows': 3}}]),
                     [('open', 'image', 'rb', ()), ('enter',), ('seek', 8, 0), ('read', 52), ('exit', None)]),
 'load|rpc=3|outer': (('ok',
                       [0, ('ndarray', 'uint16', (2, 3), [7, 12, 27, 97, 102, 117]), ('rows', 'cols'), {'k': 'v'},
                        {'preferred_chunksizes': {'cols': 6, 'rows': 3}}]),
                      [('open', 'image', 'rb', ()), ('enter',), ('seek', 8, 0), ('read', 52), ('seek', 68, 0), ('read', 12), ('exit', None)]),
 'load|rpc=3|reversed': (('ok',
                          [0,
                           ('ndarray', 'uint16', (4, 6),
                            [117, 112, 107, 102, 97, 92, 87, 82, 77, 72, 67, 62, 57, 52, 47, 42, 37, 32, 27, 22, 17, 12, 7, 2]),
                           ('rows', 'cols'), {'k': 'v'}, {'preferred_chunksizes': {'cols': 6, 'rows': 3}}]),
                         [('open', 'image', 'rb', ()), ('enter',), ('seek', 8, 0), ('read', 52), ('seek', 68, 0), ('read', 12), ('exit', None)]),
 'load|rpc=3|row': (('ok',
                     [0, ('ndarray', 'uint16', (6,), [62, 67, 72, 77, 82, 87]), ('cols',), {'k': 'v'},
                      {'preferred_chunksizes': {'cols': 6, 'rows': 3}}]),
                    [('open', 'image', 'rb', ()), ('enter',), ('seek', 8, 0), ('read', 52), ('exit', None)]),
 'load|rpc=3|rows': (('ok',
                      [0, ('ndarray', 'uint16', (2, 6), [32, 37, 42, 47, 52, 57, 62, 67, 72, 77, 82, 87]), ('rows', 'cols'), {'k': 'v'},
                       {'preferred_chunksizes': {'cols': 6, 'rows': 3}}]),
                     [('open', 'image', 'rb', ()), ('enter',), ('seek', 8, 0), ('read', 52), ('exit', None)]),
 'load|rpc=3|transposed': (('ok',
                            [0, ('ndarray', 'uint16', (2, 2), [7, 37, 12, 42]), ('cols', 'rows'), {'k': 'v'},
                             {'preferred_chunksizes': {'cols': 6, 'rows': 3}}]),
                           [('open', 'image', 'rb', ()), ('enter',), ('seek', 8, 0), ('read', 52), ('exit', None)]),
 'load|rpc=3|vectorized': (('ok',
                            [0, ('ndarray', 'uint16', (3,), [27, 92, 42]), ('p',), {'k': 'v'}, {'preferred_chunksizes': {'cols': 6, 'rows': 3}}]),
                           [('open', 'image', 'rb', ()), ('enter',), ('seek', 8, 0), ('read', 52), ('seek', 68, 0), ('read', 12), ('exit', None)]),
 'load|rpc=None|all': (('ok',
                        [0,
                         ('ndarray', 'uint16', (4, 6),
                          [2, 7, 12, 17, 22, 27, 32, 37, 42, 47, 52, 57, 62, 67, 72, 77, 82, 87, 92, 97, 102, 107, 112, 117]),
                         ('rows', 'cols'), {'k': 'v'}, {'preferred_chunksizes': {'cols': 6, 'rows': 1024}}]),
                       [('open', 'image', 'rb', ()), ('enter',), ('seek', 8, 0), ('read', 72), ('exit', None)]),
 'load|rpc=None|chained': (('ok',
                            [0, ('ndarray', 'uint16', (2,), [37, 97]), ('rows',), {'k': 'v'}, {'preferred_chunksizes': {'cols': 6, 'rows': 1024}}]),
                           [('open', 'image', 'rb', ()), ('enter',), ('seek', 8, 0), ('read', 72), ('exit', None)]),
 'load|rpc=None|cols': (('ok',
                         [0, ('ndarray', 'uint16', (4, 3), [2, 12, 22, 32, 42, 52, 62, 72, 82, 92, 102, 112]), ('rows', 'cols'), {'k': 'v'},
                          {'preferred_chunksizes': {'cols': 6, 'rows': 1024}}]),
                        [('open', 'image', 'rb', ()), ('enter',), ('seek', 8, 0), ('read', 72), ('exit', None)]),
 'load|rpc=None|element': (('ok', [0, ('ndarray', 'uint16', (), [112]), (), {'k': 'v'}, {'preferred_chunksizes': {'cols': 6, 'rows': 1024}}]),
                           [('open', 'image', 'rb', ()), ('enter',), ('seek', 8, 0), ('read', 72), ('exit', None)]),
 'load|rpc=None|empty': (('ok',
                          [0, ('ndarray', 'uint16', (0, 6), []), ('rows', 'cols'), {'k': 'v'}, {'preferred_chunksizes': {'cols': 6, 'rows': 1024}}]),
                         [('open', 'image', 'rb', ()), ('enter',), ('exit', None)]),
 'load|rpc=None|isel': (('ok',
                         [0, ('ndarray', 'uint16', (2, 2), [67, 72, 7, 12]), ('rows', 'cols'), {'k': 'v'},
                          {'preferred_chunksizes': {'cols': 6, 'rows': 1024}}]),
                        [('open', 'image', 'rb', ()), ('enter',), ('seek', 8, 0), ('read', 72), ('exit', None)]),
 'load|rpc=None|outer': (('ok',
                          [0, ('ndarray', 'uint16', (2, 3), [7, 12, 27, 97, 102, 117]), ('rows', 'cols'), {'k': 'v'},
                           {'preferred_chunksizes': {'cols': 6, 'rows': 1024}}]),
                         [('open', 'image', 'rb', ()), ('enter',), ('seek', 8, 0), ('read', 72), ('exit', None)]),
 'load|rpc=None|reversed': (('ok',
                             [0,
                              ('ndarray', 'uint16', (4, 6),
                               [117, 112, 107, 102, 97, 92, 87, 82, 77, 72, 67, 62, 57, 52, 47, 42, 37, 32, 27, 22, 17, 12, 7, 2]),
                              ('rows', 'cols'), {'k': 'v'}, {'preferred_chunksizes': {'cols': 6, 'rows': 1024}}]),
                            [('open', 'image', 'rb', ()), ('enter',), ('seek', 8, 0), ('read', 72), ('exit', None)]),
 'load|rpc=None|row': (('ok',
                        [0, ('ndarray', 'uint16', (6,), [62, 67, 72, 77, 82, 87]), ('cols',), {'k': 'v'},
                         {'preferred_chunksizes': {'cols': 6, 'rows': 1024}}]),
                       [('open', 'image', 'rb', ()), ('enter',), ('seek', 8, 0), ('read', 72), ('exit', None)]),
 'load|rpc=None|rows': (('ok',
                         [0, ('ndarray', 'uint16', (2, 6), [32, 37, 42, 47, 52, 57, 62, 67, 72, 77, 82, 87]), ('rows', 'cols'), {'k': 'v'},
                          {'preferred_chunksizes': {'cols': 6, 'rows': 1024}}]),
                        [('open', 'image', 'rb', ()), ('enter',), ('seek', 8, 0), ('read', 72), ('exit', None)]),
 'load|rpc=None|transposed': (('ok',
                               [0, ('ndarray', 'uint16', (2, 2), [7, 37, 12, 42]), ('cols', 'rows'), {'k': 'v'},
                                {'preferred_chunksizes': {'cols': 6, 'rows': 1024}}]),
                              [('open', 'image', 'rb', ()), ('enter',), ('seek', 8, 0), ('read', 72), ('exit', None)]),
 'load|rpc=None|vectorized': (('ok',
                               [0, ('ndarray', 'uint16', (3,), [27, 92, 42]), ('p',), {'k': 'v'},
                                {'preferred_chunksizes': {'cols': 6, 'rows': 1024}}]),
                              [('open', 'image', 'rb', ()), ('enter',), ('seek', 8, 0), ('read', 72), ('exit', None)]),
 'load|twice': (('ok',
                 [('ndarray', 'uint16', (4, 6), [2, 7, 12, 17, 22, 27, 32, 37, 42, 47, 52, 57, 62, 67, 72, 77, 82, 87, 92, 97, 102, 107, 112, 117]),
                  ('ndarray', 'uint16', (4, 6), [2, 7, 12, 17, 22, 27, 32, 37, 42, 47, 52, 57, 62, 67, 72, 77, 82, 87, 92, 97, 102, 107, 112, 117]),
                  ('ndarray', 'uint16', (4, 6), [2, 7, 12, 17, 22, 27, 32, 37, 42, 47, 52, 57, 62, 67, 72, 77, 82, 87, 92, 97, 102, 107, 112, 117]),
                  True]),
                [('open', 'image', 'rb', ()), ('enter',), ('seek', 8, 0), ('read', 32), ('seek', 48, 0), ('read', 32), ('exit', None),
                 ('open', 'image', 'rb', ()), ('enter',), ('seek', 8, 0), ('read', 32), ('seek', 48, 0), ('read', 32), ('exit', None),
                 ('open', 'image', 'rb', ()), ('enter',), ('seek', 8, 0), ('read', 32), ('seek', 48, 0), ('read', 32), ('exit', None)]),
 'pickle': (('ok',
             [{'dtype': ('Int64DType', 'int64'),
               'is-backend-array': True,
               'is-explicitly-indexed': True,
               'len': 4,
               'ndim': 2,
               'shape': (4, 6),
               'size': 24,
               'type': ('ceos_alos2.xarray', 'LazilyIndexedWrapper'),
               'vars': ['array', 'lock', 'shape', 'dtype']},
              ('ndarray', 'int64', (2,), [17, 35]), 'SerializableLock', True]),
            []),
 'raw-indexing-method': (('ok', ('ndarray', 'int64', (1,), [11])),
                         [('lock-acquire',), ('getitem', ('slice(1, 2, None)', '0')), ('lock-release', None)]),
 'to_variable|attrs-none': (('ok',
                             {'attrs': {},
                              'attrs-copied': True,
                              'data-type': 'ndarray',
                              'dims': ('x',),
                              'dtype': 'int64',
                              'encoding': {},
                              'in-memory': True,
                              'same-data': True,
                              'shape': (1,),
                              'type': 'Variable'}),
                            []),
 'to_variable|attrs-not-a-dict': (('error', 'TypeError', "'int' object is not iterable"), []),
 'to_variable|dims-mismatch-lazy': (('error', 'ValueError',
                                     "dimensions ('rows',) must have the same length as the number of data dimensions, ndim=2"),
                                    []),
 'to_variable|dims-mismatch-numpy': (('error', 'ValueError',
                                      "dimensions ('x', 'y') must have the same length as the number of data dimensions, ndim=1"),
                                     []),
 'to_variable|distinct-locks': (('ok', True), []),
 'to_variable|duck-chunked': (('ok', '<xarray.Variable (x: 2)> Size: 16B\narray([1, 2])'), []),
 'to_variable|duck-complete': (('ok', '<xarray.Variable (x: 2)> Size: 16B\narray([1, 2])\nAttributes:\n    a:        1'), []),
 'to_variable|duck-data-only': (('error', 'AttributeError', "'types.SimpleNamespace' object has no attribute 'dims'"), []),
 'to_variable|duck-lazy-data-only': (('error', 'AttributeError', "'types.SimpleNamespace' object has no attribute 'dims'"), []),
 'to_variable|duck-lazy-no-chunks': (('error', 'AttributeError', "'types.SimpleNamespace' object has no attribute 'chunks'"), []),
 'to_variable|duck-no-attrs': (('error', 'AttributeError', "'types.SimpleNamespace' object has no attribute 'attrs'"), []),
 'to_variable|duck-no-chunks': (('error', 'AttributeError', "'types.SimpleNamespace' object has no attribute 'chunks'"), []),
 'to_variable|duck-no-dims': (('error', 'AttributeError', "'types.SimpleNamespace' object has no attribute 'dims'"), []),
 'to_variable|duplicate-dims': (('ok',
                                 {'attrs': {},
                                  'attrs-copied': True,
                                  'data-type': 'LazilyIndexedArray',
                                  'dims': ('x', 'x'),
                                  'dtype': 'uint16',
                                  'encoding': {'preferred_chunksizes': {'x': 6}},
                                  'in-memory': False,
                                  'lazy': {'key': 'BasicIndexer((slice(None, None, None), slice(None, None, None)))',
                                           'lock-type': 'SerializableLock',
                                           'wrapped-is-var-data': True,
                                           'wrapper': {'dtype': ('UInt16DType', 'uint16'),
                                                       'is-backend-array': True,
                                                       'is-explicitly-indexed': True,
                                                       'len': 4,
                                                       'ndim': 2,
                                                       'shape': (4, 6),
                                                       'size': 24,
                                                       'type': ('ceos_alos2.xarray', 'LazilyIndexedWrapper'),
                                                       'vars': ['array', 'lock', 'shape', 'dtype']}},
                                  'shape': (4, 6),
                                  'type': 'Variable'}),
                                []),
 'to_variable|lazy-1d-declared': (('ok',
                                   {'attrs': {},
                                    'attrs-copied': True,
                                    'data-type': 'LazilyIndexedArray',
                                    'dims': ('rows',),
                                    'dtype': 'uint16',
                                    'encoding': {'preferred_chunksizes': {'rows': 2}},
                                    'in-memory': False,
                                    'lazy': {'key': 'BasicIndexer((slice(None, None, None),))',
                                             'lock-type': 'SerializableLock',
                                             'wrapped-is-var-data': True,
                                             'wrapper': {'dtype': ('UInt16DType', 'uint16'),
                                                         'is-backend-array': True,
                                                         'is-explicitly-indexed': True,
                                                         'len': 4,
                                                         'ndim': 1,
                                                         'shape': (4,),
                                                         'size': 4,
                                                         'type': ('ceos_alos2.xarray', 'LazilyIndexedWrapper'),
                                                         'vars': ['array', 'lock', 'shape', 'dtype']}},
                                    'shape': (4,),
                                    'type': 'Variable'}),
                                  []),
 'to_variable|lazy-2d': (('ok',
                          {'attrs': {'b': 3},
                           'attrs-copied': True,
                           'data-type': 'LazilyIndexedArray',
                           'dims': ('rows', 'cols'),
                           'dtype': 'uint16',
                           'encoding': {'preferred_chunksizes': {'cols': 6, 'rows': 2}},
                           'in-memory': False,
                           'lazy': {'key': 'BasicIndexer((slice(None, None, None), slice(None, None, None)))',
                                    'lock-type': 'SerializableLock',
                                    'wrapped-is-var-data': True,
                                    'wrapper': {'dtype': ('UInt16DType', 'uint16'),
                                                'is-backend-array': True,
                                                'is-explicitly-indexed': True,
                                                'len': 4,
                                                'ndim': 2,
                                                'shape': (4, 6),
                                                'size': 24,
                                                'type': ('ceos_alos2.xarray', 'LazilyIndexedWrapper'),
                                                'vars': ['array', 'lock', 'shape', 'dtype']}},
                           'shape': (4, 6),
                           'type': 'Variable'}),
                         []),
 'to_variable|lazy-complex-declared': (('ok',
                                        {'attrs': {},
                                         'attrs-copied': True,
                                         'data-type': 'LazilyIndexedArray',
                                         'dims': ('rows', 'cols'),
                                         'dtype': 'complex64',
                                         'encoding': {'preferred_chunksizes': {'cols': 6, 'rows': 2}},
                                         'in-memory': False,
                                         'lazy': {'key': 'BasicIndexer((slice(None, None, None), slice(None, None, None)))',
                                                  'lock-type': 'SerializableLock',
                                                  'wrapped-is-var-data': True,
                                                  'wrapper': {'dtype': ('Complex64DType', 'complex64'),
                                                              'is-backend-array': True,
                                                              'is-explicitly-indexed': True,
                                                              'len': 4,
                                                              'ndim': 2,
                                                              'shape': (4, 6),
                                                              'size': 24,
                                                              'type': ('ceos_alos2.xarray', 'LazilyIndexedWrapper'),
                                                              'vars': ['array', 'lock', 'shape', 'dtype']}},
                                         'shape': (4, 6),
                                         'type': 'Variable'}),
                                       []),
 'to_variable|lazy-rpc-all': (('ok',
                               {'attrs': {},
                                'attrs-copied': True,
                                'data-type': 'LazilyIndexedArray',
                                'dims': ('rows', 'cols'),
                                'dtype': 'uint16',
                                'encoding': {'preferred_chunksizes': {'cols': 6, 'rows': 4}},
                                'in-memory': False,
                                'lazy': {'key': 'BasicIndexer((slice(None, None, None), slice(None, None, None)))',
                                         'lock-type': 'SerializableLock',
                                         'wrapped-is-var-data': True,
                                         'wrapper': {'dtype': ('UInt16DType', 'uint16'),
                                                     'is-backend-array': True,
                                                     'is-explicitly-indexed': True,
                                                     'len': 4,
                                                     'ndim': 2,
                                                     'shape': (4, 6),
                                                     'size': 24,
                                                     'type': ('ceos_alos2.xarray', 'LazilyIndexedWrapper'),
                                                     'vars': ['array', 'lock', 'shape', 'dtype']}},
                                'shape': (4, 6),
                                'type': 'Variable'}),
                              []),
 'to_variable|lazy-rpc-auto': (('ok',
                                {'attrs': {},
                                 'attrs-copied': True,
                                 'data-type': 'LazilyIndexedArray',
                                 'dims': ('rows', 'cols'),
                                 'dtype': 'uint16',
                                 'encoding': {'preferred_chunksizes': {'cols': 6, 'rows': np.int64(4)}},
                                 'in-memory': False,
                                 'lazy': {'key': 'BasicIndexer((slice(None, None, None), slice(None, None, None)))',
                                          'lock-type': 'SerializableLock',
                                          'wrapped-is-var-data': True,
                                          'wrapper': {'dtype': ('UInt16DType', 'uint16'),
                                                      'is-backend-array': True,
                                                      'is-explicitly-indexed': True,
                                                      'len': 4,
                                                      'ndim': 2,
                                                      'shape': (4, 6),
                                                      'size': 24,
                                                      'type': ('ceos_alos2.xarray', 'LazilyIndexedWrapper'),
                                                      'vars': ['array', 'lock', 'shape', 'dtype']}},
                                 'shape': (4, 6),
                                 'type': 'Variable'}),
                               []),
 'to_variable|lazy-rpc-none': (('ok',
                                {'attrs': {},
                                 'attrs-copied': True,
                                 'data-type': 'LazilyIndexedArray',
                                 'dims': ('rows', 'cols'),
                                 'dtype': 'uint16',
                                 'encoding': {'preferred_chunksizes': {'cols': 6, 'rows': 1024}},
                                 'in-memory': False,
                                 'lazy': {'key': 'BasicIndexer((slice(None, None, None), slice(None, None, None)))',
                                          'lock-type': 'SerializableLock',
                                          'wrapped-is-var-data': True,
                                          'wrapper': {'dtype': ('UInt16DType', 'uint16'),
                                                      'is-backend-array': True,
                                                      'is-explicitly-indexed': True,
                                                      'len': 4,
                                                      'ndim': 2,
                                                      'shape': (4, 6),
                                                      'size': 24,
                                                      'type': ('ceos_alos2.xarray', 'LazilyIndexedWrapper'),
                                                      'vars': ['array', 'lock', 'shape', 'dtype']}},
                                 'shape': (4, 6),
                                 'type': 'Variable'}),
                               []),
 'to_variable|lazy-rpc1': (('ok',
                            {'attrs': {},
                             'attrs-copied': True,
                             'data-type': 'LazilyIndexedArray',
                             'dims': ('rows', 'cols'),
                             'dtype': 'uint16',
                             'encoding': {'preferred_chunksizes': {'cols': 6, 'rows': 1}},
                             'in-memory': False,
                             'lazy': {'key': 'BasicIndexer((slice(None, None, None), slice(None, None, None)))',
                                      'lock-type': 'SerializableLock',
                                      'wrapped-is-var-data': True,
                                      'wrapper': {'dtype': ('UInt16DType', 'uint16'),
                                                  'is-backend-array': True,
                                                  'is-explicitly-indexed': True,
                                                  'len': 4,
                                                  'ndim': 2,
                                                  'shape': (4, 6),
                                                  'size': 24,
                                                  'type': ('ceos_alos2.xarray', 'LazilyIndexedWrapper'),
                                                  'vars': ['array', 'lock', 'shape', 'dtype']}},
                             'shape': (4, 6),
                             'type': 'Variable'}),
                           []),
 'to_variable|list-data': (('ok',
                            {'attrs': {},
                             'attrs-copied': True,
                             'data-type': 'ndarray',
                             'dims': ('x',),
                             'dtype': 'int64',
                             'encoding': {},
                             'in-memory': True,
                             'same-data': False,
                             'shape': (3,),
                             'type': 'Variable'}),
                           []),
 'to_variable|not-a-variable': (('error', 'AttributeError', "'int' object has no attribute 'data'"), []),
 'to_variable|numpy-0d': (('ok',
                           {'attrs': {},
                            'attrs-copied': True,
                            'data-type': 'ndarray',
                            'dims': (),
                            'dtype': 'float64',
                            'encoding': {},
                            'in-memory': True,
                            'same-data': True,
                            'shape': (),
                            'type': 'Variable'}),
                          []),
 'to_variable|numpy-1d': (('ok',
                           {'attrs': {'a': 1},
                            'attrs-copied': True,
                            'data-type': 'ndarray',
                            'dims': ('x',),
                            'dtype': 'int8',
                            'encoding': {},
                            'in-memory': True,
                            'same-data': True,
                            'shape': (2,),
                            'type': 'Variable'}),
                          []),
 'to_variable|numpy-2d': (('ok',
                           {'attrs': {'b': 'abc', 'c': [1, 2]},
                            'attrs-copied': True,
                            'data-type': 'ndarray',
                            'dims': ('x', 'y'),
                            'dtype': 'int64',
                            'encoding': {},
                            'in-memory': True,
                            'same-data': True,
                            'shape': (4, 6),
                            'type': 'Variable'}),
                          []),
 'to_variable|numpy-datetime': (('ok',
                                 {'attrs': {},
                                  'attrs-copied': True,
                                  'data-type': 'ndarray',
                                  'dims': ('t',),
                                  'dtype': 'datetime64[ns]',
                                  'encoding': {},
                                  'in-memory': True,
                                  'same-data': True,
                                  'shape': (2,),
                                  'type': 'Variable'}),
                                []),
 'to_variable|numpy-object': (('ok',
                               {'attrs': {},
                                'attrs-copied': True,
                                'data-type': 'ndarray',
                                'dims': ('o',),
                                'dtype': 'object',
                                'encoding': {},
                                'in-memory': True,
                                'same-data': True,
                                'shape': (2,),
                                'type': 'Variable'}),
                              []),
 'to_variable|numpy-str': (('ok',
                            {'attrs': {'units': '1'},
                             'attrs-copied': True,
                             'data-type': 'ndarray',
                             'dims': ('s',),
                             'dtype': '<U2',
                             'encoding': {},
                             'in-memory': True,
                             'same-data': True,
                             'shape': (2,),
                             'type': 'Variable'}),
                           []),
 'to_variable|scalar-data': (('ok',
                              {'attrs': {},
                               'attrs-copied': True,
                               'data-type': 'ndarray',
                               'dims': (),
                               'dtype': 'int64',
                               'encoding': {},
                               'in-memory': True,
                               'same-data': False,
                               'shape': (),
                               'type': 'Variable'}),
                             []),
 'to_variable|xr-variable': (('error', 'AttributeError', "'NoneType' object has no attribute 'values'"), [])}


def main():
    observed = collect()
    if "--record" in sys.argv:
        pprint.pprint(observed, width=150, compact=True)
        return 0

    failures = []
    for key in sorted(set(observed) | set(EXPECTED)):
        if observed.get(key) != EXPECTED.get(key):
            failures.append(key)
            print(f"MISMATCH {key}:\n  expected {EXPECTED.get(key)!r}\n  observed {observed.get(key)!r}")

    print(f"{len(observed)} cases, {len(failures)} mismatches")
    return 1 if failures else 0


if __name__ == "__main__":
    sys.exit(main())
