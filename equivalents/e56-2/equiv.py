"""Equivalence check for refactoring 2 (signal/processed data record definitions).

Run as ``python equiv.py`` (or through pytest).  ``python equiv.py --record``
prints the observations as a dict literal; EXPECTED below was recorded that
way from the UNCHANGED code.
"""

import hashlib
import io as stdlib_io
import pprint
import random
import sys
from collections import Counter

import construct
import numpy as np

from ceos_alos2 import datatypes
from ceos_alos2.sar_image import enums, io, metadata
from ceos_alos2.sar_image.file_descriptor import file_descriptor_record
from ceos_alos2.sar_image.processed_data import processed_data_record
from ceos_alos2.sar_image.signal_data import signal_data_record
from ceos_alos2.utils import to_dict

RECORDS = {"signal": signal_data_record, "processed": processed_data_record}
TYPE_CODES = {"signal": 10, "processed": 11}


def digest(obj):
    text = obj if isinstance(obj, str) else pprint.pformat(obj, width=120, sort_dicts=False)
    return f"sha256:{hashlib.sha256(text.encode()).hexdigest()} ({len(text)} chars)"


def observe(func, *args, **kwargs):
    try:
        result = func(*args, **kwargs)
    except Exception as e:  # noqa: BLE001
        return f"raised {type(e).__module__}.{type(e).__qualname__}: {e}"
    return f"{type(result).__module__}.{type(result).__qualname__}: {result!r}"


# --- structure of the definitions -------------------------------------------------


def describe(con):
    """nested, printable description of a construct tree"""
    name = type(con).__qualname__
    if isinstance(con, construct.Renamed):
        return ("Renamed", con.name, con.docs, describe(con.subcon))
    if isinstance(con, construct.Struct):
        return ("Struct", [describe(sc) for sc in con.subcons])
    if isinstance(con, construct.Enum):
        return ("Enum", describe(con.subcon), sorted(con.encmapping.items()))
    if isinstance(con, construct.FormatField):
        return ("FormatField", con.fmtstr, con.length)
    if isinstance(con, construct.Bytes):
        return ("Bytes", con.length)
    if isinstance(con, construct.Computed):
        return ("Computed", repr(con.func))
    if isinstance(con, construct.Seek):
        return ("Seek", repr(con.at), con.whence)
    if isinstance(con, datatypes.Factor):
        return (name, con.factor, describe(con.subcon))
    if isinstance(con, datatypes.Metadata):
        return (name, con.attrs, describe(con.subcon))
    if isinstance(con, datatypes.DatetimeYdus):
        return (name, repr(con.reference_date), describe(con.subcon))
    if isinstance(con, construct.Subconstruct):
        return (name, describe(con.subcon))
    return (name, repr(con))


def walk(con):
    yield con
    if isinstance(con, construct.Struct):
        for sc in con.subcons:
            yield from walk(sc)
    elif isinstance(con, construct.Subconstruct):
        yield from walk(con.subcon)


def identities(record):
    nodes = list(walk(record))
    counts = Counter(type(node).__qualname__ for node in nodes)
    unique = Counter(type(node).__qualname__ for node in {id(n): n for n in nodes}.values())
    metadata_nodes = [n for n in nodes if isinstance(n, datatypes.Metadata)]
    return {
        "nodes": sorted(counts.items()),
        "unique-nodes": sorted(unique.items()),
        "metadata-attrs": len(metadata_nodes),
        "unique-metadata-attrs": len({id(n.attrs) for n in metadata_nodes}),
    }


def shared(a, b):
    ids_a = {id(n): n for n in walk(a)}
    ids_b = {id(n): n for n in walk(b)}
    common = [ids_a[i] for i in ids_a if i in ids_b]
    return sorted(Counter(type(n).__qualname__ for n in common).items())


# --- synthetic data -----------------------------------------------------------------


def header_size(record):
    return sum(sc.sizeof() for sc in record.subcons if sc.name != "data")


def make_record(kind, *, seed, payload, number=1, record_length=None, date=(2020, 150, 4321), patches=()):
    """one record: pseudo-random header with a sane preamble and acquisition date"""
    record = RECORDS[kind]
    rng = random.Random(seed)
    size = header_size(record)
    raw = bytearray(rng.randrange(256) for _ in range(size))
    if record_length is None:
        record_length = size + payload
    raw[0:4] = number.to_bytes(4, "big")
    raw[4:8] = bytes([50, TYPE_CODES[kind], 18, 20])
    raw[8:12] = record_length.to_bytes(4, "big")
    for index, value in enumerate(date):
        raw[36 + 4 * index : 40 + 4 * index] = value.to_bytes(4, "big")
    # enums: make some of them hit known values
    if seed % 2 == 0:
        raw[48:50] = (1 << (seed % 3)).to_bytes(2, "big")  # sar_channel_id
        raw[50:52] = (seed % 6).to_bytes(2, "big")  # sar_channel_code
        raw[52:54] = (seed % 2).to_bytes(2, "big")
        raw[54:56] = ((seed // 2) % 2).to_bytes(2, "big")
    if kind == "signal":
        # sensor_acquisition_date_microseconds: keep within a few days
        raw[84:92] = rng.randrange(3 * 86400 * 10**6).to_bytes(8, "big")
    for offset, data in patches:
        raw[offset : offset + len(data)] = data
    body = bytes(rng.randrange(256) for _ in range(payload))
    return bytes(raw) + body


def make_file_descriptor(n_records, record_size, type_code="C*8", lines=None, groups=7):
    values = {
        "number_of_sar_data_records": n_records,
        "sar_data_record_length": record_size,
        "sar_data_format_type_code": type_code,
        "number_of_lines_per_dataset": n_records if lines is None else lines,
        "number_of_data_groups_per_line": groups,
        "interleaving_id": "BSQ",
        "maximum_data_range_of_pixel": 65535,
        "number_of_burst_data": 3,
    }

    def build(struct):
        parts = []
        for sc in struct.subcons:
            if sc.name == "preamble":
                parts.append(bytes([0, 0, 0, 1, 50, 192, 18, 18, 0, 0, 2, 208]))
            elif isinstance(sc.subcon, construct.Struct):
                parts.append(build(sc.subcon))
            else:
                width = sc.sizeof()
                text = str(values.get(sc.name, ""))
                parts.append(text.rjust(width).encode("ascii"))
        return b"".join(parts)

    content = build(file_descriptor_record)
    assert len(content) == 720, len(content)
    return content


class LoggingFile:
    def __init__(self, content):
        self._f = stdlib_io.BytesIO(content)
        self.log = []

    def read(self, n=-1):
        position = self._f.tell()
        data = self._f.read(n)
        self.log.append(("read", n, position, len(data)))
        return data

    def seek(self, offset, whence=0):
        self.log.append(("seek", offset, whence))
        return self._f.seek(offset, whence)

    def tell(self):
        self.log.append(("tell",))
        return self._f.tell()


def summarize_group(group):
    def summarize_variable(var):
        data = var.data
        if isinstance(data, np.ndarray):
            data = (str(data.dtype), data.tolist())
        return (list(var.dims), data, var.attrs)

    return {
        "path": group.path,
        "url": group.url,
        "attrs": group.attrs,
        "variables": {name: summarize_variable(var) for name, var in group.variables.items()},
        "groups": {name: summarize_group(sub) for name, sub in group.groups.items()},
    }


# --- observations -------------------------------------------------------------------


def collect():
    obs = {}

    def add(key, value):
        assert key not in obs, key
        obs[key] = value

    for kind, record in RECORDS.items():
        description = describe(record)
        add(f"{kind}/structure", digest(description))
        add(f"{kind}/type", observe(lambda: type(record).__qualname__))
        add(f"{kind}/top-level-names", [sc.name for sc in record.subcons])
        add(f"{kind}/flat-names", digest([n.name for n in walk(record) if isinstance(n, construct.Renamed)]))
        add(f"{kind}/header-size", header_size(record))
        add(f"{kind}/sizeof", observe(record.sizeof))
        add(f"{kind}/sizeof-of-fields", [observe(sc.sizeof) for sc in record.subcons])
        add(f"{kind}/identities", identities(record))
        add(f"{kind}/data-locator", describe(record.subcons[-1]))
        add(f"{kind}/head", describe(construct.Struct(*record.subcons[:3])))
        add(f"{kind}/lat-lon", [describe(sc) for sc in record.subcons if "_pixel" in sc.name and "itude" in sc.name])
        add(f"{kind}/units", [
            (n.name, n.subcon.attrs)
            for n in walk(record)
            if isinstance(n, construct.Renamed) and isinstance(n.subcon, datatypes.Metadata)
        ])
        add(f"{kind}/registered", io.record_types[TYPE_CODES[kind]] is record)
    add("shared-nodes", shared(signal_data_record, processed_data_record))
    add("shared-enums", [
        name
        for name in ("sar_channel_id", "sar_channel_code", "pulse_polarization")
        if any(n is getattr(enums, name) for n in walk(signal_data_record))
        and any(n is getattr(enums, name) for n in walk(processed_data_record))
    ])

    # single records
    for kind, record in RECORDS.items():
        size = header_size(record)
        cases = {
            "plain": dict(seed=1, payload=16),
            "no-payload": dict(seed=2, payload=0),
            "big-payload": dict(seed=3, payload=3000),
            "enum-hits-4": dict(seed=4, payload=8),
            "enum-hits-6": dict(seed=6, payload=8),
            "enum-hits-10": dict(seed=10, payload=8),
            "short-record-length": dict(seed=5, payload=16, record_length=100),
            "zero-record-length": dict(seed=5, payload=16, record_length=0),
            "long-record-length": dict(seed=7, payload=16, record_length=10**6),
            "max-record-length": dict(seed=7, payload=16, record_length=2**32 - 1),
            "year-zero": dict(seed=8, payload=4, date=(0, 1, 0)),
            "day-zero": dict(seed=8, payload=4, date=(2021, 0, 0)),
            "year-overflow": dict(seed=8, payload=4, date=(10000, 1, 0)),
            "leap-day": dict(seed=9, payload=4, date=(2020, 60, 86399999)),
            "all-zero-tail": dict(seed=11, payload=4, patches=[(56, bytes(size - 56))]),
            "all-ones-tail": dict(seed=12, payload=4, patches=[(56, b"\xff" * (size - 56))]),
        }
        for name, kwargs in cases.items():
            content = make_record(kind, **kwargs)
            add(f"{kind}/parse/{name}", digest(observe(lambda: to_dict(record.parse(content)))))
            if name in ("plain", "year-zero", "short-record-length", "all-ones-tail"):
                result = observe(lambda: to_dict(record.parse(content)))
                add(f"{kind}/parse/{name}/excerpt", (result[:600], result[-300:]))
            add(f"{kind}/parse-types/{name}", digest(observe(lambda: repr(record.parse(content)))))

        content = make_record(kind, seed=1, payload=16)
        for cut in (0, 1, 11, 12, 35, 47, 48, 60, size // 2, size - 1, size, size + 1):
            add(f"{kind}/truncated/{cut}", observe(lambda: to_dict(record.parse(content[:cut]))))

        # parsing from the middle of a stream: offsets are absolute
        stream = stdlib_io.BytesIO(b"\x00" * 333 + content + b"trailing")
        stream.seek(333)
        result = observe(lambda: to_dict(record.parse_stream(stream)))
        add(f"{kind}/stream/offset", (digest(result), stream.tell()))
        parsed = record.parse(content)
        add(f"{kind}/positions", (parsed.record_start, dict(to_dict(parsed.data))))
        add(f"{kind}/container-keys", list(parsed.keys()))
        f = LoggingFile(content)
        record.parse_stream(f)
        add(f"{kind}/stream/io-log", digest(f.log))
        add(f"{kind}/stream/io-log-tail", f.log[-6:])

        # several records at once
        for n, payload in ((1, 8), (3, 0), (4, 24)):
            records = b"".join(
                make_record(kind, seed=20 + i, payload=payload, number=i + 1, date=(2019, 1 + i, 1000 * i))
                for i in range(n)
            )
            element_size = size + payload
            add(f"{kind}/array/{n}/{payload}", digest(observe(lambda: to_dict(record[n].parse(records)))))
            add(f"{kind}/chunk/{n}/{payload}", digest(observe(lambda: to_dict(io.parse_chunk(records, element_size)))))
            add(
                f"{kind}/chunk/{n}/{payload}/positions",
                observe(lambda: [(r.record_start, r.data.start, r.data.size, r.data.stop) for r in io.parse_chunk(records, element_size)]),
            )
            add(f"{kind}/chunk-mismatch/{n}/{payload}", observe(lambda: io.parse_chunk(records + b"x", element_size)))
            add(f"{kind}/array-short/{n}/{payload}", observe(lambda: to_dict(record[n + 1].parse(records))))

        # whole files through read_metadata and transform_metadata
        for n, payload, rpc in ((5, 16, 2), (4, 8, 4), (3, 8, 1024), (1, 0, 1), (6, 12, 4)):
            element_size = size + payload
            body = b"".join(
                make_record(
                    kind,
                    seed=40 + 2 * i,
                    payload=payload,
                    number=i + 2,
                    date=(2021, 32 + i, 3600000 + i),
                    patches=[(12, (i + 1).to_bytes(4, "big"))],
                )
                for i in range(n)
            )
            content = make_file_descriptor(n, element_size) + body
            f = LoggingFile(content)
            key = f"{kind}/file/{n}/{payload}/{rpc}"
            try:
                header, records = io.read_metadata(f, rpc)
            except Exception as e:  # noqa: BLE001
                add(key, f"raised {type(e).__qualname__}: {e}")
                continue
            add(f"{key}/header", digest(header))
            add(f"{key}/records", digest(records))
            add(f"{key}/types", (type(header).__qualname__, type(records).__qualname__, len(records)))
            add(f"{key}/positions", [(r["record_start"], r["data"]) for r in records])
            add(f"{key}/io-log", f.log)
            try:
                group, array_metadata = metadata.transform_metadata(header, records)
            except Exception as e:  # noqa: BLE001
                add(f"{key}/transform", f"raised {type(e).__qualname__}: {e}")
                continue
            summary = summarize_group(group)
            add(f"{key}/group", digest(summary))
            add(f"{key}/group-attrs", group.attrs)
            add(f"{key}/group-variables", {k: (v[0], v[2]) for k, v in summary["variables"].items()})
            add(f"{key}/array-metadata", array_metadata)

        # truncated file
        content = make_file_descriptor(3, size + 8) + make_record(kind, seed=1, payload=8) * 2
        add(f"{kind}/file/truncated", observe(lambda: io.read_metadata(LoggingFile(content), 2)))

    # the wrong kind of record
    wrong = bytearray(make_record("signal", seed=1, payload=0))
    wrong[5] = 12
    add("chunk/unknown-type", observe(lambda: io.parse_chunk(bytes(wrong), len(wrong))))
    add("chunk/empty", observe(lambda: io.parse_chunk(b"", 10)))

    # a signal record interpreted as processed data and the reverse: same leading fields
    content = make_record("signal", seed=4, payload=64)
    a = to_dict(signal_data_record.parse(content))
    b = to_dict(processed_data_record.parse(content))
    common = [k for k in a if k in b and k not in ("data",)]
    add("cross/common-keys", common)
    add("cross/equal-values", [k for k in common if repr(a[k]) == repr(b[k])])

    return obs


EXPECTED = {'signal/structure': 'sha256:d0f1d1566ca5c79d44d3dfd1d8d9a6f26b4fc40de047405d405d9ad35239b1be (7672 chars)',
 'signal/type': "builtins.str: 'Struct'",
 'signal/top-level-names': ['record_start',
                            'preamble',
                            'sar_image_data_line_number',
                            'sar_image_data_record_index',
                            'actual_count_of_left_fill_pixels',
                            'actual_count_of_data_pixels',
                            'actual_count_of_right_fill_pixels',
                            'sensor_parameters_update_flag',
                            'sensor_acquisition_date',
                            'sar_channel_id',
                            'sar_channel_code',
                            'transmitted_pulse_polarization',
                            'received_pulse_polarization',
                            'prf',
                            'scan_id',
                            'onboard_range_compressed_flag',
                            'chirp_type_designator',
                            'chirp_length',
                            'chirp_constant_coefficient',
                            'chirp_linear_coefficient',
                            'chirp_quadratic_coefficient',
                            'sensor_acquisition_date_microseconds',
                            'receiver_gain',
                            'invalid_line_flag',
                            'elevation_angle_at_nadir_of_antenna',
                            'antenna_squint_angle',
                            'slant_range_to_first_data_sample',
                            'data_record_window_position',
                            'blanks1',
                            'platform_position_parameters_update_flag',
                            'platform_latitude',
                            'platform_longitude',
                            'platform_altitude',
                            'platform_ground_speed',
                            'platform_velocity',
                            'platform_acceleration',
                            'platform_track_angle',
                            'platform_true_track_angle',
                            'platform_attitude',
                            'latitude_of_first_pixel',
                            'latitude_of_center_pixel',
                            'latitude_of_last_pixel',
                            'longitude_of_first_pixel',
                            'longitude_of_center_pixel',
                            'longitude_of_last_pixel',
                            'burst_number',
                            'line_number_in_this_burst',
                            'blanks2',
                            'alos2_frame_number',
                            'palsar_auxiliary_data',
                            'data'],
 'signal/flat-names': 'sha256:9a7f4c2f208271036b975923289d00fea265953c2f518b6223f76fd74bf469e1 (1661 chars)',
 'signal/header-size': 544,
 'signal/sizeof': 'raised construct.core.SizeofError: Error in path (sizeof) -> data -> stop\n'
                  'Seek only moves the stream, size is not meaningful',
 'signal/sizeof-of-fields': ['builtins.int: 0',
                             'builtins.int: 12',
                             'builtins.int: 4',
                             'builtins.int: 4',
                             'builtins.int: 4',
                             'builtins.int: 4',
                             'builtins.int: 4',
                             'builtins.int: 4',
                             'builtins.int: 12',
                             'builtins.int: 2',
                             'builtins.int: 2',
                             'builtins.int: 2',
                             'builtins.int: 2',
                             'builtins.int: 4',
                             'builtins.int: 4',
                             'builtins.int: 2',
                             'builtins.int: 2',
                             'builtins.int: 4',
                             'builtins.int: 4',
                             'builtins.int: 4',
                             'builtins.int: 4',
                             'builtins.int: 8',
                             'builtins.int: 4',
                             'builtins.int: 4',
                             'builtins.int: 8',
                             'builtins.int: 8',
                             'builtins.int: 4',
                             'builtins.int: 4',
                             'builtins.int: 4',
                             'builtins.int: 4',
                             'builtins.int: 4',
                             'builtins.int: 4',
                             'builtins.int: 4',
                             'builtins.int: 4',
                             'builtins.int: 12',
                             'builtins.int: 12',
                             'builtins.int: 4',
                             'builtins.int: 4',
                             'builtins.int: 12',
                             'builtins.int: 4',
                             'builtins.int: 4',
                             'builtins.int: 4',
                             'builtins.int: 4',
                             'builtins.int: 4',
                             'builtins.int: 4',
                             'builtins.int: 4',
                             'builtins.int: 4',
                             'builtins.int: 60',
                             'builtins.int: 4',
                             'builtins.int: 256',
                             'raised construct.core.SizeofError: Error in path (sizeof) -> data -> stop\n'
                             'Seek only moves the stream, size is not meaningful'],
 'signal/identities': {'nodes': [('Bytes', 2),
                                 ('Computed', 1),
                                 ('DatetimeYdms', 1),
                                 ('DatetimeYdus', 1),
                                 ('Enum', 6),
                                 ('Factor', 13),
                                 ('Flag', 2),
                                 ('FormatField', 62),
                                 ('Metadata', 33),
                                 ('Renamed', 76),
                                 ('Seek', 1),
                                 ('StripNullBytes', 2),
                                 ('Struct', 9),
                                 ('Tell', 2)],
                       'unique-nodes': [('Bytes', 2),
                                        ('Computed', 1),
                                        ('DatetimeYdms', 1),
                                        ('DatetimeYdus', 1),
                                        ('Enum', 5),
                                        ('Factor', 13),
                                        ('Flag', 2),
                                        ('FormatField', 4),
                                        ('Metadata', 33),
                                        ('Renamed', 76),
                                        ('Seek', 1),
                                        ('StripNullBytes', 2),
                                        ('Struct', 9),
                                        ('Tell', 1)],
                       'metadata-attrs': 33,
                       'unique-metadata-attrs': 33},
 'signal/data-locator': ('Renamed',
                         'data',
                         '',
                         ('Struct',
                          [('Renamed', 'start', '', ('Tell', '<Tell +nonbuild>')),
                           ('Renamed',
                            'size',
                            '',
                            ('Computed',
                             "(this['_']['preamble']['record_length'] - (this['start'] - this['_']['record_start']))")),
                           ('Renamed',
                            'stop',
                            '',
                            ('Seek', "(this['_']['record_start'] + this['_']['preamble']['record_length'])", 0))])),
 'signal/head': ('Struct',
                 [('Renamed', 'record_start', '', ('Tell', '<Tell +nonbuild>')),
                  ('Renamed',
                   'preamble',
                   '',
                   ('Struct',
                    [('Renamed', 'record_sequence_number', '', ('FormatField', '>L', 4)),
                     ('Renamed', 'first_record_subtype', '', ('FormatField', '>B', 1)),
                     ('Renamed', 'record_type', '', ('FormatField', '>B', 1)),
                     ('Renamed', 'second_record_subtype', '', ('FormatField', '>B', 1)),
                     ('Renamed', 'third_record_subtype', '', ('FormatField', '>B', 1)),
                     ('Renamed', 'record_length', '', ('FormatField', '>L', 4))])),
                  ('Renamed', 'sar_image_data_line_number', '', ('FormatField', '>L', 4))]),
 'signal/lat-lon': [('Renamed',
                     'latitude_of_first_pixel',
                     '',
                     ('Metadata', {'units': 'deg'}, ('Factor', 1e-06, ('FormatField', '>L', 4)))),
                    ('Renamed',
                     'latitude_of_center_pixel',
                     '',
                     ('Metadata', {'units': 'deg'}, ('Factor', 1e-06, ('FormatField', '>L', 4)))),
                    ('Renamed',
                     'latitude_of_last_pixel',
                     '',
                     ('Metadata', {'units': 'deg'}, ('Factor', 1e-06, ('FormatField', '>L', 4)))),
                    ('Renamed',
                     'longitude_of_first_pixel',
                     '',
                     ('Metadata', {'units': 'deg'}, ('Factor', 1e-06, ('FormatField', '>L', 4)))),
                    ('Renamed',
                     'longitude_of_center_pixel',
                     '',
                     ('Metadata', {'units': 'deg'}, ('Factor', 1e-06, ('FormatField', '>L', 4)))),
                    ('Renamed',
                     'longitude_of_last_pixel',
                     '',
                     ('Metadata', {'units': 'deg'}, ('Factor', 1e-06, ('FormatField', '>L', 4))))],
 'signal/units': [('prf', {'units': 'mHz'}),
                  ('chirp_length', {'units': 'ns'}),
                  ('chirp_constant_coefficient', {'units': 'Hz'}),
                  ('chirp_linear_coefficient', {'units': 'Hz/µs'}),
                  ('chirp_quadratic_coefficient', {'units': 'Hz/µs^2'}),
                  ('receiver_gain', {'units': 'dB'}),
                  ('electronic', {'units': 'deg'}),
                  ('mechanic', {'units': 'deg'}),
                  ('electronic', {'units': 'deg'}),
                  ('mechanic', {'units': 'deg'}),
                  ('slant_range_to_first_data_sample', {'units': 'm'}),
                  ('data_record_window_position', {'units': 'ns'}),
                  ('platform_latitude', {'units': 'deg'}),
                  ('platform_longitude', {'units': 'deg'}),
                  ('platform_altitude', {'units': 'deg'}),
                  ('platform_ground_speed', {'units': 'cm/s'}),
                  ('x', {'units': 'cm/s'}),
                  ('y', {'units': 'cm/s'}),
                  ('z', {'units': 'cm/s'}),
                  ('x', {'units': 'cm/s^2'}),
                  ('y', {'units': 'cm/s^2'}),
                  ('z', {'units': 'cm/s^2'}),
                  ('platform_track_angle', {'units': 'deg'}),
                  ('platform_true_track_angle', {'units': 'deg'}),
                  ('pitch', {'units': 'deg'}),
                  ('roll', {'units': 'deg'}),
                  ('yaw', {'units': 'deg'}),
                  ('latitude_of_first_pixel', {'units': 'deg'}),
                  ('latitude_of_center_pixel', {'units': 'deg'}),
                  ('latitude_of_last_pixel', {'units': 'deg'}),
                  ('longitude_of_first_pixel', {'units': 'deg'}),
                  ('longitude_of_center_pixel', {'units': 'deg'}),
                  ('longitude_of_last_pixel', {'units': 'deg'})],
 'signal/registered': True,
 'processed/structure': 'sha256:92ddde9785f81c08779b9b73192daeede12496749b4cbed64d342312f4cd95fa (5773 chars)',
 'processed/type': "builtins.str: 'Struct'",
 'processed/top-level-names': ['record_start',
                               'preamble',
                               'sar_image_data_line_number',
                               'sar_image_data_record_index',
                               'actual_count_of_left_fill_pixels',
                               'actual_count_of_data_pixels',
                               'actual_count_of_right_fill_pixels',
                               'sensor_parameters_update_flag',
                               'sensor_acquisition_date',
                               'sar_channel_id',
                               'sar_channel_code',
                               'transmitted_pulse_polarization',
                               'received_pulse_polarization',
                               'prf',
                               'scan_id',
                               'slant_range_to_first_pixel',
                               'slant_range_to_mid_pixel',
                               'slant_range_to_last_pixel',
                               'doppler_centroid_value_at_first_pixel',
                               'doppler_centroid_value_at_mid_pixel',
                               'doppler_centroid_value_at_last_pixel',
                               'azimuth_fm_rate_of_first_pixel',
                               'azimuth_fm_rate_of_mid_pixel',
                               'azimuth_fm_rate_of_last_pixel',
                               'look_angle_of_nadir',
                               'azimuth_squint_angle',
                               'blanks1',
                               'geographic_reference_parameter_update_flag',
                               'latitude_of_first_pixel',
                               'latitude_of_center_pixel',
                               'latitude_of_last_pixel',
                               'longitude_of_first_pixel',
                               'longitude_of_center_pixel',
                               'longitude_of_last_pixel',
                               'northing_of_first_pixel',
                               'blanks2',
                               'northing_of_last_pixel',
                               'easting_of_first_pixel',
                               'blanks3',
                               'easting_of_last_pixel',
                               'line_heading',
                               'blanks4',
                               'data'],
 'processed/flat-names': 'sha256:272df3b70d7fd4121099cc3c4af3e8c945f782ee84d6f72321a0b3e2accf2de4 (1359 chars)',
 'processed/header-size': 192,
 'processed/sizeof': 'raised construct.core.SizeofError: Error in path (sizeof) -> data -> stop\n'
                     'Seek only moves the stream, size is not meaningful',
 'processed/sizeof-of-fields': ['builtins.int: 0',
                                'builtins.int: 12',
                                'builtins.int: 4',
                                'builtins.int: 4',
                                'builtins.int: 4',
                                'builtins.int: 4',
                                'builtins.int: 4',
                                'builtins.int: 4',
                                'builtins.int: 12',
                                'builtins.int: 2',
                                'builtins.int: 2',
                                'builtins.int: 2',
                                'builtins.int: 2',
                                'builtins.int: 4',
                                'builtins.int: 4',
                                'builtins.int: 4',
                                'builtins.int: 4',
                                'builtins.int: 4',
                                'builtins.int: 4',
                                'builtins.int: 4',
                                'builtins.int: 4',
                                'builtins.int: 4',
                                'builtins.int: 4',
                                'builtins.int: 4',
                                'builtins.int: 4',
                                'builtins.int: 4',
                                'builtins.int: 20',
                                'builtins.int: 4',
                                'builtins.int: 4',
                                'builtins.int: 4',
                                'builtins.int: 4',
                                'builtins.int: 4',
                                'builtins.int: 4',
                                'builtins.int: 4',
                                'builtins.int: 4',
                                'builtins.int: 4',
                                'builtins.int: 4',
                                'builtins.int: 4',
                                'builtins.int: 4',
                                'builtins.int: 4',
                                'builtins.int: 4',
                                'builtins.int: 8',
                                'raised construct.core.SizeofError: Error in path (sizeof) -> data -> stop\n'
                                'Seek only moves the stream, size is not meaningful'],
 'processed/identities': {'nodes': [('Bytes', 4),
                                    ('Computed', 1),
                                    ('DatetimeYdms', 1),
                                    ('Enum', 4),
                                    ('Factor', 12),
                                    ('FormatField', 44),
                                    ('Metadata', 23),
                                    ('Renamed', 55),
                                    ('Seek', 1),
                                    ('StripNullBytes', 4),
                                    ('Struct', 4),
                                    ('Tell', 2)],
                          'unique-nodes': [('Bytes', 4),
                                           ('Computed', 1),
                                           ('DatetimeYdms', 1),
                                           ('Enum', 3),
                                           ('Factor', 12),
                                           ('FormatField', 3),
                                           ('Metadata', 23),
                                           ('Renamed', 55),
                                           ('Seek', 1),
                                           ('StripNullBytes', 4),
                                           ('Struct', 4),
                                           ('Tell', 1)],
                          'metadata-attrs': 23,
                          'unique-metadata-attrs': 23},
 'processed/data-locator': ('Renamed',
                            'data',
                            '',
                            ('Struct',
                             [('Renamed', 'start', '', ('Tell', '<Tell +nonbuild>')),
                              ('Renamed',
                               'size',
                               '',
                               ('Computed',
                                "(this['_']['preamble']['record_length'] - (this['start'] - "
                                "this['_']['record_start']))")),
                              ('Renamed',
                               'stop',
                               '',
                               ('Seek', "(this['_']['record_start'] + this['_']['preamble']['record_length'])", 0))])),
 'processed/head': ('Struct',
                    [('Renamed', 'record_start', '', ('Tell', '<Tell +nonbuild>')),
                     ('Renamed',
                      'preamble',
                      '',
                      ('Struct',
                       [('Renamed', 'record_sequence_number', '', ('FormatField', '>L', 4)),
                        ('Renamed', 'first_record_subtype', '', ('FormatField', '>B', 1)),
                        ('Renamed', 'record_type', '', ('FormatField', '>B', 1)),
                        ('Renamed', 'second_record_subtype', '', ('FormatField', '>B', 1)),
                        ('Renamed', 'third_record_subtype', '', ('FormatField', '>B', 1)),
                        ('Renamed', 'record_length', '', ('FormatField', '>L', 4))])),
                     ('Renamed', 'sar_image_data_line_number', '', ('FormatField', '>L', 4))]),
 'processed/lat-lon': [('Renamed',
                        'latitude_of_first_pixel',
                        '',
                        ('Metadata', {'units': 'deg'}, ('Factor', 1e-06, ('FormatField', '>L', 4)))),
                       ('Renamed',
                        'latitude_of_center_pixel',
                        '',
                        ('Metadata', {'units': 'deg'}, ('Factor', 1e-06, ('FormatField', '>L', 4)))),
                       ('Renamed',
                        'latitude_of_last_pixel',
                        '',
                        ('Metadata', {'units': 'deg'}, ('Factor', 1e-06, ('FormatField', '>L', 4)))),
                       ('Renamed',
                        'longitude_of_first_pixel',
                        '',
                        ('Metadata', {'units': 'deg'}, ('Factor', 1e-06, ('FormatField', '>L', 4)))),
                       ('Renamed',
                        'longitude_of_center_pixel',
                        '',
                        ('Metadata', {'units': 'deg'}, ('Factor', 1e-06, ('FormatField', '>L', 4)))),
                       ('Renamed',
                        'longitude_of_last_pixel',
                        '',
                        ('Metadata', {'units': 'deg'}, ('Factor', 1e-06, ('FormatField', '>L', 4))))],
 'processed/units': [('prf', {'units': 'mHz'}),
                     ('slant_range_to_first_pixel', {'units': 'm'}),
                     ('slant_range_to_mid_pixel', {'units': 'm'}),
                     ('slant_range_to_last_pixel', {'units': 'm'}),
                     ('doppler_centroid_value_at_first_pixel', {'units': 'Hz'}),
                     ('doppler_centroid_value_at_mid_pixel', {'units': 'Hz'}),
                     ('doppler_centroid_value_at_last_pixel', {'units': 'Hz'}),
                     ('azimuth_fm_rate_of_first_pixel', {'units': 'Hz/ms'}),
                     ('azimuth_fm_rate_of_mid_pixel', {'units': 'Hz/ms'}),
                     ('azimuth_fm_rate_of_last_pixel', {'units': 'Hz/ms'}),
                     ('look_angle_of_nadir', {'units': 'deg'}),
                     ('azimuth_squint_angle', {'units': 'deg'}),
                     ('latitude_of_first_pixel', {'units': 'deg'}),
                     ('latitude_of_center_pixel', {'units': 'deg'}),
                     ('latitude_of_last_pixel', {'units': 'deg'}),
                     ('longitude_of_first_pixel', {'units': 'deg'}),
                     ('longitude_of_center_pixel', {'units': 'deg'}),
                     ('longitude_of_last_pixel', {'units': 'deg'}),
                     ('northing_of_first_pixel', {'units': 'm'}),
                     ('northing_of_last_pixel', {'units': 'm'}),
                     ('easting_of_first_pixel', {'units': 'm'}),
                     ('easting_of_last_pixel', {'units': 'm'}),
                     ('line_heading', {'units': 'deg'})],
 'processed/registered': True,
 'shared-nodes': [('Enum', 3), ('FormatField', 3), ('Renamed', 6), ('Struct', 1), ('Tell', 1)],
 'shared-enums': ['sar_channel_id', 'sar_channel_code', 'pulse_polarization'],
 'signal/parse/plain': 'sha256:6a4c5c3339e07d61a7b48155612554e6a92f1e0ee91a1c029915194f5125c8a4 (3914 chars)',
 'signal/parse/plain/excerpt': ("builtins.dict: {'record_start': 0, 'preamble': {'record_sequence_number': 1, "
                                "'first_record_subtype': 50, 'record_type': 10, 'second_record_subtype': 18, "
                                "'third_record_subtype': 20, 'record_length': 560}, 'sar_image_data_line_number': "
                                "3353149924, 'sar_image_data_record_index': 2289382562, "
                                "'actual_count_of_left_fill_pixels': 252382468, 'actual_count_of_data_pixels': "
                                "3278821390, 'actual_count_of_right_fill_pixels': 1910570359, "
                                "'sensor_parameters_update_flag': 2960552171, 'sensor_acquisition_date': "
                                "datetime.datetime(2020, 5, 29, 0, 0, 4, 321000), 'sar_channel_id': 65481, "
                                "'sar_channel_code': 4597, ",
                                'x80\\xe4V\\xb6\\xfb\\xd7>j\\xc4h\\x917\\x0c<\\x06\\x97E&\\xbf\\x9f\\xdf\\xb6\\xa5\\x00?\\xe2\\xe6\\xb3\\x9c\\xcc\\xad\\xfc9\\xc1\\xc3h\\x01\\x8ee\\xec\\xd1\\x9cW\\xe6e\\xb8\\x01\\xc7\\xda\\xcf\\xac"\\xfc~\\x94\\n\\xd0O\\xcb\\x8a[%\\x05\\xb2\\x87\\xd2\\x9bM\\xec\\x84\\xf8V\\xef\\x17\\x8a2\\xd8#\\xb5"\\xe2\', '
                                "'data': {'start': 544, 'size': 16, 'stop': 560}}"),
 'signal/parse-types/plain': 'sha256:08cd4fb4e6423ea169df2137063099c74da9341b3469f838298c5fa7b4fa96a6 (4100 chars)',
 'signal/parse/no-payload': 'sha256:29ae1259f3b8894b24bdbdbe172830abfd5bacca63fb1e843f725ed347182c0c (3945 chars)',
 'signal/parse-types/no-payload': 'sha256:54969013fc4e04a99d30e1cd205be5d2f4869277de445a2af2f951bd5def54be (4256 '
                                  'chars)',
 'signal/parse/big-payload': 'sha256:394a1003946726393c1ae4bbd527ca2c5b5a0b2862a4bcef8e17cfbc7de3ea05 (3910 chars)',
 'signal/parse-types/big-payload': 'sha256:0e423da10ea46e0cd704cc97f34ee3b8288c4056a10b4c6715ddbd5f52d3306e (4101 '
                                   'chars)',
 'signal/parse/enum-hits-4': 'sha256:4b83f1aacda74f4f8c09fa3e01b425b9911c55df9f6025607edcd531e9cbf8c3 (3900 chars)',
 'signal/parse-types/enum-hits-4': 'sha256:218a8e80fed8d3b5188a9030ffb7cbd07f97b0d8d553f20ccb59c2a4250e0a70 (4209 '
                                   'chars)',
 'signal/parse/enum-hits-6': 'sha256:e151a28761a8e98e0100bf4a8c84223105a966799ceb5674fb15e8f3842edfc1 (3939 chars)',
 'signal/parse-types/enum-hits-6': 'sha256:ae2b2250caa934161574791bb1373e07184512e0905d78538b57a05a8c160ccd (4240 '
                                   'chars)',
 'signal/parse/enum-hits-10': 'sha256:bdee6057471137c22bb171e2ad1cc0c5afed604b37555f91e47537863d4a6cb9 (3941 chars)',
 'signal/parse-types/enum-hits-10': 'sha256:6590d3e0643bb7c1ba7655704095a2b22063ff2cca1c647e18ffea15fde23958 (4247 '
                                    'chars)',
 'signal/parse/short-record-length': 'sha256:77810f346cca65cfb082834da2180cfc63cd961527aff42d6f121510d43d5d84 (3957 '
                                     'chars)',
 'signal/parse/short-record-length/excerpt': ("builtins.dict: {'record_start': 0, 'preamble': "
                                              "{'record_sequence_number': 1, 'first_record_subtype': 50, "
                                              "'record_type': 10, 'second_record_subtype': 18, 'third_record_subtype': "
                                              "20, 'record_length': 100}, 'sar_image_data_line_number': 880739950, "
                                              "'sar_image_data_record_index': 3499056583, "
                                              "'actual_count_of_left_fill_pixels': 1361332195, "
                                              "'actual_count_of_data_pixels': 1078132738, "
                                              "'actual_count_of_right_fill_pixels': 1802392661, "
                                              "'sensor_parameters_update_flag': 2493539688, 'sensor_acquisition_date': "
                                              "datetime.datetime(2020, 5, 29, 0, 0, 4, 321000), 'sar_channel_id': "
                                              "39425, 'sar_channel_code': 44321,",
                                              'c3bOQ$\\xbf\\xc5\\xf0M\\x828\\x8eR\\x92x\\x10\\xf6\\x10\\xb0\\xbc\\xa1\\x1e\\x0b\\xe9\\xf1O<\\xa6\\x95\\xe8zS\\x11f\\x0cv(\\xcd\\xba\\x9f^\\xef\\xb9\\x90"\\xefS{Yj\\x16\\xdc\\x8a\\x03\\xec\\x1f\\xe7\\xd2V\\x17\\x11\\xb30$y\\xfb/\\xf1\\x1b|\\x19\\xfe\\xcb\\x1e\\x18\\x82\\xd0\\xe4\\x9c\\x1a\\x13c[\\xce\', '
                                              "'data': {'start': 544, 'size': -444, 'stop': 100}}"),
 'signal/parse-types/short-record-length': 'sha256:69edb12cb77e6fb38feb25c4a2e302da37f15adb060c5b0b81533bdf7b005ac9 '
                                           '(4157 chars)',
 'signal/parse/zero-record-length': 'sha256:a47f064414d607909453499075c4d8fae3537d5f1d84fd65aa0df22f91b20fd2 (3953 '
                                    'chars)',
 'signal/parse-types/zero-record-length': 'sha256:a7d79507f5cdbe9a7e4f47fc1282e346df472aac6ae5b102737f34b5238442ec '
                                          '(4153 chars)',
 'signal/parse/long-record-length': 'sha256:ca7e6887f7ee4f763a00cb3cf06372041edd59f59335db9a440dff6e09b06fd6 (3917 '
                                    'chars)',
 'signal/parse-types/long-record-length': 'sha256:42865fdd92fb9d7815fa6274773f7553535c8cc0b42d663690b15860a1e67589 '
                                          '(4107 chars)',
 'signal/parse/max-record-length': 'sha256:6fe01297648d707c854f05d9614dc983ca153521e8444e5e5c725229e2db7eff (3927 '
                                   'chars)',
 'signal/parse-types/max-record-length': 'sha256:ca675112d2749380cba441f89c0e269fb1e7876f0e22ec73ccf54f1d19816bf3 '
                                         '(4117 chars)',
 'signal/parse/year-zero': 'sha256:cba893db36859327b0e0f2158e5709a94c22eda4dbce3bcf584d843cc6cdea1c (50 chars)',
 'signal/parse/year-zero/excerpt': ('raised builtins.ValueError: year 0 is out of range',
                                    'raised builtins.ValueError: year 0 is out of range'),
 'signal/parse-types/year-zero': 'sha256:cba893db36859327b0e0f2158e5709a94c22eda4dbce3bcf584d843cc6cdea1c (50 chars)',
 'signal/parse/day-zero': 'sha256:f45c7065b68f13e487ad61165925d80712252695b71cd2e4d541c18e6ee83263 (3942 chars)',
 'signal/parse-types/day-zero': 'sha256:b57b693de4dfeb90df5e1d8da2c0b803fcd8d603f210c43366467b9834851fe5 (4104 chars)',
 'signal/parse/year-overflow': 'sha256:272b33628b9ce37e625463f927109b6e4e9e14f6d2b223674d6f0b964ba224b1 (54 chars)',
 'signal/parse-types/year-overflow': 'sha256:272b33628b9ce37e625463f927109b6e4e9e14f6d2b223674d6f0b964ba224b1 (54 '
                                     'chars)',
 'signal/parse/leap-day': 'sha256:e4cbf36c0b56f6feb335fef2420aa120d919b5d83a121b666da121e861fb2da4 (3923 chars)',
 'signal/parse-types/leap-day': 'sha256:65f737c80bb2cf6ff583c269dab42f88ffb614b6e3ef8c3e5482184a7c4827d5 (4116 chars)',
 'signal/parse/all-zero-tail': 'sha256:d3322740ead5aacb3fc166651f14378392866bca6d2fc4a6b90313099f09407e (2665 chars)',
 'signal/parse-types/all-zero-tail': 'sha256:2e531672d26df2256850f2e2c6594949d4310bd58654a23b37319d6276d69d05 (2573 '
                                     'chars)',
 'signal/parse/all-ones-tail': 'sha256:bef487a150e5822bd0cc34326d600e0d289c5b6469c0f7058cafcd7c8c23f0b6 (54 chars)',
 'signal/parse/all-ones-tail/excerpt': ('raised builtins.OverflowError: date value out of range',
                                        'raised builtins.OverflowError: date value out of range'),
 'signal/parse-types/all-ones-tail': 'sha256:bef487a150e5822bd0cc34326d600e0d289c5b6469c0f7058cafcd7c8c23f0b6 (54 '
                                     'chars)',
 'signal/truncated/0': 'raised construct.core.StreamError: Error in path (parsing) -> preamble -> '
                       'record_sequence_number\n'
                       'stream read less than specified amount, expected 4, found 0',
 'signal/truncated/1': 'raised construct.core.StreamError: Error in path (parsing) -> preamble -> '
                       'record_sequence_number\n'
                       'stream read less than specified amount, expected 4, found 1',
 'signal/truncated/11': 'raised construct.core.StreamError: Error in path (parsing) -> preamble -> record_length\n'
                        'stream read less than specified amount, expected 4, found 3',
 'signal/truncated/12': 'raised construct.core.StreamError: Error in path (parsing) -> sar_image_data_line_number\n'
                        'stream read less than specified amount, expected 4, found 0',
 'signal/truncated/35': 'raised construct.core.StreamError: Error in path (parsing) -> sensor_parameters_update_flag\n'
                        'stream read less than specified amount, expected 4, found 3',
 'signal/truncated/47': 'raised construct.core.StreamError: Error in path (parsing) -> sensor_acquisition_date -> '
                        'milliseconds\n'
                        'stream read less than specified amount, expected 4, found 3',
 'signal/truncated/48': 'raised construct.core.StreamError: Error in path (parsing) -> sar_channel_id\n'
                        'stream read less than specified amount, expected 2, found 0',
 'signal/truncated/60': 'raised construct.core.StreamError: Error in path (parsing) -> scan_id\n'
                        'stream read less than specified amount, expected 4, found 0',
 'signal/truncated/272': 'raised construct.core.StreamError: Error in path (parsing) -> blanks2\n'
                         'stream read less than specified amount, expected 60, found 48',
 'signal/truncated/543': 'raised construct.core.StreamError: Error in path (parsing) -> palsar_auxiliary_data\n'
                         'stream read less than specified amount, expected 256, found 255',
 'signal/truncated/544': "builtins.dict: {'record_start': 0, 'preamble': {'record_sequence_number': 1, "
                         "'first_record_subtype': 50, 'record_type': 10, 'second_record_subtype': 18, "
                         "'third_record_subtype': 20, 'record_length': 560}, 'sar_image_data_line_number': 3353149924, "
                         "'sar_image_data_record_index': 2289382562, 'actual_count_of_left_fill_pixels': 252382468, "
                         "'actual_count_of_data_pixels': 3278821390, 'actual_count_of_right_fill_pixels': 1910570359, "
                         "'sensor_parameters_update_flag': 2960552171, 'sensor_acquisition_date': "
                         "datetime.datetime(2020, 5, 29, 0, 0, 4, 321000), 'sar_channel_id': 65481, "
                         "'sar_channel_code': 4597, 'transmitted_pulse_polarization': 31950, "
                         "'received_pulse_polarization': 54360, 'prf': (3149868256, {'units': 'mHz'}), 'scan_id': "
                         "928238013, 'onboard_range_compressed_flag': True, 'chirp_type_designator': 61462, "
                         "'chirp_length': (2647218006, {'units': 'ns'}), 'chirp_constant_coefficient': (1946576502, "
                         "{'units': 'Hz'}), 'chirp_linear_coefficient': (3484464363, {'units': 'Hz/µs'}), "
                         "'chirp_quadratic_coefficient': (2298659906, {'units': 'Hz/µs^2'}), "
                         "'sensor_acquisition_date_microseconds': datetime.datetime(2020, 5, 29, 11, 57, 14, 461580), "
                         "'receiver_gain': (3067392256, {'units': 'dB'}), 'invalid_line_flag': True, "
                         "'elevation_angle_at_nadir_of_antenna': {'electronic': (1515990658, {'units': 'deg'}), "
                         "'mechanic': (270805512, {'units': 'deg'})}, 'antenna_squint_angle': {'electronic': "
                         "(3876032383, {'units': 'deg'}), 'mechanic': (2302172848, {'units': 'deg'})}, "
                         "'slant_range_to_first_data_sample': (2485343569, {'units': 'm'}), "
                         "'data_record_window_position': (2186709910, {'units': 'ns'}), 'blanks1': 3903127282, "
                         "'platform_position_parameters_update_flag': 973905861, 'platform_latitude': (2950.127748, "
                         "{'units': 'deg'}), 'platform_longitude': (931.2286369999999, {'units': 'deg'}), "
                         "'platform_altitude': (175311307, {'units': 'deg'}), 'platform_ground_speed': (1242714852, "
                         "{'units': 'cm/s'}), 'platform_velocity': {'x': (3664832114, {'units': 'cm/s'}), 'y': "
                         "(264938714, {'units': 'cm/s'}), 'z': (513294444, {'units': 'cm/s'})}, "
                         "'platform_acceleration': {'x': (412886055, {'units': 'cm/s^2'}), 'y': (2660782549, {'units': "
                         "'cm/s^2'}), 'z': (2168587283, {'units': 'cm/s^2'})}, 'platform_track_angle': (1877.694227, "
                         "{'units': 'deg'}), 'platform_true_track_angle': (3244.7327219999997, {'units': 'deg'}), "
                         "'platform_attitude': {'pitch': (1776.116732, {'units': 'deg'}), 'roll': (902.273023, "
                         "{'units': 'deg'}), 'yaw': (145.149328, {'units': 'deg'})}, 'latitude_of_first_pixel': "
                         "(156.264103, {'units': 'deg'}), 'latitude_of_center_pixel': (1169.0218049999999, {'units': "
                         "'deg'}), 'latitude_of_last_pixel': (2284.9624799999997, {'units': 'deg'}), "
                         "'longitude_of_first_pixel': (4168.622356, {'units': 'deg'}), 'longitude_of_center_pixel': "
                         "(725.898837, {'units': 'deg'}), 'longitude_of_last_pixel': (1837.7386259999998, {'units': "
                         "'deg'}), 'burst_number': 3165498938, 'line_number_in_this_burst': 2507733573, 'blanks2': "
                         'b"5\\xa4\\x14\\xd0%\\xc2K@\\xae:\\xc1\'r)\\x88\\xba\\x97:\\xea\\x8d7\\x17\\x97\\x06\\x07.\\xd3:\\x14`z\\xd7R;\\xe6U{Q4\\xde\\xc1\\x96\\x81\\xf4\\xa13j\\xa2\\x14\\r\\x05\\x97\\xa3\\xe6\\xc8\\xa0\\xcc  '
                         '\\xa2", \'alos2_frame_number\': 3912859758, \'palsar_auxiliary_data\': '
                         "b'\\xf0\\xb6\\x84]j\\x9de~\\xb8)\\x8f-\\xe5.\\xadt\\xc7\\x9d\\x15\\xa7_\\xa2\\x9b}\\xab3/}p\\n|\\xcd%\\x89$&\\x0b\\x05\\x94\\xb7\\xfc\\xf0N3\\xa7\\'X[LH\\xa3\\x9c6\\x96@iH\\x10\\xa1i[\\x99\\xddP\\x18~\\x81 "
                         '\\xe4\\xdc\\x80\\xe0\\xe8\\x05\\xca\\xadW\\x84\\xf8\\x0c\\xd5\\t\\x1f\\xb5F@F\\x84\\x8d\\xcb\\xcdX-w\\xf8\\x03Z\\xa2\\xe0sz\\xa0\\xfd\\xf5s\\xd3\\xac\\x8cp\\x18$\\xbcQh\\x9f\\x98\\x99\\xbeT\\xed+?\\xc1ZO\\x80\\xdao\\x1a\\xfd\\xc9\\xb2\\xc4T\\x14.\\x823\\x88*G)\\xe3{\\xc3\\xdd\\xcbT\\xa6\\xe0@\\xf9l=\\xdc\\xd1<\\x97\\x8e\\x7f\\xc1\\x02a\\xe0\\n\\x0f|\\x85iX\\x91Kf\\x8b\\x9f\\x80\\xe4V\\xb6\\xfb\\xd7>j\\xc4h\\x917\\x0c<\\x06\\x97E&\\xbf\\x9f\\xdf\\xb6\\xa5\\x00?\\xe2\\xe6\\xb3\\x9c\\xcc\\xad\\xfc9\\xc1\\xc3h\\x01\\x8ee\\xec\\xd1\\x9cW\\xe6e\\xb8\\x01\\xc7\\xda\\xcf\\xac"\\xfc~\\x94\\n\\xd0O\\xcb\\x8a[%\\x05\\xb2\\x87\\xd2\\x9bM\\xec\\x84\\xf8V\\xef\\x17\\x8a2\\xd8#\\xb5"\\xe2\', '
                         "'data': {'start': 544, 'size': 16, 'stop': 560}}",
 'signal/truncated/545': "builtins.dict: {'record_start': 0, 'preamble': {'record_sequence_number': 1, "
                         "'first_record_subtype': 50, 'record_type': 10, 'second_record_subtype': 18, "
                         "'third_record_subtype': 20, 'record_length': 560}, 'sar_image_data_line_number': 3353149924, "
                         "'sar_image_data_record_index': 2289382562, 'actual_count_of_left_fill_pixels': 252382468, "
                         "'actual_count_of_data_pixels': 3278821390, 'actual_count_of_right_fill_pixels': 1910570359, "
                         "'sensor_parameters_update_flag': 2960552171, 'sensor_acquisition_date': "
                         "datetime.datetime(2020, 5, 29, 0, 0, 4, 321000), 'sar_channel_id': 65481, "
                         "'sar_channel_code': 4597, 'transmitted_pulse_polarization': 31950, "
                         "'received_pulse_polarization': 54360, 'prf': (3149868256, {'units': 'mHz'}), 'scan_id': "
                         "928238013, 'onboard_range_compressed_flag': True, 'chirp_type_designator': 61462, "
                         "'chirp_length': (2647218006, {'units': 'ns'}), 'chirp_constant_coefficient': (1946576502, "
                         "{'units': 'Hz'}), 'chirp_linear_coefficient': (3484464363, {'units': 'Hz/µs'}), "
                         "'chirp_quadratic_coefficient': (2298659906, {'units': 'Hz/µs^2'}), "
                         "'sensor_acquisition_date_microseconds': datetime.datetime(2020, 5, 29, 11, 57, 14, 461580), "
                         "'receiver_gain': (3067392256, {'units': 'dB'}), 'invalid_line_flag': True, "
                         "'elevation_angle_at_nadir_of_antenna': {'electronic': (1515990658, {'units': 'deg'}), "
                         "'mechanic': (270805512, {'units': 'deg'})}, 'antenna_squint_angle': {'electronic': "
                         "(3876032383, {'units': 'deg'}), 'mechanic': (2302172848, {'units': 'deg'})}, "
                         "'slant_range_to_first_data_sample': (2485343569, {'units': 'm'}), "
                         "'data_record_window_position': (2186709910, {'units': 'ns'}), 'blanks1': 3903127282, "
                         "'platform_position_parameters_update_flag': 973905861, 'platform_latitude': (2950.127748, "
                         "{'units': 'deg'}), 'platform_longitude': (931.2286369999999, {'units': 'deg'}), "
                         "'platform_altitude': (175311307, {'units': 'deg'}), 'platform_ground_speed': (1242714852, "
                         "{'units': 'cm/s'}), 'platform_velocity': {'x': (3664832114, {'units': 'cm/s'}), 'y': "
                         "(264938714, {'units': 'cm/s'}), 'z': (513294444, {'units': 'cm/s'})}, "
                         "'platform_acceleration': {'x': (412886055, {'units': 'cm/s^2'}), 'y': (2660782549, {'units': "
                         "'cm/s^2'}), 'z': (2168587283, {'units': 'cm/s^2'})}, 'platform_track_angle': (1877.694227, "
                         "{'units': 'deg'}), 'platform_true_track_angle': (3244.7327219999997, {'units': 'deg'}), "
                         "'platform_attitude': {'pitch': (1776.116732, {'units': 'deg'}), 'roll': (902.273023, "
                         "{'units': 'deg'}), 'yaw': (145.149328, {'units': 'deg'})}, 'latitude_of_first_pixel': "
                         "(156.264103, {'units': 'deg'}), 'latitude_of_center_pixel': (1169.0218049999999, {'units': "
                         "'deg'}), 'latitude_of_last_pixel': (2284.9624799999997, {'units': 'deg'}), "
                         "'longitude_of_first_pixel': (4168.622356, {'units': 'deg'}), 'longitude_of_center_pixel': "
                         "(725.898837, {'units': 'deg'}), 'longitude_of_last_pixel': (1837.7386259999998, {'units': "
                         "'deg'}), 'burst_number': 3165498938, 'line_number_in_this_burst': 2507733573, 'blanks2': "
                         'b"5\\xa4\\x14\\xd0%\\xc2K@\\xae:\\xc1\'r)\\x88\\xba\\x97:\\xea\\x8d7\\x17\\x97\\x06\\x07.\\xd3:\\x14`z\\xd7R;\\xe6U{Q4\\xde\\xc1\\x96\\x81\\xf4\\xa13j\\xa2\\x14\\r\\x05\\x97\\xa3\\xe6\\xc8\\xa0\\xcc  '
                         '\\xa2", \'alos2_frame_number\': 3912859758, \'palsar_auxiliary_data\': '
                         "b'\\xf0\\xb6\\x84]j\\x9de~\\xb8)\\x8f-\\xe5.\\xadt\\xc7\\x9d\\x15\\xa7_\\xa2\\x9b}\\xab3/}p\\n|\\xcd%\\x89$&\\x0b\\x05\\x94\\xb7\\xfc\\xf0N3\\xa7\\'X[LH\\xa3\\x9c6\\x96@iH\\x10\\xa1i[\\x99\\xddP\\x18~\\x81 "
                         '\\xe4\\xdc\\x80\\xe0\\xe8\\x05\\xca\\xadW\\x84\\xf8\\x0c\\xd5\\t\\x1f\\xb5F@F\\x84\\x8d\\xcb\\xcdX-w\\xf8\\x03Z\\xa2\\xe0sz\\xa0\\xfd\\xf5s\\xd3\\xac\\x8cp\\x18$\\xbcQh\\x9f\\x98\\x99\\xbeT\\xed+?\\xc1ZO\\x80\\xdao\\x1a\\xfd\\xc9\\xb2\\xc4T\\x14.\\x823\\x88*G)\\xe3{\\xc3\\xdd\\xcbT\\xa6\\xe0@\\xf9l=\\xdc\\xd1<\\x97\\x8e\\x7f\\xc1\\x02a\\xe0\\n\\x0f|\\x85iX\\x91Kf\\x8b\\x9f\\x80\\xe4V\\xb6\\xfb\\xd7>j\\xc4h\\x917\\x0c<\\x06\\x97E&\\xbf\\x9f\\xdf\\xb6\\xa5\\x00?\\xe2\\xe6\\xb3\\x9c\\xcc\\xad\\xfc9\\xc1\\xc3h\\x01\\x8ee\\xec\\xd1\\x9cW\\xe6e\\xb8\\x01\\xc7\\xda\\xcf\\xac"\\xfc~\\x94\\n\\xd0O\\xcb\\x8a[%\\x05\\xb2\\x87\\xd2\\x9bM\\xec\\x84\\xf8V\\xef\\x17\\x8a2\\xd8#\\xb5"\\xe2\', '
                         "'data': {'start': 544, 'size': 16, 'stop': 560}}",
 'signal/stream/offset': ('sha256:19c7e8b057409605f2bf00be61869a1ff37ba308ce8929db4c2e1ca94eab834b (3916 chars)', 893),
 'signal/positions': (0, {'start': 544, 'size': 16, 'stop': 560}),
 'signal/container-keys': ['_io',
                           'record_start',
                           'preamble',
                           'sar_image_data_line_number',
                           'sar_image_data_record_index',
                           'actual_count_of_left_fill_pixels',
                           'actual_count_of_data_pixels',
                           'actual_count_of_right_fill_pixels',
                           'sensor_parameters_update_flag',
                           'sensor_acquisition_date',
                           'sar_channel_id',
                           'sar_channel_code',
                           'transmitted_pulse_polarization',
                           'received_pulse_polarization',
                           'prf',
                           'scan_id',
                           'onboard_range_compressed_flag',
                           'chirp_type_designator',
                           'chirp_length',
                           'chirp_constant_coefficient',
                           'chirp_linear_coefficient',
                           'chirp_quadratic_coefficient',
                           'sensor_acquisition_date_microseconds',
                           'receiver_gain',
                           'invalid_line_flag',
                           'elevation_angle_at_nadir_of_antenna',
                           'antenna_squint_angle',
                           'slant_range_to_first_data_sample',
                           'data_record_window_position',
                           'blanks1',
                           'platform_position_parameters_update_flag',
                           'platform_latitude',
                           'platform_longitude',
                           'platform_altitude',
                           'platform_ground_speed',
                           'platform_velocity',
                           'platform_acceleration',
                           'platform_track_angle',
                           'platform_true_track_angle',
                           'platform_attitude',
                           'latitude_of_first_pixel',
                           'latitude_of_center_pixel',
                           'latitude_of_last_pixel',
                           'longitude_of_first_pixel',
                           'longitude_of_center_pixel',
                           'longitude_of_last_pixel',
                           'burst_number',
                           'line_number_in_this_burst',
                           'blanks2',
                           'alos2_frame_number',
                           'palsar_auxiliary_data',
                           'data'],
 'signal/stream/io-log': 'sha256:64fd2c7a01c4b11a99550cc3a375d920793966a005f0b1061e74fefcb59ecaad (1420 chars)',
 'signal/stream/io-log-tail': [('read', 4, 220, 4),
                               ('read', 60, 224, 60),
                               ('read', 4, 284, 4),
                               ('read', 256, 288, 256),
                               ('tell',),
                               ('seek', 560, 0)],
 'signal/array/1/8': 'sha256:d5ae9a4f5d127c95576bbd66359b0f252f27d5983e1fa14439a42bfc89008fa6 (3930 chars)',
 'signal/chunk/1/8': 'sha256:d5ae9a4f5d127c95576bbd66359b0f252f27d5983e1fa14439a42bfc89008fa6 (3930 chars)',
 'signal/chunk/1/8/positions': 'builtins.list: [(0, 544, 8, 552)]',
 'signal/chunk-mismatch/1/8': 'raised builtins.ValueError: sizes mismatch: chunksize is 552 but got 553 bytes',
 'signal/array-short/1/8': 'raised construct.core.StreamError: Error in path (parsing) -> preamble -> '
                           'record_sequence_number\n'
                           'stream read less than specified amount, expected 4, found 0',
 'signal/array/3/0': 'sha256:2e962f07e2f174d8b12e268ebce50829e16c3e47a27536ab049514614996cd0c (11669 chars)',
 'signal/chunk/3/0': 'sha256:2e962f07e2f174d8b12e268ebce50829e16c3e47a27536ab049514614996cd0c (11669 chars)',
 'signal/chunk/3/0/positions': 'builtins.list: [(0, 544, 0, 544), (544, 1088, 0, 1088), (1088, 1632, 0, 1632)]',
 'signal/chunk-mismatch/3/0': 'raised builtins.ValueError: sizes mismatch: chunksize is 1632 but got 1633 bytes',
 'signal/array-short/3/0': 'raised construct.core.StreamError: Error in path (parsing) -> preamble -> '
                           'record_sequence_number\n'
                           'stream read less than specified amount, expected 4, found 0',
 'signal/array/4/24': 'sha256:bf776800fa0f591ddf19444bed8638bb9b667f55d8a34458b7bbaffdadfd449d (15527 chars)',
 'signal/chunk/4/24': 'sha256:bf776800fa0f591ddf19444bed8638bb9b667f55d8a34458b7bbaffdadfd449d (15527 chars)',
 'signal/chunk/4/24/positions': 'builtins.list: [(0, 544, 24, 568), (568, 1112, 24, 1136), (1136, 1680, 24, 1704), '
                                '(1704, 2248, 24, 2272)]',
 'signal/chunk-mismatch/4/24': 'raised builtins.ValueError: sizes mismatch: chunksize is 2272 but got 2273 bytes',
 'signal/array-short/4/24': 'raised construct.core.StreamError: Error in path (parsing) -> preamble -> '
                            'record_sequence_number\n'
                            'stream read less than specified amount, expected 4, found 0',
 'signal/file/5/16/2/header': 'sha256:20d42012a5e92942d013f1eb21bad23d014682d8dd8bfe32f6f352bf6f7bccf5 (3639 chars)',
 'signal/file/5/16/2/records': 'sha256:33f41430e2b7cc88a4f0ddce5fb780cc17c0a3c4ec7690ffc25efe4c81d30fcf (22805 chars)',
 'signal/file/5/16/2/types': ('dict', 'list', 5),
 'signal/file/5/16/2/positions': [(720, {'start': 1264, 'size': 16, 'stop': 1280}),
                                  (1280, {'start': 1824, 'size': 16, 'stop': 1840}),
                                  (1840, {'start': 2384, 'size': 16, 'stop': 2400}),
                                  (2400, {'start': 2944, 'size': 16, 'stop': 2960}),
                                  (2960, {'start': 3504, 'size': 16, 'stop': 3520})],
 'signal/file/5/16/2/io-log': [('read', 720, 0, 720),
                               ('read', 1120, 720, 1120),
                               ('read', 1120, 1840, 1120),
                               ('read', 560, 2960, 560)],
 'signal/file/5/16/2/group': 'sha256:c0f2dbc1548e087be0f77f053ab30b2824a77b13d04f59ca14b4492e819a9e08 (14518 chars)',
 'signal/file/5/16/2/group-attrs': {'sar_image_data_record_index': 2688188582,
                                    'sensor_parameters_update_flag': 3964693499,
                                    'sar_channel_id': 'dual_polarization',
                                    'sar_channel_code': 'KU',
                                    'transmitted_pulse_polarization': 'horizontal',
                                    'received_pulse_polarization': 'horizontal',
                                    'scan_id': 3828864097,
                                    'onboard_range_compressed_flag': True,
                                    'chirp_type_designator': 62843,
                                    'platform_position_parameters_update_flag': 4145109398,
                                    'interleaving_id': 'BSQ',
                                    'valid_range': [0, 65535],
                                    'number_of_burst_data': 3,
                                    'coordinates': ['rows',
                                                    'sensor_acquisition_date',
                                                    'prf',
                                                    'chirp_length',
                                                    'chirp_constant_coefficient',
                                                    'chirp_linear_coefficient',
                                                    'chirp_quadratic_coefficient',
                                                    'sensor_acquisition_date_microseconds',
                                                    'receiver_gain',
                                                    'invalid_line_flag',
                                                    'elevation_angle_at_nadir_of_antenna',
                                                    'antenna_squint_angle',
                                                    'slant_range_to_first_data_sample',
                                                    'data_record_window_position',
                                                    'platform_latitude',
                                                    'platform_longitude',
                                                    'platform_altitude',
                                                    'platform_ground_speed',
                                                    'platform_velocity',
                                                    'platform_acceleration',
                                                    'platform_track_angle',
                                                    'platform_true_track_angle',
                                                    'platform_attitude',
                                                    'latitude_of_first_pixel',
                                                    'latitude_of_center_pixel',
                                                    'latitude_of_last_pixel',
                                                    'longitude_of_first_pixel',
                                                    'longitude_of_center_pixel',
                                                    'longitude_of_last_pixel',
                                                    'burst_number',
                                                    'line_number_in_this_burst']},
 'signal/file/5/16/2/group-variables': {'rows': (['rows'], {}),
                                        'sensor_acquisition_date': (['rows'], {}),
                                        'prf': (['rows'], {'units': 'mHz'}),
                                        'chirp_length': (['rows'], {'units': 'ns'}),
                                        'chirp_constant_coefficient': (['rows'], {'units': 'Hz'}),
                                        'chirp_linear_coefficient': (['rows'], {'units': 'Hz/µs'}),
                                        'chirp_quadratic_coefficient': (['rows'], {'units': 'Hz/µs^2'}),
                                        'sensor_acquisition_date_microseconds': (['rows'], {}),
                                        'receiver_gain': (['rows'], {'units': 'dB'}),
                                        'invalid_line_flag': (['rows'], {}),
                                        'elevation_angle_at_nadir_of_antenna': (['rows'], {}),
                                        'antenna_squint_angle': (['rows'], {}),
                                        'slant_range_to_first_data_sample': (['rows'], {'units': 'm'}),
                                        'data_record_window_position': (['rows'], {'units': 'ns'}),
                                        'platform_latitude': (['rows'], {'units': 'deg'}),
                                        'platform_longitude': (['rows'], {'units': 'deg'}),
                                        'platform_altitude': (['rows'], {'units': 'deg'}),
                                        'platform_ground_speed': (['rows'], {'units': 'cm/s'}),
                                        'platform_velocity': (['rows'], {}),
                                        'platform_acceleration': (['rows'], {}),
                                        'platform_track_angle': (['rows'], {'units': 'deg'}),
                                        'platform_true_track_angle': (['rows'], {'units': 'deg'}),
                                        'platform_attitude': (['rows'], {}),
                                        'latitude_of_first_pixel': (['rows'], {'units': 'deg'}),
                                        'latitude_of_center_pixel': (['rows'], {'units': 'deg'}),
                                        'latitude_of_last_pixel': (['rows'], {'units': 'deg'}),
                                        'longitude_of_first_pixel': (['rows'], {'units': 'deg'}),
                                        'longitude_of_center_pixel': (['rows'], {'units': 'deg'}),
                                        'longitude_of_last_pixel': (['rows'], {'units': 'deg'}),
                                        'burst_number': (['rows'], {}),
                                        'line_number_in_this_burst': (['rows'], {})},
 'signal/file/5/16/2/array-metadata': {'type_code': 'C*8',
                                       'shape': (5, 7),
                                       'dtype': 'complex64',
                                       'byte_ranges': [(1264, 1280),
                                                       (1824, 1840),
                                                       (2384, 2400),
                                                       (2944, 2960),
                                                       (3504, 3520)]},
 'signal/file/4/8/4/header': 'sha256:7a9e290fe13d241cbbf43f1007a4fd30166ef65e3de2aeaad660aa45ee0dacad (3639 chars)',
 'signal/file/4/8/4/records': 'sha256:2bec8afa48211be216f29ffdcb8c0edba1fb1c76293790a1797dfb77cf97936c (18256 chars)',
 'signal/file/4/8/4/types': ('dict', 'list', 4),
 'signal/file/4/8/4/positions': [(720, {'start': 1264, 'size': 8, 'stop': 1272}),
                                 (1272, {'start': 1816, 'size': 8, 'stop': 1824}),
                                 (1824, {'start': 2368, 'size': 8, 'stop': 2376}),
                                 (2376, {'start': 2920, 'size': 8, 'stop': 2928})],
 'signal/file/4/8/4/io-log': [('read', 720, 0, 720), ('read', 2208, 720, 2208)],
 'signal/file/4/8/4/group': 'sha256:39b71c676593702b5167521b57d33acc9b258ccb9dda5935b7434aeb10ff6afa (12233 chars)',
 'signal/file/4/8/4/group-attrs': {'sar_image_data_record_index': 2688188582,
                                   'sensor_parameters_update_flag': 3964693499,
                                   'sar_channel_id': 'dual_polarization',
                                   'sar_channel_code': 'KU',
                                   'transmitted_pulse_polarization': 'horizontal',
                                   'received_pulse_polarization': 'horizontal',
                                   'scan_id': 3828864097,
                                   'onboard_range_compressed_flag': True,
                                   'chirp_type_designator': 62843,
                                   'platform_position_parameters_update_flag': 4145109398,
                                   'interleaving_id': 'BSQ',
                                   'valid_range': [0, 65535],
                                   'number_of_burst_data': 3,
                                   'coordinates': ['rows',
                                                   'sensor_acquisition_date',
                                                   'prf',
                                                   'chirp_length',
                                                   'chirp_constant_coefficient',
                                                   'chirp_linear_coefficient',
                                                   'chirp_quadratic_coefficient',
                                                   'sensor_acquisition_date_microseconds',
                                                   'receiver_gain',
                                                   'invalid_line_flag',
                                                   'elevation_angle_at_nadir_of_antenna',
                                                   'antenna_squint_angle',
                                                   'slant_range_to_first_data_sample',
                                                   'data_record_window_position',
                                                   'platform_latitude',
                                                   'platform_longitude',
                                                   'platform_altitude',
                                                   'platform_ground_speed',
                                                   'platform_velocity',
                                                   'platform_acceleration',
                                                   'platform_track_angle',
                                                   'platform_true_track_angle',
                                                   'platform_attitude',
                                                   'latitude_of_first_pixel',
                                                   'latitude_of_center_pixel',
                                                   'latitude_of_last_pixel',
                                                   'longitude_of_first_pixel',
                                                   'longitude_of_center_pixel',
                                                   'longitude_of_last_pixel',
                                                   'burst_number',
                                                   'line_number_in_this_burst']},
 'signal/file/4/8/4/group-variables': {'rows': (['rows'], {}),
                                       'sensor_acquisition_date': (['rows'], {}),
                                       'prf': (['rows'], {'units': 'mHz'}),
                                       'chirp_length': (['rows'], {'units': 'ns'}),
                                       'chirp_constant_coefficient': (['rows'], {'units': 'Hz'}),
                                       'chirp_linear_coefficient': (['rows'], {'units': 'Hz/µs'}),
                                       'chirp_quadratic_coefficient': (['rows'], {'units': 'Hz/µs^2'}),
                                       'sensor_acquisition_date_microseconds': (['rows'], {}),
                                       'receiver_gain': (['rows'], {'units': 'dB'}),
                                       'invalid_line_flag': (['rows'], {}),
                                       'elevation_angle_at_nadir_of_antenna': (['rows'], {}),
                                       'antenna_squint_angle': (['rows'], {}),
                                       'slant_range_to_first_data_sample': (['rows'], {'units': 'm'}),
                                       'data_record_window_position': (['rows'], {'units': 'ns'}),
                                       'platform_latitude': (['rows'], {'units': 'deg'}),
                                       'platform_longitude': (['rows'], {'units': 'deg'}),
                                       'platform_altitude': (['rows'], {'units': 'deg'}),
                                       'platform_ground_speed': (['rows'], {'units': 'cm/s'}),
                                       'platform_velocity': (['rows'], {}),
                                       'platform_acceleration': (['rows'], {}),
                                       'platform_track_angle': (['rows'], {'units': 'deg'}),
                                       'platform_true_track_angle': (['rows'], {'units': 'deg'}),
                                       'platform_attitude': (['rows'], {}),
                                       'latitude_of_first_pixel': (['rows'], {'units': 'deg'}),
                                       'latitude_of_center_pixel': (['rows'], {'units': 'deg'}),
                                       'latitude_of_last_pixel': (['rows'], {'units': 'deg'}),
                                       'longitude_of_first_pixel': (['rows'], {'units': 'deg'}),
                                       'longitude_of_center_pixel': (['rows'], {'units': 'deg'}),
                                       'longitude_of_last_pixel': (['rows'], {'units': 'deg'}),
                                       'burst_number': (['rows'], {}),
                                       'line_number_in_this_burst': (['rows'], {})},
 'signal/file/4/8/4/array-metadata': {'type_code': 'C*8',
                                      'shape': (4, 7),
                                      'dtype': 'complex64',
                                      'byte_ranges': [(1264, 1272), (1816, 1824), (2368, 2376), (2920, 2928)]},
 'signal/file/3/8/1024/header': 'sha256:2dc5b95a1cd470425eff2b969699bf6c62e858c7c31d834b2ce2638454eeabaa (3639 chars)',
 'signal/file/3/8/1024/records': 'sha256:1a871a0f3aadcf76c97e04fe91e0fc29a489888a4f7251e4176a266534b2516e (13683 '
                                 'chars)',
 'signal/file/3/8/1024/types': ('dict', 'list', 3),
 'signal/file/3/8/1024/positions': [(720, {'start': 1264, 'size': 8, 'stop': 1272}),
                                    (1272, {'start': 1816, 'size': 8, 'stop': 1824}),
                                    (1824, {'start': 2368, 'size': 8, 'stop': 2376})],
 'signal/file/3/8/1024/io-log': [('read', 720, 0, 720), ('read', 1656, 720, 1656)],
 'signal/file/3/8/1024/group': 'sha256:5ec91dd4ba771c0f75a24b02e88c958fb3cd24e9e31115d48bcc205dae157c61 (9431 chars)',
 'signal/file/3/8/1024/group-attrs': {'sar_image_data_record_index': 2688188582,
                                      'sensor_parameters_update_flag': 3964693499,
                                      'sar_channel_id': 'dual_polarization',
                                      'sar_channel_code': 'KU',
                                      'transmitted_pulse_polarization': 'horizontal',
                                      'received_pulse_polarization': 'horizontal',
                                      'scan_id': 3828864097,
                                      'onboard_range_compressed_flag': True,
                                      'chirp_type_designator': 62843,
                                      'platform_position_parameters_update_flag': 4145109398,
                                      'interleaving_id': 'BSQ',
                                      'valid_range': [0, 65535],
                                      'number_of_burst_data': 3,
                                      'coordinates': ['rows',
                                                      'sensor_acquisition_date',
                                                      'prf',
                                                      'chirp_length',
                                                      'chirp_constant_coefficient',
                                                      'chirp_linear_coefficient',
                                                      'chirp_quadratic_coefficient',
                                                      'sensor_acquisition_date_microseconds',
                                                      'receiver_gain',
                                                      'invalid_line_flag',
                                                      'elevation_angle_at_nadir_of_antenna',
                                                      'antenna_squint_angle',
                                                      'slant_range_to_first_data_sample',
                                                      'data_record_window_position',
                                                      'platform_latitude',
                                                      'platform_longitude',
                                                      'platform_altitude',
                                                      'platform_ground_speed',
                                                      'platform_velocity',
                                                      'platform_acceleration',
                                                      'platform_track_angle',
                                                      'platform_true_track_angle',
                                                      'platform_attitude',
                                                      'latitude_of_first_pixel',
                                                      'latitude_of_center_pixel',
                                                      'latitude_of_last_pixel',
                                                      'longitude_of_first_pixel',
                                                      'longitude_of_center_pixel',
                                                      'longitude_of_last_pixel',
                                                      'burst_number',
                                                      'line_number_in_this_burst']},
 'signal/file/3/8/1024/group-variables': {'rows': (['rows'], {}),
                                          'sensor_acquisition_date': (['rows'], {}),
                                          'prf': (['rows'], {'units': 'mHz'}),
                                          'chirp_length': (['rows'], {'units': 'ns'}),
                                          'chirp_constant_coefficient': (['rows'], {'units': 'Hz'}),
                                          'chirp_linear_coefficient': (['rows'], {'units': 'Hz/µs'}),
                                          'chirp_quadratic_coefficient': (['rows'], {'units': 'Hz/µs^2'}),
                                          'sensor_acquisition_date_microseconds': (['rows'], {}),
                                          'receiver_gain': (['rows'], {'units': 'dB'}),
                                          'invalid_line_flag': (['rows'], {}),
                                          'elevation_angle_at_nadir_of_antenna': (['rows'], {}),
                                          'antenna_squint_angle': (['rows'], {}),
                                          'slant_range_to_first_data_sample': (['rows'], {'units': 'm'}),
                                          'data_record_window_position': (['rows'], {'units': 'ns'}),
                                          'platform_latitude': (['rows'], {'units': 'deg'}),
                                          'platform_longitude': (['rows'], {'units': 'deg'}),
                                          'platform_altitude': (['rows'], {'units': 'deg'}),
                                          'platform_ground_speed': (['rows'], {'units': 'cm/s'}),
                                          'platform_velocity': (['rows'], {}),
                                          'platform_acceleration': (['rows'], {}),
                                          'platform_track_angle': (['rows'], {'units': 'deg'}),
                                          'platform_true_track_angle': (['rows'], {'units': 'deg'}),
                                          'platform_attitude': (['rows'], {}),
                                          'latitude_of_first_pixel': (['rows'], {'units': 'deg'}),
                                          'latitude_of_center_pixel': (['rows'], {'units': 'deg'}),
                                          'latitude_of_last_pixel': (['rows'], {'units': 'deg'}),
                                          'longitude_of_first_pixel': (['rows'], {'units': 'deg'}),
                                          'longitude_of_center_pixel': (['rows'], {'units': 'deg'}),
                                          'longitude_of_last_pixel': (['rows'], {'units': 'deg'}),
                                          'burst_number': (['rows'], {}),
                                          'line_number_in_this_burst': (['rows'], {})},
 'signal/file/3/8/1024/array-metadata': {'type_code': 'C*8',
                                         'shape': (3, 7),
                                         'dtype': 'complex64',
                                         'byte_ranges': [(1264, 1272), (1816, 1824), (2368, 2376)]},
 'signal/file/1/0/1/header': 'sha256:67105871a8e79c1f042d9e028aa691a4f1cb761e48be19cc552f702936549267 (3639 chars)',
 'signal/file/1/0/1/records': 'sha256:0891a09f3f44662066803ff115fe63aedf917d46e349cbdf07a08c98e6f75f81 (4555 chars)',
 'signal/file/1/0/1/types': ('dict', 'list', 1),
 'signal/file/1/0/1/positions': [(720, {'start': 1264, 'size': 0, 'stop': 1264})],
 'signal/file/1/0/1/io-log': [('read', 720, 0, 720), ('read', 544, 720, 544)],
 'signal/file/1/0/1/group': 'sha256:de23da7fdb2f58315f404f47a0378c0737ddd8a656f0a98a538b8fbf1eee7977 (6048 chars)',
 'signal/file/1/0/1/group-attrs': {'sar_image_data_record_index': 2688188582,
                                   'sensor_parameters_update_flag': 3964693499,
                                   'sar_channel_id': 'dual_polarization',
                                   'sar_channel_code': 'KU',
                                   'transmitted_pulse_polarization': 'horizontal',
                                   'received_pulse_polarization': 'horizontal',
                                   'scan_id': 3828864097,
                                   'onboard_range_compressed_flag': True,
                                   'chirp_type_designator': 62843,
                                   'platform_position_parameters_update_flag': 4145109398,
                                   'interleaving_id': 'BSQ',
                                   'valid_range': [0, 65535],
                                   'number_of_burst_data': 3,
                                   'coordinates': ['rows',
                                                   'sensor_acquisition_date',
                                                   'prf',
                                                   'chirp_length',
                                                   'chirp_constant_coefficient',
                                                   'chirp_linear_coefficient',
                                                   'chirp_quadratic_coefficient',
                                                   'sensor_acquisition_date_microseconds',
                                                   'receiver_gain',
                                                   'invalid_line_flag',
                                                   'elevation_angle_at_nadir_of_antenna',
                                                   'antenna_squint_angle',
                                                   'slant_range_to_first_data_sample',
                                                   'data_record_window_position',
                                                   'platform_latitude',
                                                   'platform_longitude',
                                                   'platform_altitude',
                                                   'platform_ground_speed',
                                                   'platform_velocity',
                                                   'platform_acceleration',
                                                   'platform_track_angle',
                                                   'platform_true_track_angle',
                                                   'platform_attitude',
                                                   'latitude_of_first_pixel',
                                                   'latitude_of_center_pixel',
                                                   'latitude_of_last_pixel',
                                                   'longitude_of_first_pixel',
                                                   'longitude_of_center_pixel',
                                                   'longitude_of_last_pixel',
                                                   'burst_number',
                                                   'line_number_in_this_burst']},
 'signal/file/1/0/1/group-variables': {'rows': (['rows'], {}),
                                       'sensor_acquisition_date': (['rows'], {}),
                                       'prf': (['rows'], {'units': 'mHz'}),
                                       'chirp_length': (['rows'], {'units': 'ns'}),
                                       'chirp_constant_coefficient': (['rows'], {'units': 'Hz'}),
                                       'chirp_linear_coefficient': (['rows'], {'units': 'Hz/µs'}),
                                       'chirp_quadratic_coefficient': (['rows'], {'units': 'Hz/µs^2'}),
                                       'sensor_acquisition_date_microseconds': (['rows'], {}),
                                       'receiver_gain': (['rows'], {'units': 'dB'}),
                                       'invalid_line_flag': (['rows'], {}),
                                       'elevation_angle_at_nadir_of_antenna': (['rows'], {}),
                                       'antenna_squint_angle': (['rows'], {}),
                                       'slant_range_to_first_data_sample': (['rows'], {'units': 'm'}),
                                       'data_record_window_position': (['rows'], {'units': 'ns'}),
                                       'platform_latitude': (['rows'], {'units': 'deg'}),
                                       'platform_longitude': (['rows'], {'units': 'deg'}),
                                       'platform_altitude': (['rows'], {'units': 'deg'}),
                                       'platform_ground_speed': (['rows'], {'units': 'cm/s'}),
                                       'platform_velocity': (['rows'], {}),
                                       'platform_acceleration': (['rows'], {}),
                                       'platform_track_angle': (['rows'], {'units': 'deg'}),
                                       'platform_true_track_angle': (['rows'], {'units': 'deg'}),
                                       'platform_attitude': (['rows'], {}),
                                       'latitude_of_first_pixel': (['rows'], {'units': 'deg'}),
                                       'latitude_of_center_pixel': (['rows'], {'units': 'deg'}),
                                       'latitude_of_last_pixel': (['rows'], {'units': 'deg'}),
                                       'longitude_of_first_pixel': (['rows'], {'units': 'deg'}),
                                       'longitude_of_center_pixel': (['rows'], {'units': 'deg'}),
                                       'longitude_of_last_pixel': (['rows'], {'units': 'deg'}),
                                       'burst_number': (['rows'], {}),
                                       'line_number_in_this_burst': (['rows'], {})},
 'signal/file/1/0/1/array-metadata': {'type_code': 'C*8',
                                      'shape': (1, 7),
                                      'dtype': 'complex64',
                                      'byte_ranges': [(1264, 1264)]},
 'signal/file/6/12/4/header': 'sha256:666a073b6002d2f6daf4344987c1fa39d51b4e481b5f9f6e50190c37115f5b08 (3639 chars)',
 'signal/file/6/12/4/records': 'sha256:276b121f6683b910000604714e5d47ead3a49230ae61a47c262a5d08b3457f80 (27415 chars)',
 'signal/file/6/12/4/types': ('dict', 'list', 6),
 'signal/file/6/12/4/positions': [(720, {'start': 1264, 'size': 12, 'stop': 1276}),
                                  (1276, {'start': 1820, 'size': 12, 'stop': 1832}),
                                  (1832, {'start': 2376, 'size': 12, 'stop': 2388}),
                                  (2388, {'start': 2932, 'size': 12, 'stop': 2944}),
                                  (2944, {'start': 3488, 'size': 12, 'stop': 3500}),
                                  (3500, {'start': 4044, 'size': 12, 'stop': 4056})],
 'signal/file/6/12/4/io-log': [('read', 720, 0, 720), ('read', 2224, 720, 2224), ('read', 1112, 2944, 1112)],
 'signal/file/6/12/4/group': 'sha256:d595bcebd0438445019032f2482a791253652c449f6be0d6af9b98b6ded038e0 (18053 chars)',
 'signal/file/6/12/4/group-attrs': {'sar_image_data_record_index': 2688188582,
                                    'sensor_parameters_update_flag': 3964693499,
                                    'sar_channel_id': 'dual_polarization',
                                    'sar_channel_code': 'KU',
                                    'transmitted_pulse_polarization': 'horizontal',
                                    'received_pulse_polarization': 'horizontal',
                                    'scan_id': 3828864097,
                                    'onboard_range_compressed_flag': True,
                                    'chirp_type_designator': 62843,
                                    'platform_position_parameters_update_flag': 4145109398,
                                    'interleaving_id': 'BSQ',
                                    'valid_range': [0, 65535],
                                    'number_of_burst_data': 3,
                                    'coordinates': ['rows',
                                                    'sensor_acquisition_date',
                                                    'prf',
                                                    'chirp_length',
                                                    'chirp_constant_coefficient',
                                                    'chirp_linear_coefficient',
                                                    'chirp_quadratic_coefficient',
                                                    'sensor_acquisition_date_microseconds',
                                                    'receiver_gain',
                                                    'invalid_line_flag',
                                                    'elevation_angle_at_nadir_of_antenna',
                                                    'antenna_squint_angle',
                                                    'slant_range_to_first_data_sample',
                                                    'data_record_window_position',
                                                    'platform_latitude',
                                                    'platform_longitude',
                                                    'platform_altitude',
                                                    'platform_ground_speed',
                                                    'platform_velocity',
                                                    'platform_acceleration',
                                                    'platform_track_angle',
                                                    'platform_true_track_angle',
                                                    'platform_attitude',
                                                    'latitude_of_first_pixel',
                                                    'latitude_of_center_pixel',
                                                    'latitude_of_last_pixel',
                                                    'longitude_of_first_pixel',
                                                    'longitude_of_center_pixel',
                                                    'longitude_of_last_pixel',
                                                    'burst_number',
                                                    'line_number_in_this_burst']},
 'signal/file/6/12/4/group-variables': {'rows': (['rows'], {}),
                                        'sensor_acquisition_date': (['rows'], {}),
                                        'prf': (['rows'], {'units': 'mHz'}),
                                        'chirp_length': (['rows'], {'units': 'ns'}),
                                        'chirp_constant_coefficient': (['rows'], {'units': 'Hz'}),
                                        'chirp_linear_coefficient': (['rows'], {'units': 'Hz/µs'}),
                                        'chirp_quadratic_coefficient': (['rows'], {'units': 'Hz/µs^2'}),
                                        'sensor_acquisition_date_microseconds': (['rows'], {}),
                                        'receiver_gain': (['rows'], {'units': 'dB'}),
                                        'invalid_line_flag': (['rows'], {}),
                                        'elevation_angle_at_nadir_of_antenna': (['rows'], {}),
                                        'antenna_squint_angle': (['rows'], {}),
                                        'slant_range_to_first_data_sample': (['rows'], {'units': 'm'}),
                                        'data_record_window_position': (['rows'], {'units': 'ns'}),
                                        'platform_latitude': (['rows'], {'units': 'deg'}),
                                        'platform_longitude': (['rows'], {'units': 'deg'}),
                                        'platform_altitude': (['rows'], {'units': 'deg'}),
                                        'platform_ground_speed': (['rows'], {'units': 'cm/s'}),
                                        'platform_velocity': (['rows'], {}),
                                        'platform_acceleration': (['rows'], {}),
                                        'platform_track_angle': (['rows'], {'units': 'deg'}),
                                        'platform_true_track_angle': (['rows'], {'units': 'deg'}),
                                        'platform_attitude': (['rows'], {}),
                                        'latitude_of_first_pixel': (['rows'], {'units': 'deg'}),
                                        'latitude_of_center_pixel': (['rows'], {'units': 'deg'}),
                                        'latitude_of_last_pixel': (['rows'], {'units': 'deg'}),
                                        'longitude_of_first_pixel': (['rows'], {'units': 'deg'}),
                                        'longitude_of_center_pixel': (['rows'], {'units': 'deg'}),
                                        'longitude_of_last_pixel': (['rows'], {'units': 'deg'}),
                                        'burst_number': (['rows'], {}),
                                        'line_number_in_this_burst': (['rows'], {})},
 'signal/file/6/12/4/array-metadata': {'type_code': 'C*8',
                                       'shape': (6, 7),
                                       'dtype': 'complex64',
                                       'byte_ranges': [(1264, 1276),
                                                       (1820, 1832),
                                                       (2376, 2388),
                                                       (2932, 2944),
                                                       (3488, 3500),
                                                       (4044, 4056)]},
 'signal/file/truncated': 'raised construct.core.StreamError: Error in path (parsing) -> record_sequence_number\n'
                          'stream read less than specified amount, expected 4, found 0',
 'processed/parse/plain': 'sha256:e2a6cece4952efeab2c7992eb0587cc38c9b938ef776b1b5b8c5228ddeb7a093 (2380 chars)',
 'processed/parse/plain/excerpt': ("builtins.dict: {'record_start': 0, 'preamble': {'record_sequence_number': 1, "
                                   "'first_record_subtype': 50, 'record_type': 11, 'second_record_subtype': 18, "
                                   "'third_record_subtype': 20, 'record_length': 208}, 'sar_image_data_line_number': "
                                   "3353149924, 'sar_image_data_record_index': 2289382562, "
                                   "'actual_count_of_left_fill_pixels': 252382468, 'actual_count_of_data_pixels': "
                                   "3278821390, 'actual_count_of_right_fill_pixels': 1910570359, "
                                   "'sensor_parameters_update_flag': 2960552171, 'sensor_acquisition_date': "
                                   "datetime.datetime(2020, 5, 29, 0, 0, 4, 321000), 'sar_channel_id': 65481, "
                                   "'sar_channel_code': 4597, ",
                                   "49, {'units': 'm'}), 'easting_of_first_pixel': (2168587283, {'units': 'm'}), "
                                   "'blanks3': b'o\\xebW\\x13', 'easting_of_last_pixel': (3244732722, {'units': 'm'}), "
                                   "'line_heading': (1776.116732, {'units': 'deg'}), 'blanks4': "
                                   "b'5\\xc7\\x97\\xff\\x08\\xa6\\xcd\\x90', 'data': {'start': 192, 'size': 16, "
                                   "'stop': 208}}"),
 'processed/parse-types/plain': 'sha256:f54c0c335d511c15d4b753beec7ae8d2e39b9dcea691206aad5365ed831c0e3d (2376 chars)',
 'processed/parse/no-payload': 'sha256:e9985bea5513f9925386685f1e14d5c3f032e7944b8f8de89dbfce8e24ff10e2 (2405 chars)',
 'processed/parse-types/no-payload': 'sha256:76c321cb4ed33f3c5d3c816ddca43ca4830606f9d950a2f216bbd8c032f7d714 (2412 '
                                     'chars)',
 'processed/parse/big-payload': 'sha256:3defacdfef3c253329002f2efd43c06b9f1935430bd7e0c79564e01be02426c5 (2393 chars)',
 'processed/parse-types/big-payload': 'sha256:0d712de9e50a10599ca696f8239a7dc683e7554d0091c75aff4f25c4d4a9066b (2392 '
                                      'chars)',
 'processed/parse/enum-hits-4': 'sha256:9a66bc371213c4b90eef9e74387e3563aee30d2c18de576a1719e6e249054854 (2407 chars)',
 'processed/parse-types/enum-hits-4': 'sha256:a38c9be1ece66be86fb48d27651696cf0ec629fb7a0784f5f2c22ddf748cc3ec (2412 '
                                      'chars)',
 'processed/parse/enum-hits-6': 'sha256:1ff829a90571cdb0c8c217c63ff42ab9041107d2de990ee509097a9c1608d283 (2391 chars)',
 'processed/parse-types/enum-hits-6': 'sha256:4ac89b2db3f20471ad41bc422642da0d90d8ce4e0da0325835d1e439996a6b10 (2398 '
                                      'chars)',
 'processed/parse/enum-hits-10': 'sha256:a98538eccb6c67699c9a063fe9d08b8c5d9a65f477747b9ac2d370a08223f7c9 (2425 chars)',
 'processed/parse-types/enum-hits-10': 'sha256:5269f5b784f5b88d4caaccf7df6aa2a05a66713152756dd022468d7f0b07d9aa (2429 '
                                       'chars)',
 'processed/parse/short-record-length': 'sha256:a6339859ae55b682f20f179a32374d7d911d68bcf097e011be32066a2f58ee63 (2376 '
                                        'chars)',
 'processed/parse/short-record-length/excerpt': ("builtins.dict: {'record_start': 0, 'preamble': "
                                                 "{'record_sequence_number': 1, 'first_record_subtype': 50, "
                                                 "'record_type': 11, 'second_record_subtype': 18, "
                                                 "'third_record_subtype': 20, 'record_length': 100}, "
                                                 "'sar_image_data_line_number': 880739950, "
                                                 "'sar_image_data_record_index': 3499056583, "
                                                 "'actual_count_of_left_fill_pixels': 1361332195, "
                                                 "'actual_count_of_data_pixels': 1078132738, "
                                                 "'actual_count_of_right_fill_pixels': 1802392661, "
                                                 "'sensor_parameters_update_flag': 2493539688, "
                                                 "'sensor_acquisition_date': datetime.datetime(2020, 5, 29, 0, 0, 4, "
                                                 "321000), 'sar_channel_id': 39425, 'sar_channel_code': 44321,",
                                                 "{'units': 'm'}), 'easting_of_first_pixel': (3985880754, {'units': "
                                                 "'m'}), 'blanks3': b'\\x8c\\xb0\\xd1\\xb3', 'easting_of_last_pixel': "
                                                 "(1491516075, {'units': 'm'}), 'line_heading': (1213.556153, "
                                                 "{'units': 'deg'}), 'blanks4': b'\\xf4\\x90(\\xd5W\\xd7\\x9a\\x8a', "
                                                 "'data': {'start': 192, 'size': -92, 'stop': 100}}"),
 'processed/parse-types/short-record-length': 'sha256:8b27114e0f1478ae6807036c635d7c95c205a7c59ccf363af0cff50e080ddb64 '
                                              '(2273 chars)',
 'processed/parse/zero-record-length': 'sha256:bdfc20a2cfea243e44e895d24c9f2dfeff9a355931e5404969704fda61e8584f (2373 '
                                       'chars)',
 'processed/parse-types/zero-record-length': 'sha256:d0a5dfb5ebc40e768342c315922a4e21806f3d791c735cf86d09541129db8cef '
                                             '(2270 chars)',
 'processed/parse/long-record-length': 'sha256:f3ac28b6057f7dc36e210085b91ca769d0f78fe9b7e9ee6f8282817d66ff64f0 (2375 '
                                       'chars)',
 'processed/parse-types/long-record-length': 'sha256:e43adec92b2133d2701293d922b3c415a543347ef926250efaca8a2ae2bc2ede '
                                             '(2269 chars)',
 'processed/parse/max-record-length': 'sha256:0d99f8ca01321b25a744ac5b7611283cc9deeb9ffaf9ed062515451d4ce42808 (2385 '
                                      'chars)',
 'processed/parse-types/max-record-length': 'sha256:415e68a2655c3d087b2c5d297cfb371863a2fc347b54e054e617e64c0c140413 '
                                            '(2279 chars)',
 'processed/parse/year-zero': 'sha256:cba893db36859327b0e0f2158e5709a94c22eda4dbce3bcf584d843cc6cdea1c (50 chars)',
 'processed/parse/year-zero/excerpt': ('raised builtins.ValueError: year 0 is out of range',
                                       'raised builtins.ValueError: year 0 is out of range'),
 'processed/parse-types/year-zero': 'sha256:cba893db36859327b0e0f2158e5709a94c22eda4dbce3bcf584d843cc6cdea1c (50 '
                                    'chars)',
 'processed/parse/day-zero': 'sha256:f32a49c356084c8d5a4541f44ffa9f136785201aff6b7b4e36cb80f3a38099d2 (2410 chars)',
 'processed/parse-types/day-zero': 'sha256:6feb4dc1dc371dccfc1651215350d9e60758826b179190d500fd8c6a09aceaf9 (2415 '
                                   'chars)',
 'processed/parse/year-overflow': 'sha256:272b33628b9ce37e625463f927109b6e4e9e14f6d2b223674d6f0b964ba224b1 (54 chars)',
 'processed/parse-types/year-overflow': 'sha256:272b33628b9ce37e625463f927109b6e4e9e14f6d2b223674d6f0b964ba224b1 (54 '
                                        'chars)',
 'processed/parse/leap-day': 'sha256:12d4241bd0dcd12c73579e52f5309da7d0459ec7578b284919e3d04550f9151b (2349 chars)',
 'processed/parse-types/leap-day': 'sha256:24a5bc0188e9e1a0c3392002cb6c212d6a44d143eb8bba88ffffc54c2931a45a (2243 '
                                   'chars)',
 'processed/parse/all-zero-tail': 'sha256:182792ce1af12eec787b576ff256d6451742257afb065a411d1037bb3fe62ef7 (2038 '
                                  'chars)',
 'processed/parse-types/all-zero-tail': 'sha256:a33e8867ecc2b5229e56f5d91ac2e3a8259a0704265832906ceecf6a3475e518 (1910 '
                                        'chars)',
 'processed/parse/all-ones-tail': 'sha256:1eb2c491e11e90434d40e551781d45ec1e03cb040f975e20ad5aa7fed4627fc3 (2488 '
                                  'chars)',
 'processed/parse/all-ones-tail/excerpt': ("builtins.dict: {'record_start': 0, 'preamble': {'record_sequence_number': "
                                           "1, 'first_record_subtype': 50, 'record_type': 11, 'second_record_subtype': "
                                           "18, 'third_record_subtype': 20, 'record_length': 196}, "
                                           "'sar_image_data_line_number': 1256307795, 'sar_image_data_record_index': "
                                           "2909478502, 'actual_count_of_left_fill_pixels': 648859436, "
                                           "'actual_count_of_data_pixels': 153055790, "
                                           "'actual_count_of_right_fill_pixels': 3638770136, "
                                           "'sensor_parameters_update_flag': 1168134938, 'sensor_acquisition_date': "
                                           "datetime.datetime(2020, 5, 29, 0, 0, 4, 321000), 'sar_channel_id': "
                                           "'single_polarization', 'sar_channe",
                                           "m'}), 'easting_of_first_pixel': (4294967295, {'units': 'm'}), 'blanks3': "
                                           "b'\\xff\\xff\\xff\\xff', 'easting_of_last_pixel': (4294967295, {'units': "
                                           "'m'}), 'line_heading': (4294.9672949999995, {'units': 'deg'}), 'blanks4': "
                                           "b'\\xff\\xff\\xff\\xff\\xff\\xff\\xff\\xff', 'data': {'start': 192, "
                                           "'size': 4, 'stop': 196}}"),
 'processed/parse-types/all-ones-tail': 'sha256:f7cf0336c6e5c6693ee6b63edd1fff09e26b8894b5cc07da76802f04fd323d58 (2504 '
                                        'chars)',
 'processed/truncated/0': 'raised construct.core.StreamError: Error in path (parsing) -> preamble -> '
                          'record_sequence_number\n'
                          'stream read less than specified amount, expected 4, found 0',
 'processed/truncated/1': 'raised construct.core.StreamError: Error in path (parsing) -> preamble -> '
                          'record_sequence_number\n'
                          'stream read less than specified amount, expected 4, found 1',
 'processed/truncated/11': 'raised construct.core.StreamError: Error in path (parsing) -> preamble -> record_length\n'
                           'stream read less than specified amount, expected 4, found 3',
 'processed/truncated/12': 'raised construct.core.StreamError: Error in path (parsing) -> sar_image_data_line_number\n'
                           'stream read less than specified amount, expected 4, found 0',
 'processed/truncated/35': 'raised construct.core.StreamError: Error in path (parsing) -> '
                           'sensor_parameters_update_flag\n'
                           'stream read less than specified amount, expected 4, found 3',
 'processed/truncated/47': 'raised construct.core.StreamError: Error in path (parsing) -> sensor_acquisition_date -> '
                           'milliseconds\n'
                           'stream read less than specified amount, expected 4, found 3',
 'processed/truncated/48': 'raised construct.core.StreamError: Error in path (parsing) -> sar_channel_id\n'
                           'stream read less than specified amount, expected 2, found 0',
 'processed/truncated/60': 'raised construct.core.StreamError: Error in path (parsing) -> scan_id\n'
                           'stream read less than specified amount, expected 4, found 0',
 'processed/truncated/96': 'raised construct.core.StreamError: Error in path (parsing) -> '
                           'azimuth_fm_rate_of_last_pixel\n'
                           'stream read less than specified amount, expected 4, found 0',
 'processed/truncated/191': 'raised construct.core.StreamError: Error in path (parsing) -> blanks4\n'
                            'stream read less than specified amount, expected 8, found 7',
 'processed/truncated/192': "builtins.dict: {'record_start': 0, 'preamble': {'record_sequence_number': 1, "
                            "'first_record_subtype': 50, 'record_type': 11, 'second_record_subtype': 18, "
                            "'third_record_subtype': 20, 'record_length': 208}, 'sar_image_data_line_number': "
                            "3353149924, 'sar_image_data_record_index': 2289382562, "
                            "'actual_count_of_left_fill_pixels': 252382468, 'actual_count_of_data_pixels': 3278821390, "
                            "'actual_count_of_right_fill_pixels': 1910570359, 'sensor_parameters_update_flag': "
                            "2960552171, 'sensor_acquisition_date': datetime.datetime(2020, 5, 29, 0, 0, 4, 321000), "
                            "'sar_channel_id': 65481, 'sar_channel_code': 4597, 'transmitted_pulse_polarization': "
                            "31950, 'received_pulse_polarization': 54360, 'prf': (3149868256, {'units': 'mHz'}), "
                            "'scan_id': 928238013, 'slant_range_to_first_pixel': (4195348502, {'units': 'm'}), "
                            "'slant_range_to_mid_pixel': (2647218006, {'units': 'm'}), 'slant_range_to_last_pixel': "
                            "(1946576502, {'units': 'm'}), 'doppler_centroid_value_at_first_pixel': (3484464.363, "
                            "{'units': 'Hz'}), 'doppler_centroid_value_at_mid_pixel': (2298659.906, {'units': 'Hz'}), "
                            "'doppler_centroid_value_at_last_pixel': (1775901.942, {'units': 'Hz'}), "
                            "'azimuth_fm_rate_of_first_pixel': (3127301112, {'units': 'Hz/ms'}), "
                            "'azimuth_fm_rate_of_mid_pixel': (3067392256, {'units': 'Hz/ms'}), "
                            "'azimuth_fm_rate_of_last_pixel': (2850688629, {'units': 'Hz/ms'}), 'look_angle_of_nadir': "
                            "(1515.990658, {'units': 'deg'}), 'azimuth_squint_angle': (270.80551199999996, {'units': "
                            "'deg'}), 'blanks1': "
                            "b'\\xe7\\x07\\x8f\\x7f\\x898^\\xb0\\x94#UQ\\x82V\\x8b\\x96\\xe8\\xa4\\xfe\\xf2', "
                            "'geographic_reference_parameter_update_flag': 973905861, 'latitude_of_first_pixel': "
                            "(2950.127748, {'units': 'deg'}), 'latitude_of_center_pixel': (931.2286369999999, "
                            "{'units': 'deg'}), 'latitude_of_last_pixel': (175.311307, {'units': 'deg'}), "
                            "'longitude_of_first_pixel': (1242.7148519999998, {'units': 'deg'}), "
                            "'longitude_of_center_pixel': (3664.832114, {'units': 'deg'}), 'longitude_of_last_pixel': "
                            "(264.938714, {'units': 'deg'}), 'northing_of_first_pixel': (513294444, {'units': 'm'}), "
                            '\'blanks2\': b"\\x18\\x9c$\'", \'northing_of_last_pixel\': (2660782549, {\'units\': '
                            "'m'}), 'easting_of_first_pixel': (2168587283, {'units': 'm'}), 'blanks3': "
                            "b'o\\xebW\\x13', 'easting_of_last_pixel': (3244732722, {'units': 'm'}), 'line_heading': "
                            "(1776.116732, {'units': 'deg'}), 'blanks4': b'5\\xc7\\x97\\xff\\x08\\xa6\\xcd\\x90', "
                            "'data': {'start': 192, 'size': 16, 'stop': 208}}",
 'processed/truncated/193': "builtins.dict: {'record_start': 0, 'preamble': {'record_sequence_number': 1, "
                            "'first_record_subtype': 50, 'record_type': 11, 'second_record_subtype': 18, "
                            "'third_record_subtype': 20, 'record_length': 208}, 'sar_image_data_line_number': "
                            "3353149924, 'sar_image_data_record_index': 2289382562, "
                            "'actual_count_of_left_fill_pixels': 252382468, 'actual_count_of_data_pixels': 3278821390, "
                            "'actual_count_of_right_fill_pixels': 1910570359, 'sensor_parameters_update_flag': "
                            "2960552171, 'sensor_acquisition_date': datetime.datetime(2020, 5, 29, 0, 0, 4, 321000), "
                            "'sar_channel_id': 65481, 'sar_channel_code': 4597, 'transmitted_pulse_polarization': "
                            "31950, 'received_pulse_polarization': 54360, 'prf': (3149868256, {'units': 'mHz'}), "
                            "'scan_id': 928238013, 'slant_range_to_first_pixel': (4195348502, {'units': 'm'}), "
                            "'slant_range_to_mid_pixel': (2647218006, {'units': 'm'}), 'slant_range_to_last_pixel': "
                            "(1946576502, {'units': 'm'}), 'doppler_centroid_value_at_first_pixel': (3484464.363, "
                            "{'units': 'Hz'}), 'doppler_centroid_value_at_mid_pixel': (2298659.906, {'units': 'Hz'}), "
                            "'doppler_centroid_value_at_last_pixel': (1775901.942, {'units': 'Hz'}), "
                            "'azimuth_fm_rate_of_first_pixel': (3127301112, {'units': 'Hz/ms'}), "
                            "'azimuth_fm_rate_of_mid_pixel': (3067392256, {'units': 'Hz/ms'}), "
                            "'azimuth_fm_rate_of_last_pixel': (2850688629, {'units': 'Hz/ms'}), 'look_angle_of_nadir': "
                            "(1515.990658, {'units': 'deg'}), 'azimuth_squint_angle': (270.80551199999996, {'units': "
                            "'deg'}), 'blanks1': "
                            "b'\\xe7\\x07\\x8f\\x7f\\x898^\\xb0\\x94#UQ\\x82V\\x8b\\x96\\xe8\\xa4\\xfe\\xf2', "
                            "'geographic_reference_parameter_update_flag': 973905861, 'latitude_of_first_pixel': "
                            "(2950.127748, {'units': 'deg'}), 'latitude_of_center_pixel': (931.2286369999999, "
                            "{'units': 'deg'}), 'latitude_of_last_pixel': (175.311307, {'units': 'deg'}), "
                            "'longitude_of_first_pixel': (1242.7148519999998, {'units': 'deg'}), "
                            "'longitude_of_center_pixel': (3664.832114, {'units': 'deg'}), 'longitude_of_last_pixel': "
                            "(264.938714, {'units': 'deg'}), 'northing_of_first_pixel': (513294444, {'units': 'm'}), "
                            '\'blanks2\': b"\\x18\\x9c$\'", \'northing_of_last_pixel\': (2660782549, {\'units\': '
                            "'m'}), 'easting_of_first_pixel': (2168587283, {'units': 'm'}), 'blanks3': "
                            "b'o\\xebW\\x13', 'easting_of_last_pixel': (3244732722, {'units': 'm'}), 'line_heading': "
                            "(1776.116732, {'units': 'deg'}), 'blanks4': b'5\\xc7\\x97\\xff\\x08\\xa6\\xcd\\x90', "
                            "'data': {'start': 192, 'size': 16, 'stop': 208}}",
 'processed/stream/offset': ('sha256:381f148ac1a9fadc83483aca59b09780e81efa953818fbe203cb2e2be48bc398 (2382 chars)',
                             541),
 'processed/positions': (0, {'start': 192, 'size': 16, 'stop': 208}),
 'processed/container-keys': ['_io',
                              'record_start',
                              'preamble',
                              'sar_image_data_line_number',
                              'sar_image_data_record_index',
                              'actual_count_of_left_fill_pixels',
                              'actual_count_of_data_pixels',
                              'actual_count_of_right_fill_pixels',
                              'sensor_parameters_update_flag',
                              'sensor_acquisition_date',
                              'sar_channel_id',
                              'sar_channel_code',
                              'transmitted_pulse_polarization',
                              'received_pulse_polarization',
                              'prf',
                              'scan_id',
                              'slant_range_to_first_pixel',
                              'slant_range_to_mid_pixel',
                              'slant_range_to_last_pixel',
                              'doppler_centroid_value_at_first_pixel',
                              'doppler_centroid_value_at_mid_pixel',
                              'doppler_centroid_value_at_last_pixel',
                              'azimuth_fm_rate_of_first_pixel',
                              'azimuth_fm_rate_of_mid_pixel',
                              'azimuth_fm_rate_of_last_pixel',
                              'look_angle_of_nadir',
                              'azimuth_squint_angle',
                              'blanks1',
                              'geographic_reference_parameter_update_flag',
                              'latitude_of_first_pixel',
                              'latitude_of_center_pixel',
                              'latitude_of_last_pixel',
                              'longitude_of_first_pixel',
                              'longitude_of_center_pixel',
                              'longitude_of_last_pixel',
                              'northing_of_first_pixel',
                              'blanks2',
                              'northing_of_last_pixel',
                              'easting_of_first_pixel',
                              'blanks3',
                              'easting_of_last_pixel',
                              'line_heading',
                              'blanks4',
                              'data'],
 'processed/stream/io-log': 'sha256:d672de46a41f2138fdaeb7e77d7c4f1e3d429413f66ac6be4ce4235b290f7b44 (1064 chars)',
 'processed/stream/io-log-tail': [('read', 4, 172, 4),
                                  ('read', 4, 176, 4),
                                  ('read', 4, 180, 4),
                                  ('read', 8, 184, 8),
                                  ('tell',),
                                  ('seek', 208, 0)],
 'processed/array/1/8': 'sha256:7eb656d343d98599360a0ef39f3ea7488a400821ef40a01f4df0ce8c69aa0c92 (2388 chars)',
 'processed/chunk/1/8': 'sha256:7eb656d343d98599360a0ef39f3ea7488a400821ef40a01f4df0ce8c69aa0c92 (2388 chars)',
 'processed/chunk/1/8/positions': 'builtins.list: [(0, 192, 8, 200)]',
 'processed/chunk-mismatch/1/8': 'raised builtins.ValueError: sizes mismatch: chunksize is 200 but got 201 bytes',
 'processed/array-short/1/8': 'raised construct.core.StreamError: Error in path (parsing) -> preamble -> '
                              'record_sequence_number\n'
                              'stream read less than specified amount, expected 4, found 0',
 'processed/array/3/0': 'sha256:28fa598ac0b333f8223cd0d44ec2da22646aa7119dc44bdfc3d3da072ea04a6f (7102 chars)',
 'processed/chunk/3/0': 'sha256:28fa598ac0b333f8223cd0d44ec2da22646aa7119dc44bdfc3d3da072ea04a6f (7102 chars)',
 'processed/chunk/3/0/positions': 'builtins.list: [(0, 192, 0, 192), (192, 384, 0, 384), (384, 576, 0, 576)]',
 'processed/chunk-mismatch/3/0': 'raised builtins.ValueError: sizes mismatch: chunksize is 576 but got 577 bytes',
 'processed/array-short/3/0': 'raised construct.core.StreamError: Error in path (parsing) -> preamble -> '
                              'record_sequence_number\n'
                              'stream read less than specified amount, expected 4, found 0',
 'processed/array/4/24': 'sha256:cf21bf6de475d56b00d374e93f42097ef2e2c835e1f23c838a0b4a32cf017fe7 (9440 chars)',
 'processed/chunk/4/24': 'sha256:cf21bf6de475d56b00d374e93f42097ef2e2c835e1f23c838a0b4a32cf017fe7 (9440 chars)',
 'processed/chunk/4/24/positions': 'builtins.list: [(0, 192, 24, 216), (216, 408, 24, 432), (432, 624, 24, 648), (648, '
                                   '840, 24, 864)]',
 'processed/chunk-mismatch/4/24': 'raised builtins.ValueError: sizes mismatch: chunksize is 864 but got 865 bytes',
 'processed/array-short/4/24': 'raised construct.core.StreamError: Error in path (parsing) -> preamble -> '
                               'record_sequence_number\n'
                               'stream read less than specified amount, expected 4, found 0',
 'processed/file/5/16/2/header': 'sha256:a2931e9b8379bf6656805a94900e38153299eae6f57269f242e3c1285eadb534 (3639 chars)',
 'processed/file/5/16/2/records': 'sha256:1053a297ac24b54aaed41cd406b9142e647457898ec04694e1be3d8f0d233679 (12622 '
                                  'chars)',
 'processed/file/5/16/2/types': ('dict', 'list', 5),
 'processed/file/5/16/2/positions': [(720, {'start': 912, 'size': 16, 'stop': 928}),
                                     (928, {'start': 1120, 'size': 16, 'stop': 1136}),
                                     (1136, {'start': 1328, 'size': 16, 'stop': 1344}),
                                     (1344, {'start': 1536, 'size': 16, 'stop': 1552}),
                                     (1552, {'start': 1744, 'size': 16, 'stop': 1760})],
 'processed/file/5/16/2/io-log': [('read', 720, 0, 720),
                                  ('read', 416, 720, 416),
                                  ('read', 416, 1136, 416),
                                  ('read', 208, 1552, 208)],
 'processed/file/5/16/2/group': 'sha256:dae1577b8545f090b38e696708ac11593616115673825a9e1aba944d71972dec (8534 chars)',
 'processed/file/5/16/2/group-attrs': {'sar_image_data_record_index': 2688188582,
                                       'sensor_parameters_update_flag': 3964693499,
                                       'sar_channel_id': 'dual_polarization',
                                       'sar_channel_code': 'KU',
                                       'transmitted_pulse_polarization': 'horizontal',
                                       'received_pulse_polarization': 'horizontal',
                                       'scan_id': 3828864097,
                                       'geographic_reference_parameter_update_flag': 4145109398,
                                       'interleaving_id': 'BSQ',
                                       'valid_range': [0, 65535],
                                       'number_of_burst_data': 3,
                                       'coordinates': ['rows',
                                                       'sensor_acquisition_date',
                                                       'prf',
                                                       'slant_range_to_first_pixel',
                                                       'slant_range_to_mid_pixel',
                                                       'slant_range_to_last_pixel',
                                                       'doppler_centroid_value_at_first_pixel',
                                                       'doppler_centroid_value_at_mid_pixel',
                                                       'doppler_centroid_value_at_last_pixel',
                                                       'azimuth_fm_rate_of_first_pixel',
                                                       'azimuth_fm_rate_of_mid_pixel',
                                                       'azimuth_fm_rate_of_last_pixel',
                                                       'look_angle_of_nadir',
                                                       'azimuth_squint_angle',
                                                       'latitude_of_first_pixel',
                                                       'latitude_of_center_pixel',
                                                       'latitude_of_last_pixel',
                                                       'longitude_of_first_pixel',
                                                       'longitude_of_center_pixel',
                                                       'longitude_of_last_pixel',
                                                       'northing_of_first_pixel',
                                                       'northing_of_last_pixel',
                                                       'easting_of_first_pixel',
                                                       'easting_of_last_pixel',
                                                       'line_heading']},
 'processed/file/5/16/2/group-variables': {'rows': (['rows'], {}),
                                           'sensor_acquisition_date': (['rows'], {}),
                                           'prf': (['rows'], {'units': 'mHz'}),
                                           'slant_range_to_first_pixel': (['rows'], {'units': 'm'}),
                                           'slant_range_to_mid_pixel': (['rows'], {'units': 'm'}),
                                           'slant_range_to_last_pixel': (['rows'], {'units': 'm'}),
                                           'doppler_centroid_value_at_first_pixel': (['rows'], {'units': 'Hz'}),
                                           'doppler_centroid_value_at_mid_pixel': (['rows'], {'units': 'Hz'}),
                                           'doppler_centroid_value_at_last_pixel': (['rows'], {'units': 'Hz'}),
                                           'azimuth_fm_rate_of_first_pixel': (['rows'], {'units': 'Hz/ms'}),
                                           'azimuth_fm_rate_of_mid_pixel': (['rows'], {'units': 'Hz/ms'}),
                                           'azimuth_fm_rate_of_last_pixel': (['rows'], {'units': 'Hz/ms'}),
                                           'look_angle_of_nadir': (['rows'], {'units': 'deg'}),
                                           'azimuth_squint_angle': (['rows'], {'units': 'deg'}),
                                           'latitude_of_first_pixel': (['rows'], {'units': 'deg'}),
                                           'latitude_of_center_pixel': (['rows'], {'units': 'deg'}),
                                           'latitude_of_last_pixel': (['rows'], {'units': 'deg'}),
                                           'longitude_of_first_pixel': (['rows'], {'units': 'deg'}),
                                           'longitude_of_center_pixel': (['rows'], {'units': 'deg'}),
                                           'longitude_of_last_pixel': (['rows'], {'units': 'deg'}),
                                           'northing_of_first_pixel': (['rows'], {'units': 'm'}),
                                           'northing_of_last_pixel': (['rows'], {'units': 'm'}),
                                           'easting_of_first_pixel': (['rows'], {'units': 'm'}),
                                           'easting_of_last_pixel': (['rows'], {'units': 'm'}),
                                           'line_heading': (['rows'], {'units': 'deg'})},
 'processed/file/5/16/2/array-metadata': {'type_code': 'C*8',
                                          'shape': (5, 7),
                                          'dtype': 'complex64',
                                          'byte_ranges': [(912, 928),
                                                          (1120, 1136),
                                                          (1328, 1344),
                                                          (1536, 1552),
                                                          (1744, 1760)]},
 'processed/file/4/8/4/header': 'sha256:a1a1d51ceb44c2bdd14e665762af83c1ab40b3d725f2b1bb7bc386cda0a1716d (3639 chars)',
 'processed/file/4/8/4/records': 'sha256:adbde60f666bdcec81ca8731a6ba9dcc306866bdb05cebdbd03f7fe0de8062de (10108 '
                                 'chars)',
 'processed/file/4/8/4/types': ('dict', 'list', 4),
 'processed/file/4/8/4/positions': [(720, {'start': 912, 'size': 8, 'stop': 920}),
                                    (920, {'start': 1112, 'size': 8, 'stop': 1120}),
                                    (1120, {'start': 1312, 'size': 8, 'stop': 1320}),
                                    (1320, {'start': 1512, 'size': 8, 'stop': 1520})],
 'processed/file/4/8/4/io-log': [('read', 720, 0, 720), ('read', 800, 720, 800)],
 'processed/file/4/8/4/group': 'sha256:7b5fdbb19a8844bdef6a680eb5439a90032b3c67f70b9fe4086f812447038584 (7056 chars)',
 'processed/file/4/8/4/group-attrs': {'sar_image_data_record_index': 2688188582,
                                      'sensor_parameters_update_flag': 3964693499,
                                      'sar_channel_id': 'dual_polarization',
                                      'sar_channel_code': 'KU',
                                      'transmitted_pulse_polarization': 'horizontal',
                                      'received_pulse_polarization': 'horizontal',
                                      'scan_id': 3828864097,
                                      'geographic_reference_parameter_update_flag': 4145109398,
                                      'interleaving_id': 'BSQ',
                                      'valid_range': [0, 65535],
                                      'number_of_burst_data': 3,
                                      'coordinates': ['rows',
                                                      'sensor_acquisition_date',
                                                      'prf',
                                                      'slant_range_to_first_pixel',
                                                      'slant_range_to_mid_pixel',
                                                      'slant_range_to_last_pixel',
                                                      'doppler_centroid_value_at_first_pixel',
                                                      'doppler_centroid_value_at_mid_pixel',
                                                      'doppler_centroid_value_at_last_pixel',
                                                      'azimuth_fm_rate_of_first_pixel',
                                                      'azimuth_fm_rate_of_mid_pixel',
                                                      'azimuth_fm_rate_of_last_pixel',
                                                      'look_angle_of_nadir',
                                                      'azimuth_squint_angle',
                                                      'latitude_of_first_pixel',
                                                      'latitude_of_center_pixel',
                                                      'latitude_of_last_pixel',
                                                      'longitude_of_first_pixel',
                                                      'longitude_of_center_pixel',
                                                      'longitude_of_last_pixel',
                                                      'northing_of_first_pixel',
                                                      'northing_of_last_pixel',
                                                      'easting_of_first_pixel',
                                                      'easting_of_last_pixel',
                                                      'line_heading']},
 'processed/file/4/8/4/group-variables': {'rows': (['rows'], {}),
                                          'sensor_acquisition_date': (['rows'], {}),
                                          'prf': (['rows'], {'units': 'mHz'}),
                                          'slant_range_to_first_pixel': (['rows'], {'units': 'm'}),
                                          'slant_range_to_mid_pixel': (['rows'], {'units': 'm'}),
                                          'slant_range_to_last_pixel': (['rows'], {'units': 'm'}),
                                          'doppler_centroid_value_at_first_pixel': (['rows'], {'units': 'Hz'}),
                                          'doppler_centroid_value_at_mid_pixel': (['rows'], {'units': 'Hz'}),
                                          'doppler_centroid_value_at_last_pixel': (['rows'], {'units': 'Hz'}),
                                          'azimuth_fm_rate_of_first_pixel': (['rows'], {'units': 'Hz/ms'}),
                                          'azimuth_fm_rate_of_mid_pixel': (['rows'], {'units': 'Hz/ms'}),
                                          'azimuth_fm_rate_of_last_pixel': (['rows'], {'units': 'Hz/ms'}),
                                          'look_angle_of_nadir': (['rows'], {'units': 'deg'}),
                                          'azimuth_squint_angle': (['rows'], {'units': 'deg'}),
                                          'latitude_of_first_pixel': (['rows'], {'units': 'deg'}),
                                          'latitude_of_center_pixel': (['rows'], {'units': 'deg'}),
                                          'latitude_of_last_pixel': (['rows'], {'units': 'deg'}),
                                          'longitude_of_first_pixel': (['rows'], {'units': 'deg'}),
                                          'longitude_of_center_pixel': (['rows'], {'units': 'deg'}),
                                          'longitude_of_last_pixel': (['rows'], {'units': 'deg'}),
                                          'northing_of_first_pixel': (['rows'], {'units': 'm'}),
                                          'northing_of_last_pixel': (['rows'], {'units': 'm'}),
                                          'easting_of_first_pixel': (['rows'], {'units': 'm'}),
                                          'easting_of_last_pixel': (['rows'], {'units': 'm'}),
                                          'line_heading': (['rows'], {'units': 'deg'})},
 'processed/file/4/8/4/array-metadata': {'type_code': 'C*8',
                                         'shape': (4, 7),
                                         'dtype': 'complex64',
                                         'byte_ranges': [(912, 920), (1112, 1120), (1312, 1320), (1512, 1520)]},
 'processed/file/3/8/1024/header': 'sha256:fa274b7a2a796cb8970f5833e03bd095a72fbc1da1288fa736d2510259dd6901 (3639 '
                                   'chars)',
 'processed/file/3/8/1024/records': 'sha256:bdde1ef21ec86260a8a17537ab2e5feb1b7b92889461c8fbb4554a70d669974c (7566 '
                                    'chars)',
 'processed/file/3/8/1024/types': ('dict', 'list', 3),
 'processed/file/3/8/1024/positions': [(720, {'start': 912, 'size': 8, 'stop': 920}),
                                       (920, {'start': 1112, 'size': 8, 'stop': 1120}),
                                       (1120, {'start': 1312, 'size': 8, 'stop': 1320})],
 'processed/file/3/8/1024/io-log': [('read', 720, 0, 720), ('read', 600, 720, 600)],
 'processed/file/3/8/1024/group': 'sha256:dc17c92c6cf140a219d0a69bbd55313bc7670e10d859cbe57f9655651e69b15f (5284 '
                                  'chars)',
 'processed/file/3/8/1024/group-attrs': {'sar_image_data_record_index': 2688188582,
                                         'sensor_parameters_update_flag': 3964693499,
                                         'sar_channel_id': 'dual_polarization',
                                         'sar_channel_code': 'KU',
                                         'transmitted_pulse_polarization': 'horizontal',
                                         'received_pulse_polarization': 'horizontal',
                                         'scan_id': 3828864097,
                                         'geographic_reference_parameter_update_flag': 4145109398,
                                         'interleaving_id': 'BSQ',
                                         'valid_range': [0, 65535],
                                         'number_of_burst_data': 3,
                                         'coordinates': ['rows',
                                                         'sensor_acquisition_date',
                                                         'prf',
                                                         'slant_range_to_first_pixel',
                                                         'slant_range_to_mid_pixel',
                                                         'slant_range_to_last_pixel',
                                                         'doppler_centroid_value_at_first_pixel',
                                                         'doppler_centroid_value_at_mid_pixel',
                                                         'doppler_centroid_value_at_last_pixel',
                                                         'azimuth_fm_rate_of_first_pixel',
                                                         'azimuth_fm_rate_of_mid_pixel',
                                                         'azimuth_fm_rate_of_last_pixel',
                                                         'look_angle_of_nadir',
                                                         'azimuth_squint_angle',
                                                         'latitude_of_first_pixel',
                                                         'latitude_of_center_pixel',
                                                         'latitude_of_last_pixel',
                                                         'longitude_of_first_pixel',
                                                         'longitude_of_center_pixel',
                                                         'longitude_of_last_pixel',
                                                         'northing_of_first_pixel',
                                                         'northing_of_last_pixel',
                                                         'easting_of_first_pixel',
                                                         'easting_of_last_pixel',
                                                         'line_heading']},
 'processed/file/3/8/1024/group-variables': {'rows': (['rows'], {}),
                                             'sensor_acquisition_date': (['rows'], {}),
                                             'prf': (['rows'], {'units': 'mHz'}),
                                             'slant_range_to_first_pixel': (['rows'], {'units': 'm'}),
                                             'slant_range_to_mid_pixel': (['rows'], {'units': 'm'}),
                                             'slant_range_to_last_pixel': (['rows'], {'units': 'm'}),
                                             'doppler_centroid_value_at_first_pixel': (['rows'], {'units': 'Hz'}),
                                             'doppler_centroid_value_at_mid_pixel': (['rows'], {'units': 'Hz'}),
                                             'doppler_centroid_value_at_last_pixel': (['rows'], {'units': 'Hz'}),
                                             'azimuth_fm_rate_of_first_pixel': (['rows'], {'units': 'Hz/ms'}),
                                             'azimuth_fm_rate_of_mid_pixel': (['rows'], {'units': 'Hz/ms'}),
                                             'azimuth_fm_rate_of_last_pixel': (['rows'], {'units': 'Hz/ms'}),
                                             'look_angle_of_nadir': (['rows'], {'units': 'deg'}),
                                             'azimuth_squint_angle': (['rows'], {'units': 'deg'}),
                                             'latitude_of_first_pixel': (['rows'], {'units': 'deg'}),
                                             'latitude_of_center_pixel': (['rows'], {'units': 'deg'}),
                                             'latitude_of_last_pixel': (['rows'], {'units': 'deg'}),
                                             'longitude_of_first_pixel': (['rows'], {'units': 'deg'}),
                                             'longitude_of_center_pixel': (['rows'], {'units': 'deg'}),
                                             'longitude_of_last_pixel': (['rows'], {'units': 'deg'}),
                                             'northing_of_first_pixel': (['rows'], {'units': 'm'}),
                                             'northing_of_last_pixel': (['rows'], {'units': 'm'}),
                                             'easting_of_first_pixel': (['rows'], {'units': 'm'}),
                                             'easting_of_last_pixel': (['rows'], {'units': 'm'}),
                                             'line_heading': (['rows'], {'units': 'deg'})},
 'processed/file/3/8/1024/array-metadata': {'type_code': 'C*8',
                                            'shape': (3, 7),
                                            'dtype': 'complex64',
                                            'byte_ranges': [(912, 920), (1112, 1120), (1312, 1320)]},
 'processed/file/1/0/1/header': 'sha256:5c6cff8c1e6e842d3153bf94101fb9db95d8c84c05c6692d8f5339ac974db0b6 (3639 chars)',
 'processed/file/1/0/1/records': 'sha256:4c9e21d39569a5c39395f1e38dfab3b32dde4d43a8ed606bb2b604f63422944c (2523 chars)',
 'processed/file/1/0/1/types': ('dict', 'list', 1),
 'processed/file/1/0/1/positions': [(720, {'start': 912, 'size': 0, 'stop': 912})],
 'processed/file/1/0/1/io-log': [('read', 720, 0, 720), ('read', 192, 720, 192)],
 'processed/file/1/0/1/group': 'sha256:022f905be165dda64137e8c004794dd24ce596bd45f9358533b6b91375d56979 (4094 chars)',
 'processed/file/1/0/1/group-attrs': {'sar_image_data_record_index': 2688188582,
                                      'sensor_parameters_update_flag': 3964693499,
                                      'sar_channel_id': 'dual_polarization',
                                      'sar_channel_code': 'KU',
                                      'transmitted_pulse_polarization': 'horizontal',
                                      'received_pulse_polarization': 'horizontal',
                                      'scan_id': 3828864097,
                                      'geographic_reference_parameter_update_flag': 4145109398,
                                      'interleaving_id': 'BSQ',
                                      'valid_range': [0, 65535],
                                      'number_of_burst_data': 3,
                                      'coordinates': ['rows',
                                                      'sensor_acquisition_date',
                                                      'prf',
                                                      'slant_range_to_first_pixel',
                                                      'slant_range_to_mid_pixel',
                                                      'slant_range_to_last_pixel',
                                                      'doppler_centroid_value_at_first_pixel',
                                                      'doppler_centroid_value_at_mid_pixel',
                                                      'doppler_centroid_value_at_last_pixel',
                                                      'azimuth_fm_rate_of_first_pixel',
                                                      'azimuth_fm_rate_of_mid_pixel',
                                                      'azimuth_fm_rate_of_last_pixel',
                                                      'look_angle_of_nadir',
                                                      'azimuth_squint_angle',
                                                      'latitude_of_first_pixel',
                                                      'latitude_of_center_pixel',
                                                      'latitude_of_last_pixel',
                                                      'longitude_of_first_pixel',
                                                      'longitude_of_center_pixel',
                                                      'longitude_of_last_pixel',
                                                      'northing_of_first_pixel',
                                                      'northing_of_last_pixel',
                                                      'easting_of_first_pixel',
                                                      'easting_of_last_pixel',
                                                      'line_heading']},
 'processed/file/1/0/1/group-variables': {'rows': (['rows'], {}),
                                          'sensor_acquisition_date': (['rows'], {}),
                                          'prf': (['rows'], {'units': 'mHz'}),
                                          'slant_range_to_first_pixel': (['rows'], {'units': 'm'}),
                                          'slant_range_to_mid_pixel': (['rows'], {'units': 'm'}),
                                          'slant_range_to_last_pixel': (['rows'], {'units': 'm'}),
                                          'doppler_centroid_value_at_first_pixel': (['rows'], {'units': 'Hz'}),
                                          'doppler_centroid_value_at_mid_pixel': (['rows'], {'units': 'Hz'}),
                                          'doppler_centroid_value_at_last_pixel': (['rows'], {'units': 'Hz'}),
                                          'azimuth_fm_rate_of_first_pixel': (['rows'], {'units': 'Hz/ms'}),
                                          'azimuth_fm_rate_of_mid_pixel': (['rows'], {'units': 'Hz/ms'}),
                                          'azimuth_fm_rate_of_last_pixel': (['rows'], {'units': 'Hz/ms'}),
                                          'look_angle_of_nadir': (['rows'], {'units': 'deg'}),
                                          'azimuth_squint_angle': (['rows'], {'units': 'deg'}),
                                          'latitude_of_first_pixel': (['rows'], {'units': 'deg'}),
                                          'latitude_of_center_pixel': (['rows'], {'units': 'deg'}),
                                          'latitude_of_last_pixel': (['rows'], {'units': 'deg'}),
                                          'longitude_of_first_pixel': (['rows'], {'units': 'deg'}),
                                          'longitude_of_center_pixel': (['rows'], {'units': 'deg'}),
                                          'longitude_of_last_pixel': (['rows'], {'units': 'deg'}),
                                          'northing_of_first_pixel': (['rows'], {'units': 'm'}),
                                          'northing_of_last_pixel': (['rows'], {'units': 'm'}),
                                          'easting_of_first_pixel': (['rows'], {'units': 'm'}),
                                          'easting_of_last_pixel': (['rows'], {'units': 'm'}),
                                          'line_heading': (['rows'], {'units': 'deg'})},
 'processed/file/1/0/1/array-metadata': {'type_code': 'C*8',
                                         'shape': (1, 7),
                                         'dtype': 'complex64',
                                         'byte_ranges': [(912, 912)]},
 'processed/file/6/12/4/header': 'sha256:2a2c61a613b3db12d70d5b2be1f0f48d6f20143e8a303a28b0d4e3e089c8f0e1 (3639 chars)',
 'processed/file/6/12/4/records': 'sha256:dc5c6b84f6fcce357b60d915828692df791c43936e0a372450503ba6ada4ac08 (15138 '
                                  'chars)',
 'processed/file/6/12/4/types': ('dict', 'list', 6),
 'processed/file/6/12/4/positions': [(720, {'start': 912, 'size': 12, 'stop': 924}),
                                     (924, {'start': 1116, 'size': 12, 'stop': 1128}),
                                     (1128, {'start': 1320, 'size': 12, 'stop': 1332}),
                                     (1332, {'start': 1524, 'size': 12, 'stop': 1536}),
                                     (1536, {'start': 1728, 'size': 12, 'stop': 1740}),
                                     (1740, {'start': 1932, 'size': 12, 'stop': 1944})],
 'processed/file/6/12/4/io-log': [('read', 720, 0, 720), ('read', 816, 720, 816), ('read', 408, 1536, 408)],
 'processed/file/6/12/4/group': 'sha256:73a0ab573bf580cc1eee9ae9255d9469b9fce02f8a786dc8841502667cd48cc7 (10667 chars)',
 'processed/file/6/12/4/group-attrs': {'sar_image_data_record_index': 2688188582,
                                       'sensor_parameters_update_flag': 3964693499,
                                       'sar_channel_id': 'dual_polarization',
                                       'sar_channel_code': 'KU',
                                       'transmitted_pulse_polarization': 'horizontal',
                                       'received_pulse_polarization': 'horizontal',
                                       'scan_id': 3828864097,
                                       'geographic_reference_parameter_update_flag': 4145109398,
                                       'interleaving_id': 'BSQ',
                                       'valid_range': [0, 65535],
                                       'number_of_burst_data': 3,
                                       'coordinates': ['rows',
                                                       'sensor_acquisition_date',
                                                       'prf',
                                                       'slant_range_to_first_pixel',
                                                       'slant_range_to_mid_pixel',
                                                       'slant_range_to_last_pixel',
                                                       'doppler_centroid_value_at_first_pixel',
                                                       'doppler_centroid_value_at_mid_pixel',
                                                       'doppler_centroid_value_at_last_pixel',
                                                       'azimuth_fm_rate_of_first_pixel',
                                                       'azimuth_fm_rate_of_mid_pixel',
                                                       'azimuth_fm_rate_of_last_pixel',
                                                       'look_angle_of_nadir',
                                                       'azimuth_squint_angle',
                                                       'latitude_of_first_pixel',
                                                       'latitude_of_center_pixel',
                                                       'latitude_of_last_pixel',
                                                       'longitude_of_first_pixel',
                                                       'longitude_of_center_pixel',
                                                       'longitude_of_last_pixel',
                                                       'northing_of_first_pixel',
                                                       'northing_of_last_pixel',
                                                       'easting_of_first_pixel',
                                                       'easting_of_last_pixel',
                                                       'line_heading']},
 'processed/file/6/12/4/group-variables': {'rows': (['rows'], {}),
                                           'sensor_acquisition_date': (['rows'], {}),
                                           'prf': (['rows'], {'units': 'mHz'}),
                                           'slant_range_to_first_pixel': (['rows'], {'units': 'm'}),
                                           'slant_range_to_mid_pixel': (['rows'], {'units': 'm'}),
                                           'slant_range_to_last_pixel': (['rows'], {'units': 'm'}),
                                           'doppler_centroid_value_at_first_pixel': (['rows'], {'units': 'Hz'}),
                                           'doppler_centroid_value_at_mid_pixel': (['rows'], {'units': 'Hz'}),
                                           'doppler_centroid_value_at_last_pixel': (['rows'], {'units': 'Hz'}),
                                           'azimuth_fm_rate_of_first_pixel': (['rows'], {'units': 'Hz/ms'}),
                                           'azimuth_fm_rate_of_mid_pixel': (['rows'], {'units': 'Hz/ms'}),
                                           'azimuth_fm_rate_of_last_pixel': (['rows'], {'units': 'Hz/ms'}),
                                           'look_angle_of_nadir': (['rows'], {'units': 'deg'}),
                                           'azimuth_squint_angle': (['rows'], {'units': 'deg'}),
                                           'latitude_of_first_pixel': (['rows'], {'units': 'deg'}),
                                           'latitude_of_center_pixel': (['rows'], {'units': 'deg'}),
                                           'latitude_of_last_pixel': (['rows'], {'units': 'deg'}),
                                           'longitude_of_first_pixel': (['rows'], {'units': 'deg'}),
                                           'longitude_of_center_pixel': (['rows'], {'units': 'deg'}),
                                           'longitude_of_last_pixel': (['rows'], {'units': 'deg'}),
                                           'northing_of_first_pixel': (['rows'], {'units': 'm'}),
                                           'northing_of_last_pixel': (['rows'], {'units': 'm'}),
                                           'easting_of_first_pixel': (['rows'], {'units': 'm'}),
                                           'easting_of_last_pixel': (['rows'], {'units': 'm'}),
                                           'line_heading': (['rows'], {'units': 'deg'})},
 'processed/file/6/12/4/array-metadata': {'type_code': 'C*8',
                                          'shape': (6, 7),
                                          'dtype': 'complex64',
                                          'byte_ranges': [(912, 924),
                                                          (1116, 1128),
                                                          (1320, 1332),
                                                          (1524, 1536),
                                                          (1728, 1740),
                                                          (1932, 1944)]},
 'processed/file/truncated': 'raised construct.core.StreamError: Error in path (parsing) -> record_sequence_number\n'
                             'stream read less than specified amount, expected 4, found 0',
 'chunk/unknown-type': 'raised builtins.ValueError: unknown record type code: 12',
 'chunk/empty': 'raised construct.core.StreamError: Error in path (parsing) -> record_sequence_number\n'
                'stream read less than specified amount, expected 4, found 0',
 'cross/common-keys': ['record_start',
                       'preamble',
                       'sar_image_data_line_number',
                       'sar_image_data_record_index',
                       'actual_count_of_left_fill_pixels',
                       'actual_count_of_data_pixels',
                       'actual_count_of_right_fill_pixels',
                       'sensor_parameters_update_flag',
                       'sensor_acquisition_date',
                       'sar_channel_id',
                       'sar_channel_code',
                       'transmitted_pulse_polarization',
                       'received_pulse_polarization',
                       'prf',
                       'scan_id',
                       'blanks1',
                       'latitude_of_first_pixel',
                       'latitude_of_center_pixel',
                       'latitude_of_last_pixel',
                       'longitude_of_first_pixel',
                       'longitude_of_center_pixel',
                       'longitude_of_last_pixel',
                       'blanks2'],
 'cross/equal-values': ['record_start',
                        'preamble',
                        'sar_image_data_line_number',
                        'sar_image_data_record_index',
                        'actual_count_of_left_fill_pixels',
                        'actual_count_of_data_pixels',
                        'actual_count_of_right_fill_pixels',
                        'sensor_parameters_update_flag',
                        'sensor_acquisition_date',
                        'sar_channel_id',
                        'sar_channel_code',
                        'transmitted_pulse_polarization',
                        'received_pulse_polarization',
                        'prf',
                        'scan_id']}  # @@EXPECTED@@


def test_equivalence():
    actual = collect()
    assert sorted(actual) == sorted(EXPECTED)
    mismatches = {k: (actual[k], EXPECTED[k]) for k in EXPECTED if actual[k] != EXPECTED[k]}
    assert not mismatches, pprint.pformat(mismatches, width=160)


if __name__ == "__main__":
    if "--record" in sys.argv:
        pprint.pprint(collect(), width=120, sort_dicts=False)
    else:
        test_equivalence()
        print(f"ok: {len(EXPECTED)} observations identical")
