"""Equivalence check for refactoring 1 (ceos_alos2.utils.parse_bytes).

Run as ``python _eq/1/equiv.py`` (or through pytest). The expected outcomes were
recorded from the unchanged code at HEAD; ``python _eq/1/equiv.py --dump``
prints the outcome table of whatever code is currently importable.
"""

import decimal
import sys

from ceos_alos2 import utils

CASES = [
    # numbers
    0, 1, 123, -5, 12.7, -12.7, 1e6, True, False,
    # plain numeric strings
    "100", "0", "1e6", "1.5", " 1 0 0 ", "1_000", "+5", "-5", ".5", "5.",
    # units
    "100 MB", "100M", "5kB", "5.4 kB", "1kiB", "1e6 kB", "MB", "kB", "B", "b", "k", "K",
    "1 KiB", "1Ki", "1ki", "2 mi", "3GiB", "3Gi", "3 G", "4tb", "4 TiB", "1 PB", "1 PiB", "1pi",
    "1.25e3 kb", "0.5 KIB", "12 b", "7  m  b", "-3 kB", "1e3e", "1e", "e", "1E3",
    # empty-ish
    "", " ", "   ",
    # failures: unit
    "5 foos", "5 kBs", "5 ib", "5 i", "foo", "5 µB", "5 мб", "1kb2x",
    # failures: number
    "1.2.3", "1.2.3 MB", "1.2.3 foos", "--5", "5-", "12 34 x5", "kB5", "k5B", "5 k-B", "1,5 kB",
    "5_kB", "5/kB", "abc1", "1abc2def",
    # unicode digits / letters
    "٣", "٣ kB", "5²", "²", "1é", "1 ǅ", "1ʰ", "١٢٣ MB", "５ｋＢ", "Ⅻ", "1Ⅻ", "½", "1½",
    # overflow / special floats
    "1e400", "1e400 kB", "inf", "1inf", "nan", "1nan", "infinity",
    float("inf"), float("nan"),
    # wrong types
    None, b"5 kB", decimal.Decimal(3), [1], (1, "kB"), 3 + 0j,
]


def outcome(value):
    try:
        result = utils.parse_bytes(value)
    except Exception as e:  # noqa: BLE001
        cause = type(e.__cause__).__name__ if e.__cause__ is not None else None
        return ("raise", type(e).__name__, str(e), cause)
    return ("ok", type(result).__name__, repr(result))


EXPECTED = [('ok', 'int', '0'),
 ('ok', 'int', '1'),
 ('ok', 'int', '123'),
 ('ok', 'int', '-5'),
 ('ok', 'int', '12'),
 ('ok', 'int', '-12'),
 ('ok', 'int', '1000000'),
 ('ok', 'int', '1'),
 ('ok', 'int', '0'),
 ('ok', 'int', '100'),
 ('ok', 'int', '0'),
 ('ok', 'int', '1000000'),
 ('ok', 'int', '1'),
 ('ok', 'int', '100'),
 ('ok', 'int', '1000'),
 ('ok', 'int', '5'),
 ('ok', 'int', '-5'),
 ('ok', 'int', '0'),
 ('ok', 'int', '5'),
 ('ok', 'int', '100000000'),
 ('ok', 'int', '100000000'),
 ('ok', 'int', '5000'),
 ('ok', 'int', '5400'),
 ('ok', 'int', '1024'),
 ('ok', 'int', '1000000000'),
 ('ok', 'int', '1000000'),
 ('ok', 'int', '1000'),
 ('ok', 'int', '1'),
 ('ok', 'int', '1'),
 ('ok', 'int', '1000'),
 ('ok', 'int', '1000'),
 ('ok', 'int', '1024'),
 ('ok', 'int', '1024'),
 ('ok', 'int', '1024'),
 ('ok', 'int', '2097152'),
 ('ok', 'int', '3221225472'),
 ('ok', 'int', '3221225472'),
 ('ok', 'int', '3000000000'),
 ('ok', 'int', '4000000000000'),
 ('ok', 'int', '4398046511104'),
 ('ok', 'int', '1000000000000000'),
 ('ok', 'int', '1125899906842624'),
 ('ok', 'int', '1125899906842624'),
 ('ok', 'int', '1250000'),
 ('ok', 'int', '512'),
 ('ok', 'int', '12'),
 ('ok', 'int', '7000000'),
 ('ok', 'int', '-3000'),
 ('raise', 'ValueError', "Could not interpret 'e' as a byte unit", 'KeyError'),
 ('raise', 'ValueError', "Could not interpret 'e' as a byte unit", 'KeyError'),
 ('raise', 'ValueError', "Could not interpret 'e' as a byte unit", 'KeyError'),
 ('ok', 'int', '1000'),
 ('ok', 'int', '1'),
 ('ok', 'int', '1'),
 ('ok', 'int', '1'),
 ('raise', 'ValueError', "Could not interpret 'foos' as a byte unit", 'KeyError'),
 ('raise', 'ValueError', "Could not interpret 'kBs' as a byte unit", 'KeyError'),
 ('raise', 'ValueError', "Could not interpret 'ib' as a byte unit", 'KeyError'),
 ('raise', 'ValueError', "Could not interpret 'i' as a byte unit", 'KeyError'),
 ('raise', 'ValueError', "Could not interpret 'foo' as a byte unit", 'KeyError'),
 ('raise', 'ValueError', "Could not interpret 'µB' as a byte unit", 'KeyError'),
 ('raise', 'ValueError', "Could not interpret 'мб' as a byte unit", 'KeyError'),
 ('raise', 'ValueError', "Could not interpret '1kb2' as a number", 'ValueError'),
 ('raise', 'ValueError', "Could not interpret '1.2.3' as a number", 'ValueError'),
 ('raise', 'ValueError', "Could not interpret '1.2.3' as a number", 'ValueError'),
 ('raise', 'ValueError', "Could not interpret '1.2.3' as a number", 'ValueError'),
 ('raise', 'ValueError', "Could not interpret '--5' as a number", 'ValueError'),
 ('raise', 'ValueError', "Could not interpret '5-' as a number", 'ValueError'),
 ('raise', 'ValueError', "Could not interpret '1234x5' as a number", 'ValueError'),
 ('raise', 'ValueError', "Could not interpret 'kB5' as a number", 'ValueError'),
 ('raise', 'ValueError', "Could not interpret 'k5' as a number", 'ValueError'),
 ('raise', 'ValueError', "Could not interpret '5k-' as a number", 'ValueError'),
 ('raise', 'ValueError', "Could not interpret '1,5' as a number", 'ValueError'),
 ('raise', 'ValueError', "Could not interpret '5_' as a number", 'ValueError'),
 ('raise', 'ValueError', "Could not interpret '5/' as a number", 'ValueError'),
 ('raise', 'ValueError', "Could not interpret 'abc1' as a number", 'ValueError'),
 ('raise', 'ValueError', "Could not interpret '1abc2' as a number", 'ValueError'),
 ('ok', 'int', '3'),
 ('ok', 'int', '3000'),
 ('raise', 'ValueError', "Could not interpret '5²' as a number", 'ValueError'),
 ('raise', 'ValueError', "Could not interpret '²' as a number", 'ValueError'),
 ('raise', 'ValueError', "Could not interpret 'é' as a byte unit", 'KeyError'),
 ('raise', 'ValueError', "Could not interpret 'ǅ' as a byte unit", 'KeyError'),
 ('raise', 'ValueError', "Could not interpret 'ʰ' as a byte unit", 'KeyError'),
 ('ok', 'int', '123000000'),
 ('raise', 'ValueError', "Could not interpret 'ｋＢ' as a byte unit", 'KeyError'),
 ('raise', 'ValueError', "Could not interpret '1Ⅻ' as a number", 'ValueError'),
 ('raise', 'ValueError', "Could not interpret '1Ⅻ' as a number", 'ValueError'),
 ('raise', 'ValueError', "Could not interpret '1½' as a number", 'ValueError'),
 ('raise', 'ValueError', "Could not interpret '1½' as a number", 'ValueError'),
 ('raise', 'OverflowError', 'cannot convert float infinity to integer', None),
 ('raise', 'OverflowError', 'cannot convert float infinity to integer', None),
 ('raise', 'ValueError', "Could not interpret 'inf' as a byte unit", 'KeyError'),
 ('raise', 'ValueError', "Could not interpret 'inf' as a byte unit", 'KeyError'),
 ('raise', 'ValueError', "Could not interpret 'nan' as a byte unit", 'KeyError'),
 ('raise', 'ValueError', "Could not interpret 'nan' as a byte unit", 'KeyError'),
 ('raise', 'ValueError', "Could not interpret 'infinity' as a byte unit", 'KeyError'),
 ('raise', 'OverflowError', 'cannot convert float infinity to integer', None),
 ('raise', 'ValueError', 'cannot convert float NaN to integer', None),
 ('raise', 'AttributeError', "'NoneType' object has no attribute 'replace'", None),
 ('raise', 'TypeError', "a bytes-like object is required, not 'str'", None),
 ('raise', 'AttributeError', "'decimal.Decimal' object has no attribute 'replace'", None),
 ('raise', 'AttributeError', "'list' object has no attribute 'replace'", None),
 ('raise', 'AttributeError', "'tuple' object has no attribute 'replace'", None),
 ('raise', 'AttributeError', "'complex' object has no attribute 'replace'", None)]


def test_no_char_is_both_digit_and_letter():
    # the premise of the "never runs until the end" comment in the original
    assert not [c for c in map(chr, range(0x110000)) if c.isdigit() and c.isalpha()]


def test_byte_sizes_table_unchanged():
    assert len(utils.byte_sizes) == 22
    assert utils.byte_sizes["kib"] == 1024 and utils.byte_sizes["ki"] == 1024
    assert utils.byte_sizes["k"] == 1000 and utils.byte_sizes[""] == 1


def test_outcomes():
    actual = [outcome(case) for case in CASES]
    assert len(actual) == len(EXPECTED)
    for case, a, e in zip(CASES, actual, EXPECTED):
        assert a == e, (case, a, e)


def test_signature_and_doc():
    import inspect

    assert str(inspect.signature(utils.parse_bytes)) == "(s: float | str) -> int"
    assert utils.parse_bytes.__doc__.startswith("Parse byte string to numbers")


if __name__ == "__main__":
    if "--dump" in sys.argv:
        import pprint

        pprint.pprint([outcome(case) for case in CASES], width=110)
        sys.exit(0)
    for name, func in sorted(globals().items()):
        if name.startswith("test_"):
            func()
    print(f"ok: {len(CASES)} cases")
