"""Equivalence check for refactoring 4 (ceos_alos2.testing: diff_array, assert_identical).

Run as `python equiv.py` (or through pytest).  `python equiv.py --record` prints
the outcomes of the code currently importable, which is how EXPECTED was produced
from the unchanged code.
"""

import pprint
import sys

import fsspec
import numpy as np

from ceos_alos2 import testing
from ceos_alos2.array import Array
from ceos_alos2.hierarchy import Group, Variable


def make_array(
    *,
    protocol="memory",
    byte_ranges=None,
    path="/path/to",
    url="file",
    shape=(4, 3),
    dtype="int16",
    records_per_chunk=2,
    type_code="IU2",
    cls=Array,
):
    if byte_ranges is None:
        byte_ranges = [(x * 10 + 5, (x + 1) * 10) for x in range(shape[0])]

    fs = fsspec.filesystem(protocol)
    dirfs = fsspec.filesystem("dir", path=path, fs=fs)

    return cls(
        fs=dirfs,
        url=url,
        byte_ranges=byte_ranges,
        shape=shape,
        dtype=dtype,
        type_code=type_code,
        records_per_chunk=records_per_chunk,
    )


class SubArray(Array):
    pass


class SubVariable(Variable):
    pass


class SubGroup(Group):
    pass


class Duck:
    """looks like a group, but is not one"""

    path = "/"
    url = None
    data = {}
    attrs = {}

    def __eq__(self, other):
        raise RuntimeError("must not be compared")

    __hash__ = None


# the same class names whether this file runs as a script or is imported by pytest
for _cls in (SubArray, SubVariable, SubGroup, Duck):
    _cls.__module__ = "equiv4"


def describe_exception(exc):
    cause, context = exc.__cause__, exc.__context__
    return (
        "raises",
        type(exc).__name__,
        str(exc),
        None if cause is None else (type(cause).__name__, str(cause)),
        None if context is None else (type(context).__name__, str(context)),
    )


def outcome(func, *args):
    try:
        result = func(*args)
    except BaseException as exc:  # noqa: B902
        return describe_exception(exc)
    return ("returns", type(result).__name__, result if isinstance(result, str) else repr(result))


def array_pairs():
    a = make_array
    return [
        ("identical", a(), a()),
        ("protocol", a(protocol="memory"), a(protocol="file")),
        ("path", a(path="/path/to1"), a(path="/path/to2")),
        ("protocol+path", a(protocol="file", path="/x"), a(protocol="memory", path="/y")),
        ("url", a(url="file1"), a(url="file2")),
        ("byte range first", a(byte_ranges=[(0, 1), (2, 3), (3, 4), (4, 5)]),
         a(byte_ranges=[(0, 2), (2, 3), (3, 4), (4, 5)])),
        ("byte range last", a(byte_ranges=[(0, 1), (2, 3), (3, 4), (4, 5)]),
         a(byte_ranges=[(0, 1), (2, 3), (3, 4), (4, 6)])),
        ("byte ranges several", a(byte_ranges=[(0, 1), (2, 3), (3, 4), (4, 5)]),
         a(byte_ranges=[(0, 2), (2, 3), (3, 5), (5, 6)])),
        ("byte ranges all", a(byte_ranges=[(0, 1), (1, 2)], shape=(2, 3)),
         a(byte_ranges=[(10, 11), (11, 12)], shape=(2, 3))),
        ("byte ranges right longer", a(byte_ranges=[(0, 1), (1, 2)]),
         a(byte_ranges=[(0, 1), (1, 2), (2, 3), (3, 4)])),
        ("byte ranges left longer", a(byte_ranges=[(0, 1), (1, 3), (3, 4)]),
         a(byte_ranges=[(0, 1), (1, 2)])),
        ("byte ranges left empty", a(byte_ranges=[]), a(byte_ranges=[(0, 1)])),
        ("byte ranges both empty", a(byte_ranges=[]), a(byte_ranges=[])),
        ("byte ranges tuple vs list", a(byte_ranges=[(0, 1), (1, 2)]),
         a(byte_ranges=((0, 1), (1, 2)))),
        ("byte ranges lists vs tuples", a(byte_ranges=[(0, 1), (1, 2)]),
         a(byte_ranges=[[0, 1], [1, 2]])),
        ("byte ranges float", a(byte_ranges=[(0, 1), (1, 2)]), a(byte_ranges=[(0.0, 1.0), (1, 2.5)])),
        ("shape", a(shape=(4, 3), byte_ranges=[]), a(shape=(6, 3), byte_ranges=[])),
        ("shape with default ranges", a(shape=(4, 3)), a(shape=(6, 3))),
        ("dtype", a(dtype="int8"), a(dtype="int16")),
        ("dtype str vs numpy", a(dtype="int16"), a(dtype=np.dtype("int16"))),
        ("type code", a(type_code="IU2"), a(type_code="C*8")),
        ("rpc", a(records_per_chunk=2), a(records_per_chunk=1)),
        ("rpc normalised", a(records_per_chunk=None), a(records_per_chunk=-1)),
        ("rpc equal after normalising", a(records_per_chunk=100), a(records_per_chunk=-1)),
        ("everything", a(protocol="file", path="/p", url="u", byte_ranges=[(0, 4)], shape=(1, 2),
                         dtype="int8", type_code="IU2", records_per_chunk=1),
         a(protocol="memory", path="/q", url="v", byte_ranges=[(1, 9), (9, 17)], shape=(2, 1),
           dtype="complex64", type_code="C*8", records_per_chunk=2)),
        ("url+rpc", a(url="a", records_per_chunk=1), a(url="b", records_per_chunk=3)),
        ("subclass identical", a(cls=SubArray), a(cls=SubArray)),
        ("subclass url", a(cls=SubArray, url="a"), a(cls=SubArray, url="b")),
        ("subclass vs base", a(cls=SubArray), a()),
        ("base vs subclass, byte ranges", a(byte_ranges=[(0, 1)]), a(cls=SubArray, byte_ranges=[(0, 2)])),
    ]


def other_pairs():
    return [
        ("numpy equal", np.array([1, 2], dtype="int8"), np.array([1, 2], dtype="int8")),
        ("numpy differing", np.array([1, 2], dtype="int8"), np.array([2, 3], dtype="int16")),
        ("numpy long", np.arange(10, dtype="int32"), np.arange(10, 0, -1, dtype="int32")),
        ("numpy 2d", np.zeros((2, 2)), np.ones((3, 1))),
        ("numpy empty", np.array([], dtype="float32"), np.array([1.5], dtype="float32")),
        ("numpy datetime", np.array(["2020-01-01"], dtype="M8[s]"), np.array([5], dtype="m8[ms]")),
        ("numpy vs array", np.array([1, 2], dtype="int8"), make_array()),
        ("array vs numpy", make_array(), np.array([1, 2], dtype="int8")),
        ("lists", [1, 2], [3, 4]),
        ("scalars", 1, 2.5),
        ("strings", "ab", "cd"),
        ("none", None, None),
    ]


def groups():
    var = Variable("x", np.array([1, 2], dtype="int8"), {"u": 1})
    arr_var = Variable(["rows", "columns"], make_array(), {})
    return {
        "empty": Group(path=None, url=None, data={}, attrs={}),
        "attrs": Group(path=None, url=None, data={}, attrs={"a": 1}),
        "path": Group(path="/other", url=None, data={}, attrs={}),
        "url": Group(path=None, url="memory://b", data={}, attrs={}),
        "vars": Group(path=None, url=None, data={"v": var}, attrs={}),
        "vars2": Group(path=None, url=None, data={"v": var, "w": arr_var}, attrs={}),
        "nested": Group(
            path=None,
            url=None,
            data={"g": Group(path=None, url=None, data={"v": var}, attrs={"n": 1}), "w": arr_var},
            attrs={},
        ),
        "nested2": Group(
            path=None,
            url=None,
            data={
                "g": Group(path=None, url=None, data={"v": var}, attrs={"n": 2}),
                "h": Group(path=None, url=None, data={}, attrs={}),
            },
            attrs={},
        ),
        "sub": SubGroup(path=None, url=None, data={}, attrs={}),
        "sub attrs": SubGroup(path=None, url=None, data={}, attrs={"a": 1}),
    }


def variables():
    return {
        "x": Variable("x", np.array([1], dtype="int8"), {}),
        "y": Variable("y", np.array([1], dtype="int8"), {}),
        "x data": Variable("x", np.array([2], dtype="int8"), {}),
        "x dtype": Variable("x", np.array([1, 2], dtype="int16"), {}),
        "x attrs": Variable("x", np.array([1], dtype="int8"), {"a": 1}),
        "x attrs2": Variable("x", np.array([1], dtype="int8"), {"a": 2, "b": 3}),
        "array": Variable(["rows", "columns"], make_array(), {}),
        "array url": Variable(["rows", "columns"], make_array(url="other"), {}),
        "array all": Variable(["r", "c"], make_array(url="other", dtype="int8"), {"a": 1}),
        "sub": SubVariable("x", np.array([1], dtype="int8"), {}),
        "sub data": SubVariable("x", np.array([3], dtype="int8"), {}),
    }


def assert_cases():
    cases = []
    g, v = groups(), variables()
    names_g, names_v = list(g), list(v)
    # every object against a fresh copy of itself and of its next three neighbours
    for index, left in enumerate(names_g):
        for step in range(4):
            right = names_g[(index + step) % len(names_g)]
            cases.append((f"group {left} / {right}", g[left], groups()[right]))
    for index, left in enumerate(names_v):
        for step in range(4):
            right = names_v[(index + step) % len(names_v)]
            cases.append((f"variable {left} / {right}", v[left], variables()[right]))
    for name, left, right in array_pairs():
        cases.append((f"array {name}", left, right))
    cases.extend(
        [
            ("group / variable", g["empty"], v["x"]),
            ("variable / group", v["x"], g["empty"]),
            ("array / variable", make_array(), v["array"]),
            ("variable / array", v["array"], make_array()),
            ("group / none", g["empty"], None),
            ("none / group", None, g["empty"]),
            ("none / none", None, None),
            ("int / int", 1, 1),
            ("int / int differing", 1, 2),
            ("int / bool", 1, True),
            ("str / str", "a", "a"),
            ("dict / dict", {"a": 1}, {"a": 1}),
            ("dict / group", {}, g["empty"]),
            ("numpy / numpy", np.array([1]), np.array([1])),
            ("numpy / array", np.array([1]), make_array()),
            ("duck / duck", Duck(), Duck()),
            ("duck / group", Duck(), g["empty"]),
            ("class / class", Group, Group),
            ("class / other class", Group, Variable),
        ]
    )
    return cases


def late_binding():
    """the diff functions are looked up when comparing, not when importing"""
    results = []
    saved = testing.diff_tree, testing.diff_variable, testing.diff_array
    testing.diff_tree = lambda a, b: "replaced tree diff"
    testing.diff_variable = lambda a, b: "replaced variable diff"
    testing.diff_array = lambda a, b: "replaced array diff"
    try:
        g, v = groups(), variables()
        results.append(outcome(testing.assert_identical, g["empty"], g["attrs"]))
        results.append(outcome(testing.assert_identical, v["x"], v["y"]))
        results.append(outcome(testing.assert_identical, make_array(url="a"), make_array(url="b")))
        results.append(outcome(testing.assert_identical, g["empty"], groups()["empty"]))
    finally:
        testing.diff_tree, testing.diff_variable, testing.diff_array = saved
    return results


def run():
    return {
        "diff_array": [
            (name, outcome(testing.diff_array, left, right))
            for name, left, right in array_pairs() + other_pairs()
        ],
        "diff_array swapped": [
            (name, outcome(testing.diff_array, right, left))
            for name, left, right in array_pairs() + other_pairs()
        ],
        "diff_data": [
            (name, outcome(testing.diff_data, left, right, "Data"))
            for name, left, right in array_pairs()[:12] + other_pairs()[:8]
        ],
        "assert_identical": [
            (name, outcome(testing.assert_identical, left, right))
            for name, left, right in assert_cases()
        ],
        "late binding": late_binding(),
    }


# recorded from the unchanged code (HEAD) with `python equiv.py --record`
EXPECTED = {'assert_identical': [('group empty / empty', ('returns', 'NoneType', 'None')),
                      ('group empty / attrs',
                       ('raises',
                        'AssertionError',
                        'Left and right Group objects are not equal\n'
                        '  Differing groups:\n'
                        '    Group /:\n'
                        '      Attributes:\n'
                        '        Missing left:\n'
                        '         - a',
                        None,
                        None)),
                      ('group empty / path',
                       ('raises',
                        'AssertionError',
                        'Left and right Group objects are not equal\n'
                        '  Differing tree structure:\n'
                        '    Missing left:\n'
                        '    - /other\n'
                        '    Missing right:\n'
                        '    - /',
                        None,
                        None)),
                      ('group empty / url',
                       ('raises',
                        'AssertionError',
                        'Left and right Group objects are not equal\n'
                        '  Differing groups:\n'
                        '    Group /:\n'
                        '      Differing Url:\n'
                        '      L  None\n'
                        '      R  memory://b',
                        None,
                        None)),
                      ('group attrs / attrs', ('returns', 'NoneType', 'None')),
                      ('group attrs / path',
                       ('raises',
                        'AssertionError',
                        'Left and right Group objects are not equal\n'
                        '  Differing tree structure:\n'
                        '    Missing left:\n'
                        '    - /other\n'
                        '    Missing right:\n'
                        '    - /',
                        None,
                        None)),
                      ('group attrs / url',
                       ('raises',
                        'AssertionError',
                        'Left and right Group objects are not equal\n'
                        '  Differing groups:\n'
                        '    Group /:\n'
                        '      Differing Url:\n'
                        '      L  None\n'
                        '      R  memory://b\n'
                        '      Attributes:\n'
                        '        Missing right:\n'
                        '         - a',
                        None,
                        None)),
                      ('group attrs / vars',
                       ('raises',
                        'AssertionError',
                        'Left and right Group objects are not equal\n'
                        '  Differing groups:\n'
                        '    Group /:\n'
                        '      Variables:\n'
                        '        Missing left:\n'
                        '         - v\n'
                        '      Attributes:\n'
                        '        Missing right:\n'
                        '         - a',
                        None,
                        None)),
                      ('group path / path', ('returns', 'NoneType', 'None')),
                      ('group path / url',
                       ('raises',
                        'AssertionError',
                        'Left and right Group objects are not equal\n'
                        '  Differing tree structure:\n'
                        '    Missing left:\n'
                        '    - /\n'
                        '    Missing right:\n'
                        '    - /other',
                        None,
                        None)),
                      ('group path / vars',
                       ('raises',
                        'AssertionError',
                        'Left and right Group objects are not equal\n'
                        '  Differing tree structure:\n'
                        '    Missing left:\n'
                        '    - /\n'
                        '    Missing right:\n'
                        '    - /other',
                        None,
                        None)),
                      ('group path / vars2',
                       ('raises',
                        'AssertionError',
                        'Left and right Group objects are not equal\n'
                        '  Differing tree structure:\n'
                        '    Missing left:\n'
                        '    - /\n'
                        '    Missing right:\n'
                        '    - /other',
                        None,
                        None)),
                      ('group url / url', ('returns', 'NoneType', 'None')),
                      ('group url / vars',
                       ('raises',
                        'AssertionError',
                        'Left and right Group objects are not equal\n'
                        '  Differing groups:\n'
                        '    Group /:\n'
                        '      Differing Url:\n'
                        '      L  memory://b\n'
                        '      R  None\n'
                        '      Variables:\n'
                        '        Missing left:\n'
                        '         - v',
                        None,
                        None)),
                      ('group url / vars2',
                       ('raises',
                        'AssertionError',
                        'Left and right Group objects are not equal\n'
                        '  Differing groups:\n'
                        '    Group /:\n'
                        '      Differing Url:\n'
                        '      L  memory://b\n'
                        '      R  None\n'
                        '      Variables:\n'
                        '        Missing left:\n'
                        '         - v\n'
                        '         - w',
                        None,
                        None)),
                      ('group url / nested',
                       ('raises',
                        'AssertionError',
                        'Left and right Group objects are not equal\n'
                        '  Differing tree structure:\n'
                        '    Missing left:\n'
                        '    - /g\n'
                        '  Differing groups:\n'
                        '    Group /:\n'
                        '      Differing Url:\n'
                        '      L  memory://b\n'
                        '      R  None\n'
                        '      Variables:\n'
                        '        Missing left:\n'
                        '         - w',
                        None,
                        None)),
                      ('group vars / vars', ('returns', 'NoneType', 'None')),
                      ('group vars / vars2',
                       ('raises',
                        'AssertionError',
                        'Left and right Group objects are not equal\n'
                        '  Differing groups:\n'
                        '    Group /:\n'
                        '      Variables:\n'
                        '        Missing left:\n'
                        '         - w',
                        None,
                        None)),
                      ('group vars / nested',
                       ('raises',
                        'AssertionError',
                        'Left and right Group objects are not equal\n'
                        '  Differing tree structure:\n'
                        '    Missing left:\n'
                        '    - /g\n'
                        '  Differing groups:\n'
                        '    Group /:\n'
                        '      Variables:\n'
                        '        Missing left:\n'
                        '         - w\n'
                        '        Missing right:\n'
                        '         - v',
                        None,
                        None)),
                      ('group vars / nested2',
                       ('raises',
                        'AssertionError',
                        'Left and right Group objects are not equal\n'
                        '  Differing tree structure:\n'
                        '    Missing left:\n'
                        '    - /g\n'
                        '    - /h\n'
                        '  Differing groups:\n'
                        '    Group /:\n'
                        '      Variables:\n'
                        '        Missing right:\n'
                        '         - v',
                        None,
                        None)),
                      ('group vars2 / vars2', ('returns', 'NoneType', 'None')),
                      ('group vars2 / nested',
                       ('raises',
                        'AssertionError',
                        'Left and right Group objects are not equal\n'
                        '  Differing tree structure:\n'
                        '    Missing left:\n'
                        '    - /g\n'
                        '  Differing groups:\n'
                        '    Group /:\n'
                        '      Variables:\n'
                        '        Missing right:\n'
                        '         - v',
                        None,
                        None)),
                      ('group vars2 / nested2',
                       ('raises',
                        'AssertionError',
                        'Left and right Group objects are not equal\n'
                        '  Differing tree structure:\n'
                        '    Missing left:\n'
                        '    - /g\n'
                        '    - /h\n'
                        '  Differing groups:\n'
                        '    Group /:\n'
                        '      Variables:\n'
                        '        Missing right:\n'
                        '         - v\n'
                        '         - w',
                        None,
                        None)),
                      ('group vars2 / sub',
                       ('raises',
                        'AssertionError',
                        "types mismatch: <class 'ceos_alos2.hierarchy.Group'> != <class 'equiv4.SubGroup'>",
                        None,
                        None)),
                      ('group nested / nested', ('returns', 'NoneType', 'None')),
                      ('group nested / nested2',
                       ('raises',
                        'AssertionError',
                        'Left and right Group objects are not equal\n'
                        '  Differing tree structure:\n'
                        '    Missing left:\n'
                        '    - /h\n'
                        '  Differing groups:\n'
                        '    Group /:\n'
                        '      Variables:\n'
                        '        Missing right:\n'
                        '         - w\n'
                        '    Group /g:\n'
                        '      Attributes:\n'
                        '        Differing attributes:\n'
                        '           L n  1\n'
                        '           R n  2',
                        None,
                        None)),
                      ('group nested / sub',
                       ('raises',
                        'AssertionError',
                        "types mismatch: <class 'ceos_alos2.hierarchy.Group'> != <class 'equiv4.SubGroup'>",
                        None,
                        None)),
                      ('group nested / sub attrs',
                       ('raises',
                        'AssertionError',
                        "types mismatch: <class 'ceos_alos2.hierarchy.Group'> != <class 'equiv4.SubGroup'>",
                        None,
                        None)),
                      ('group nested2 / nested2', ('returns', 'NoneType', 'None')),
                      ('group nested2 / sub',
                       ('raises',
                        'AssertionError',
                        "types mismatch: <class 'ceos_alos2.hierarchy.Group'> != <class 'equiv4.SubGroup'>",
                        None,
                        None)),
                      ('group nested2 / sub attrs',
                       ('raises',
                        'AssertionError',
                        "types mismatch: <class 'ceos_alos2.hierarchy.Group'> != <class 'equiv4.SubGroup'>",
                        None,
                        None)),
                      ('group nested2 / empty',
                       ('raises',
                        'AssertionError',
                        'Left and right Group objects are not equal\n'
                        '  Differing tree structure:\n'
                        '    Missing right:\n'
                        '    - /g\n'
                        '    - /h',
                        None,
                        None)),
                      ('group sub / sub', ('returns', 'NoneType', 'None')),
                      ('group sub / sub attrs',
                       ('raises',
                        'AssertionError',
                        'Left and right Group objects are not equal\n'
                        '  Differing groups:\n'
                        '    Group /:\n'
                        '      Attributes:\n'
                        '        Missing left:\n'
                        '         - a',
                        None,
                        None)),
                      ('group sub / empty',
                       ('raises',
                        'AssertionError',
                        "types mismatch: <class 'equiv4.SubGroup'> != <class 'ceos_alos2.hierarchy.Group'>",
                        None,
                        None)),
                      ('group sub / attrs',
                       ('raises',
                        'AssertionError',
                        "types mismatch: <class 'equiv4.SubGroup'> != <class 'ceos_alos2.hierarchy.Group'>",
                        None,
                        None)),
                      ('group sub attrs / sub attrs', ('returns', 'NoneType', 'None')),
                      ('group sub attrs / empty',
                       ('raises',
                        'AssertionError',
                        "types mismatch: <class 'equiv4.SubGroup'> != <class 'ceos_alos2.hierarchy.Group'>",
                        None,
                        None)),
                      ('group sub attrs / attrs',
                       ('raises',
                        'AssertionError',
                        "types mismatch: <class 'equiv4.SubGroup'> != <class 'ceos_alos2.hierarchy.Group'>",
                        None,
                        None)),
                      ('group sub attrs / path',
                       ('raises',
                        'AssertionError',
                        "types mismatch: <class 'equiv4.SubGroup'> != <class 'ceos_alos2.hierarchy.Group'>",
                        None,
                        None)),
                      ('variable x / x', ('returns', 'NoneType', 'None')),
                      ('variable x / y',
                       ('raises',
                        'AssertionError',
                        'Left and right Variable objects are not equal\n'
                        '  Differing dimensions:\n'
                        '    (x: 1) != (y: 1)',
                        None,
                        None)),
                      ('variable x / x data',
                       ('raises',
                        'AssertionError',
                        'Left and right Variable objects are not equal\n'
                        '  Differing data:\n'
                        '      L int8  1\n'
                        '      R int8  2',
                        None,
                        None)),
                      ('variable x / x dtype',
                       ('raises',
                        'AssertionError',
                        'Left and right Variable objects are not equal\n'
                        '  Differing data:\n'
                        '      L int8  1\n'
                        '      R int16  1 2',
                        None,
                        None)),
                      ('variable y / y', ('returns', 'NoneType', 'None')),
                      ('variable y / x data',
                       ('raises',
                        'AssertionError',
                        'Left and right Variable objects are not equal\n'
                        '  Differing dimensions:\n'
                        '    (y: 1) != (x: 1)\n'
                        '  Differing data:\n'
                        '      L int8  1\n'
                        '      R int8  2',
                        None,
                        None)),
                      ('variable y / x dtype',
                       ('raises',
                        'AssertionError',
                        'Left and right Variable objects are not equal\n'
                        '  Differing dimensions:\n'
                        '    (y: 1) != (x: 2)\n'
                        '  Differing data:\n'
                        '      L int8  1\n'
                        '      R int16  1 2',
                        None,
                        None)),
                      ('variable y / x attrs',
                       ('raises',
                        'AssertionError',
                        'Left and right Variable objects are not equal\n'
                        '  Differing dimensions:\n'
                        '    (y: 1) != (x: 1)\n'
                        '  Attributes:\n'
                        '    Missing left:\n'
                        '     - a',
                        None,
                        None)),
                      ('variable x data / x data', ('returns', 'NoneType', 'None')),
                      ('variable x data / x dtype',
                       ('raises',
                        'AssertionError',
                        'Left and right Variable objects are not equal\n'
                        '  Differing data:\n'
                        '      L int8  2\n'
                        '      R int16  1 2',
                        None,
                        None)),
                      ('variable x data / x attrs',
                       ('raises',
                        'AssertionError',
                        'Left and right Variable objects are not equal\n'
                        '  Differing data:\n'
                        '      L int8  2\n'
                        '      R int8  1\n'
                        '  Attributes:\n'
                        '    Missing left:\n'
                        '     - a',
                        None,
                        None)),
                      ('variable x data / x attrs2',
                       ('raises',
                        'AssertionError',
                        'Left and right Variable objects are not equal\n'
                        '  Differing data:\n'
                        '      L int8  2\n'
                        '      R int8  1\n'
                        '  Attributes:\n'
                        '    Missing left:\n'
                        '     - a\n'
                        '     - b',
                        None,
                        None)),
                      ('variable x dtype / x dtype', ('returns', 'NoneType', 'None')),
                      ('variable x dtype / x attrs',
                       ('raises',
                        'AssertionError',
                        'Left and right Variable objects are not equal\n'
                        '  Differing data:\n'
                        '      L int16  1 2\n'
                        '      R int8  1\n'
                        '  Attributes:\n'
                        '    Missing left:\n'
                        '     - a',
                        None,
                        None)),
                      ('variable x dtype / x attrs2',
                       ('raises',
                        'AssertionError',
                        'Left and right Variable objects are not equal\n'
                        '  Differing data:\n'
                        '      L int16  1 2\n'
                        '      R int8  1\n'
                        '  Attributes:\n'
                        '    Missing left:\n'
                        '     - a\n'
                        '     - b',
                        None,
                        None)),
                      ('variable x dtype / array',
                       ('raises',
                        'AssertionError',
                        'Left and right Variable objects are not equal\n'
                        '  Differing dimensions:\n'
                        '    (x: 2) != (rows: 4, columns: 3)\n'
                        '  Differing data types:\n'
                        "    L <class 'numpy.ndarray'>\n"
                        "    R <class 'ceos_alos2.array.Array'>",
                        None,
                        None)),
                      ('variable x attrs / x attrs', ('returns', 'NoneType', 'None')),
                      ('variable x attrs / x attrs2',
                       ('raises',
                        'AssertionError',
                        'Left and right Variable objects are not equal\n'
                        '  Attributes:\n'
                        '    Missing left:\n'
                        '     - b\n'
                        '    Differing attributes:\n'
                        '       L a  1\n'
                        '       R a  2',
                        None,
                        None)),
                      ('variable x attrs / array',
                       ('raises',
                        'AssertionError',
                        'Left and right Variable objects are not equal\n'
                        '  Differing dimensions:\n'
                        '    (x: 1) != (rows: 4, columns: 3)\n'
                        '  Differing data types:\n'
                        "    L <class 'numpy.ndarray'>\n"
                        "    R <class 'ceos_alos2.array.Array'>\n"
                        '  Attributes:\n'
                        '    Missing right:\n'
                        '     - a',
                        None,
                        None)),
                      ('variable x attrs / array url',
                       ('raises',
                        'AssertionError',
                        'Left and right Variable objects are not equal\n'
                        '  Differing dimensions:\n'
                        '    (x: 1) != (rows: 4, columns: 3)\n'
                        '  Differing data types:\n'
                        "    L <class 'numpy.ndarray'>\n"
                        "    R <class 'ceos_alos2.array.Array'>\n"
                        '  Attributes:\n'
                        '    Missing right:\n'
                        '     - a',
                        None,
                        None)),
                      ('variable x attrs2 / x attrs2', ('returns', 'NoneType', 'None')),
                      ('variable x attrs2 / array',
                       ('raises',
                        'AssertionError',
                        'Left and right Variable objects are not equal\n'
                        '  Differing dimensions:\n'
                        '    (x: 1) != (rows: 4, columns: 3)\n'
                        '  Differing data types:\n'
                        "    L <class 'numpy.ndarray'>\n"
                        "    R <class 'ceos_alos2.array.Array'>\n"
                        '  Attributes:\n'
                        '    Missing right:\n'
                        '     - a\n'
                        '     - b',
                        None,
                        None)),
                      ('variable x attrs2 / array url',
                       ('raises',
                        'AssertionError',
                        'Left and right Variable objects are not equal\n'
                        '  Differing dimensions:\n'
                        '    (x: 1) != (rows: 4, columns: 3)\n'
                        '  Differing data types:\n'
                        "    L <class 'numpy.ndarray'>\n"
                        "    R <class 'ceos_alos2.array.Array'>\n"
                        '  Attributes:\n'
                        '    Missing right:\n'
                        '     - a\n'
                        '     - b',
                        None,
                        None)),
                      ('variable x attrs2 / array all',
                       ('raises',
                        'AssertionError',
                        'Left and right Variable objects are not equal\n'
                        '  Differing dimensions:\n'
                        '    (x: 1) != (r: 4, c: 3)\n'
                        '  Differing data types:\n'
                        "    L <class 'numpy.ndarray'>\n"
                        "    R <class 'ceos_alos2.array.Array'>\n"
                        '  Attributes:\n'
                        '    Missing right:\n'
                        '     - b\n'
                        '    Differing attributes:\n'
                        '       L a  2\n'
                        '       R a  1',
                        None,
                        None)),
                      ('variable array / array', ('returns', 'NoneType', 'None')),
                      ('variable array / array url',
                       ('raises',
                        'AssertionError',
                        'Left and right Variable objects are not equal\n'
                        '  Differing data:\n'
                        '    Differing urls:\n'
                        '      L url  file\n'
                        '      R url  other',
                        None,
                        None)),
                      ('variable array / array all',
                       ('raises',
                        'AssertionError',
                        'Left and right Variable objects are not equal\n'
                        '  Differing dimensions:\n'
                        '    (rows: 4, columns: 3) != (r: 4, c: 3)\n'
                        '  Differing data:\n'
                        '    Differing urls:\n'
                        '      L url  file\n'
                        '      R url  other\n'
                        '    Differing dtypes:\n'
                        '      int16 != int8\n'
                        '  Attributes:\n'
                        '    Missing left:\n'
                        '     - a',
                        None,
                        None)),
                      ('variable array / sub',
                       ('raises',
                        'AssertionError',
                        "types mismatch: <class 'ceos_alos2.hierarchy.Variable'> != <class "
                        "'equiv4.SubVariable'>",
                        None,
                        None)),
                      ('variable array url / array url', ('returns', 'NoneType', 'None')),
                      ('variable array url / array all',
                       ('raises',
                        'AssertionError',
                        'Left and right Variable objects are not equal\n'
                        '  Differing dimensions:\n'
                        '    (rows: 4, columns: 3) != (r: 4, c: 3)\n'
                        '  Differing data:\n'
                        '    Differing dtypes:\n'
                        '      int16 != int8\n'
                        '  Attributes:\n'
                        '    Missing left:\n'
                        '     - a',
                        None,
                        None)),
                      ('variable array url / sub',
                       ('raises',
                        'AssertionError',
                        "types mismatch: <class 'ceos_alos2.hierarchy.Variable'> != <class "
                        "'equiv4.SubVariable'>",
                        None,
                        None)),
                      ('variable array url / sub data',
                       ('raises',
                        'AssertionError',
                        "types mismatch: <class 'ceos_alos2.hierarchy.Variable'> != <class "
                        "'equiv4.SubVariable'>",
                        None,
                        None)),
                      ('variable array all / array all', ('returns', 'NoneType', 'None')),
                      ('variable array all / sub',
                       ('raises',
                        'AssertionError',
                        "types mismatch: <class 'ceos_alos2.hierarchy.Variable'> != <class "
                        "'equiv4.SubVariable'>",
                        None,
                        None)),
                      ('variable array all / sub data',
                       ('raises',
                        'AssertionError',
                        "types mismatch: <class 'ceos_alos2.hierarchy.Variable'> != <class "
                        "'equiv4.SubVariable'>",
                        None,
                        None)),
                      ('variable array all / x',
                       ('raises',
                        'AssertionError',
                        'Left and right Variable objects are not equal\n'
                        '  Differing dimensions:\n'
                        '    (r: 4, c: 3) != (x: 1)\n'
                        '  Differing data types:\n'
                        "    L <class 'ceos_alos2.array.Array'>\n"
                        "    R <class 'numpy.ndarray'>\n"
                        '  Attributes:\n'
                        '    Missing right:\n'
                        '     - a',
                        None,
                        None)),
                      ('variable sub / sub', ('returns', 'NoneType', 'None')),
                      ('variable sub / sub data',
                       ('raises',
                        'AssertionError',
                        'Left and right Variable objects are not equal\n'
                        '  Differing data:\n'
                        '      L int8  1\n'
                        '      R int8  3',
                        None,
                        None)),
                      ('variable sub / x',
                       ('raises',
                        'AssertionError',
                        "types mismatch: <class 'equiv4.SubVariable'> != <class "
                        "'ceos_alos2.hierarchy.Variable'>",
                        None,
                        None)),
                      ('variable sub / y',
                       ('raises',
                        'AssertionError',
                        "types mismatch: <class 'equiv4.SubVariable'> != <class "
                        "'ceos_alos2.hierarchy.Variable'>",
                        None,
                        None)),
                      ('variable sub data / sub data', ('returns', 'NoneType', 'None')),
                      ('variable sub data / x',
                       ('raises',
                        'AssertionError',
                        "types mismatch: <class 'equiv4.SubVariable'> != <class "
                        "'ceos_alos2.hierarchy.Variable'>",
                        None,
                        None)),
                      ('variable sub data / y',
                       ('raises',
                        'AssertionError',
                        "types mismatch: <class 'equiv4.SubVariable'> != <class "
                        "'ceos_alos2.hierarchy.Variable'>",
                        None,
                        None)),
                      ('variable sub data / x data',
                       ('raises',
                        'AssertionError',
                        "types mismatch: <class 'equiv4.SubVariable'> != <class "
                        "'ceos_alos2.hierarchy.Variable'>",
                        None,
                        None)),
                      ('array identical', ('returns', 'NoneType', 'None')),
                      ('array protocol',
                       ('raises',
                        'AssertionError',
                        "Differing filesystem:\n  L protocol  memory\n  R protocol  ('file', 'local')",
                        None,
                        None)),
                      ('array path',
                       ('raises',
                        'AssertionError',
                        'Differing filesystem:\n  L path  /path/to1\n  R path  /path/to2',
                        None,
                        None)),
                      ('array protocol+path',
                       ('raises',
                        'AssertionError',
                        'Differing filesystem:\n'
                        "  L protocol  ('file', 'local')\n"
                        '  R protocol  memory\n'
                        '  L path  /x\n'
                        '  R path  /y',
                        None,
                        None)),
                      ('array url',
                       ('raises',
                        'AssertionError',
                        'Differing urls:\n  L url  file1\n  R url  file2',
                        None,
                        None)),
                      ('array byte range first',
                       ('raises',
                        'AssertionError',
                        'Differing byte ranges:\n  L line 1  (0, 1)\n  R line 1  (0, 2)',
                        None,
                        None)),
                      ('array byte range last',
                       ('raises',
                        'AssertionError',
                        'Differing byte ranges:\n  L line 4  (4, 5)\n  R line 4  (4, 6)',
                        None,
                        None)),
                      ('array byte ranges several',
                       ('raises',
                        'AssertionError',
                        'Differing byte ranges:\n'
                        '  L line 1  (0, 1)\n'
                        '  R line 1  (0, 2)\n'
                        '  L line 3  (3, 4)\n'
                        '  R line 3  (3, 5)\n'
                        '  L line 4  (4, 5)\n'
                        '  R line 4  (5, 6)',
                        None,
                        None)),
                      ('array byte ranges all',
                       ('raises',
                        'AssertionError',
                        'Differing byte ranges:\n'
                        '  L line 1  (0, 1)\n'
                        '  R line 1  (10, 11)\n'
                        '  L line 2  (1, 2)\n'
                        '  R line 2  (11, 12)',
                        None,
                        None)),
                      ('array byte ranges right longer',
                       ('raises',
                        'AssertionError',
                        'Differing byte ranges:\n'
                        '  L line 3  None\n'
                        '  R line 3  (2, 3)\n'
                        '  L line 4  None\n'
                        '  R line 4  (3, 4)',
                        None,
                        None)),
                      ('array byte ranges left longer',
                       ('raises',
                        'AssertionError',
                        'Differing byte ranges:\n'
                        '  L line 2  (1, 3)\n'
                        '  R line 2  (1, 2)\n'
                        '  L line 3  (3, 4)\n'
                        '  R line 3  None',
                        None,
                        None)),
                      ('array byte ranges left empty',
                       ('raises',
                        'AssertionError',
                        'Differing byte ranges:\n  L line 1  None\n  R line 1  (0, 1)',
                        None,
                        None)),
                      ('array byte ranges both empty', ('returns', 'NoneType', 'None')),
                      ('array byte ranges tuple vs list',
                       ('raises', 'AssertionError', 'Differing byte ranges:', None, None)),
                      ('array byte ranges lists vs tuples',
                       ('raises',
                        'AssertionError',
                        'Differing byte ranges:\n'
                        '  L line 1  (0, 1)\n'
                        '  R line 1  [0, 1]\n'
                        '  L line 2  (1, 2)\n'
                        '  R line 2  [1, 2]',
                        None,
                        None)),
                      ('array byte ranges float',
                       ('raises',
                        'AssertionError',
                        'Differing byte ranges:\n  L line 2  (1, 2)\n  R line 2  (1, 2.5)',
                        None,
                        None)),
                      ('array shape',
                       ('raises', 'AssertionError', 'Differing shapes:\n  (4, 3) != (6, 3)', None, None)),
                      ('array shape with default ranges',
                       ('raises',
                        'AssertionError',
                        'Differing byte ranges:\n'
                        '  L line 5  None\n'
                        '  R line 5  (45, 50)\n'
                        '  L line 6  None\n'
                        '  R line 6  (55, 60)\n'
                        'Differing shapes:\n'
                        '  (4, 3) != (6, 3)',
                        None,
                        None)),
                      ('array dtype',
                       ('raises', 'AssertionError', 'Differing dtypes:\n  int8 != int16', None, None)),
                      ('array dtype str vs numpy', ('returns', 'NoneType', 'None')),
                      ('array type code',
                       ('raises',
                        'AssertionError',
                        'Differing type code:\n  L type_code  IU2\n  R type_code  C*8',
                        None,
                        None)),
                      ('array rpc',
                       ('raises',
                        'AssertionError',
                        'Differing chunksizes:\n  L records_per_chunk  2\n  R records_per_chunk  1',
                        None,
                        None)),
                      ('array rpc normalised',
                       ('raises',
                        'AssertionError',
                        'Differing chunksizes:\n  L records_per_chunk  1024\n  R records_per_chunk  4',
                        None,
                        None)),
                      ('array rpc equal after normalising', ('returns', 'NoneType', 'None')),
                      ('array everything',
                       ('raises',
                        'AssertionError',
                        'Differing filesystem:\n'
                        "  L protocol  ('file', 'local')\n"
                        '  R protocol  memory\n'
                        '  L path  /p\n'
                        '  R path  /q\n'
                        'Differing urls:\n'
                        '  L url  u\n'
                        '  R url  v\n'
                        'Differing byte ranges:\n'
                        '  L line 1  (0, 4)\n'
                        '  R line 1  (1, 9)\n'
                        '  L line 2  None\n'
                        '  R line 2  (9, 17)\n'
                        'Differing shapes:\n'
                        '  (1, 2) != (2, 1)\n'
                        'Differing dtypes:\n'
                        '  int8 != complex64\n'
                        'Differing type code:\n'
                        '  L type_code  IU2\n'
                        '  R type_code  C*8\n'
                        'Differing chunksizes:\n'
                        '  L records_per_chunk  1\n'
                        '  R records_per_chunk  2',
                        None,
                        None)),
                      ('array url+rpc',
                       ('raises',
                        'AssertionError',
                        'Differing urls:\n'
                        '  L url  a\n'
                        '  R url  b\n'
                        'Differing chunksizes:\n'
                        '  L records_per_chunk  1\n'
                        '  R records_per_chunk  3',
                        None,
                        None)),
                      ('array subclass identical', ('returns', 'NoneType', 'None')),
                      ('array subclass url',
                       ('raises', 'AssertionError', 'Differing urls:\n  L url  a\n  R url  b', None, None)),
                      ('array subclass vs base',
                       ('raises',
                        'AssertionError',
                        "types mismatch: <class 'equiv4.SubArray'> != <class 'ceos_alos2.array.Array'>",
                        None,
                        None)),
                      ('array base vs subclass, byte ranges',
                       ('raises',
                        'AssertionError',
                        "types mismatch: <class 'ceos_alos2.array.Array'> != <class 'equiv4.SubArray'>",
                        None,
                        None)),
                      ('group / variable',
                       ('raises',
                        'AssertionError',
                        "types mismatch: <class 'ceos_alos2.hierarchy.Group'> != <class "
                        "'ceos_alos2.hierarchy.Variable'>",
                        None,
                        None)),
                      ('variable / group',
                       ('raises',
                        'AssertionError',
                        "types mismatch: <class 'ceos_alos2.hierarchy.Variable'> != <class "
                        "'ceos_alos2.hierarchy.Group'>",
                        None,
                        None)),
                      ('array / variable',
                       ('raises',
                        'AssertionError',
                        "types mismatch: <class 'ceos_alos2.array.Array'> != <class "
                        "'ceos_alos2.hierarchy.Variable'>",
                        None,
                        None)),
                      ('variable / array',
                       ('raises',
                        'AssertionError',
                        "types mismatch: <class 'ceos_alos2.hierarchy.Variable'> != <class "
                        "'ceos_alos2.array.Array'>",
                        None,
                        None)),
                      ('group / none',
                       ('raises',
                        'AssertionError',
                        "types mismatch: <class 'ceos_alos2.hierarchy.Group'> != <class 'NoneType'>",
                        None,
                        None)),
                      ('none / group',
                       ('raises',
                        'AssertionError',
                        "types mismatch: <class 'NoneType'> != <class 'ceos_alos2.hierarchy.Group'>",
                        None,
                        None)),
                      ('none / none',
                       ('raises',
                        'TypeError',
                        'can only compare Group and Variable and Array objects',
                        None,
                        None)),
                      ('int / int',
                       ('raises',
                        'TypeError',
                        'can only compare Group and Variable and Array objects',
                        None,
                        None)),
                      ('int / int differing',
                       ('raises',
                        'TypeError',
                        'can only compare Group and Variable and Array objects',
                        None,
                        None)),
                      ('int / bool',
                       ('raises',
                        'AssertionError',
                        "types mismatch: <class 'int'> != <class 'bool'>",
                        None,
                        None)),
                      ('str / str',
                       ('raises',
                        'TypeError',
                        'can only compare Group and Variable and Array objects',
                        None,
                        None)),
                      ('dict / dict',
                       ('raises',
                        'TypeError',
                        'can only compare Group and Variable and Array objects',
                        None,
                        None)),
                      ('dict / group',
                       ('raises',
                        'AssertionError',
                        "types mismatch: <class 'dict'> != <class 'ceos_alos2.hierarchy.Group'>",
                        None,
                        None)),
                      ('numpy / numpy',
                       ('raises',
                        'TypeError',
                        'can only compare Group and Variable and Array objects',
                        None,
                        None)),
                      ('numpy / array',
                       ('raises',
                        'AssertionError',
                        "types mismatch: <class 'numpy.ndarray'> != <class 'ceos_alos2.array.Array'>",
                        None,
                        None)),
                      ('duck / duck',
                       ('raises',
                        'TypeError',
                        'can only compare Group and Variable and Array objects',
                        None,
                        None)),
                      ('duck / group',
                       ('raises',
                        'AssertionError',
                        "types mismatch: <class 'equiv4.Duck'> != <class 'ceos_alos2.hierarchy.Group'>",
                        None,
                        None)),
                      ('class / class',
                       ('raises',
                        'TypeError',
                        'can only compare Group and Variable and Array objects',
                        None,
                        None)),
                      ('class / other class',
                       ('raises',
                        'AssertionError',
                        "types mismatch: <class 'abc.ABCMeta'> != <class 'type'>",
                        None,
                        None))],
 'diff_array': [('identical', ('returns', 'str', '')),
                ('protocol',
                 ('returns',
                  'str',
                  "Differing filesystem:\n  L protocol  memory\n  R protocol  ('file', 'local')")),
                ('path',
                 ('returns', 'str', 'Differing filesystem:\n  L path  /path/to1\n  R path  /path/to2')),
                ('protocol+path',
                 ('returns',
                  'str',
                  'Differing filesystem:\n'
                  "  L protocol  ('file', 'local')\n"
                  '  R protocol  memory\n'
                  '  L path  /x\n'
                  '  R path  /y')),
                ('url', ('returns', 'str', 'Differing urls:\n  L url  file1\n  R url  file2')),
                ('byte range first',
                 ('returns', 'str', 'Differing byte ranges:\n  L line 1  (0, 1)\n  R line 1  (0, 2)')),
                ('byte range last',
                 ('returns', 'str', 'Differing byte ranges:\n  L line 4  (4, 5)\n  R line 4  (4, 6)')),
                ('byte ranges several',
                 ('returns',
                  'str',
                  'Differing byte ranges:\n'
                  '  L line 1  (0, 1)\n'
                  '  R line 1  (0, 2)\n'
                  '  L line 3  (3, 4)\n'
                  '  R line 3  (3, 5)\n'
                  '  L line 4  (4, 5)\n'
                  '  R line 4  (5, 6)')),
                ('byte ranges all',
                 ('returns',
                  'str',
                  'Differing byte ranges:\n'
                  '  L line 1  (0, 1)\n'
                  '  R line 1  (10, 11)\n'
                  '  L line 2  (1, 2)\n'
                  '  R line 2  (11, 12)')),
                ('byte ranges right longer',
                 ('returns',
                  'str',
                  'Differing byte ranges:\n'
                  '  L line 3  None\n'
                  '  R line 3  (2, 3)\n'
                  '  L line 4  None\n'
                  '  R line 4  (3, 4)')),
                ('byte ranges left longer',
                 ('returns',
                  'str',
                  'Differing byte ranges:\n'
                  '  L line 2  (1, 3)\n'
                  '  R line 2  (1, 2)\n'
                  '  L line 3  (3, 4)\n'
                  '  R line 3  None')),
                ('byte ranges left empty',
                 ('returns', 'str', 'Differing byte ranges:\n  L line 1  None\n  R line 1  (0, 1)')),
                ('byte ranges both empty', ('returns', 'str', '')),
                ('byte ranges tuple vs list', ('returns', 'str', 'Differing byte ranges:')),
                ('byte ranges lists vs tuples',
                 ('returns',
                  'str',
                  'Differing byte ranges:\n'
                  '  L line 1  (0, 1)\n'
                  '  R line 1  [0, 1]\n'
                  '  L line 2  (1, 2)\n'
                  '  R line 2  [1, 2]')),
                ('byte ranges float',
                 ('returns', 'str', 'Differing byte ranges:\n  L line 2  (1, 2)\n  R line 2  (1, 2.5)')),
                ('shape', ('returns', 'str', 'Differing shapes:\n  (4, 3) != (6, 3)')),
                ('shape with default ranges',
                 ('returns',
                  'str',
                  'Differing byte ranges:\n'
                  '  L line 5  None\n'
                  '  R line 5  (45, 50)\n'
                  '  L line 6  None\n'
                  '  R line 6  (55, 60)\n'
                  'Differing shapes:\n'
                  '  (4, 3) != (6, 3)')),
                ('dtype', ('returns', 'str', 'Differing dtypes:\n  int8 != int16')),
                ('dtype str vs numpy', ('returns', 'str', '')),
                ('type code',
                 ('returns', 'str', 'Differing type code:\n  L type_code  IU2\n  R type_code  C*8')),
                ('rpc',
                 ('returns',
                  'str',
                  'Differing chunksizes:\n  L records_per_chunk  2\n  R records_per_chunk  1')),
                ('rpc normalised',
                 ('returns',
                  'str',
                  'Differing chunksizes:\n  L records_per_chunk  1024\n  R records_per_chunk  4')),
                ('rpc equal after normalising', ('returns', 'str', '')),
                ('everything',
                 ('returns',
                  'str',
                  'Differing filesystem:\n'
                  "  L protocol  ('file', 'local')\n"
                  '  R protocol  memory\n'
                  '  L path  /p\n'
                  '  R path  /q\n'
                  'Differing urls:\n'
                  '  L url  u\n'
                  '  R url  v\n'
                  'Differing byte ranges:\n'
                  '  L line 1  (0, 4)\n'
                  '  R line 1  (1, 9)\n'
                  '  L line 2  None\n'
                  '  R line 2  (9, 17)\n'
                  'Differing shapes:\n'
                  '  (1, 2) != (2, 1)\n'
                  'Differing dtypes:\n'
                  '  int8 != complex64\n'
                  'Differing type code:\n'
                  '  L type_code  IU2\n'
                  '  R type_code  C*8\n'
                  'Differing chunksizes:\n'
                  '  L records_per_chunk  1\n'
                  '  R records_per_chunk  2')),
                ('url+rpc',
                 ('returns',
                  'str',
                  'Differing urls:\n'
                  '  L url  a\n'
                  '  R url  b\n'
                  'Differing chunksizes:\n'
                  '  L records_per_chunk  1\n'
                  '  R records_per_chunk  3')),
                ('subclass identical', ('returns', 'str', '')),
                ('subclass url', ('returns', 'str', 'Differing urls:\n  L url  a\n  R url  b')),
                ('subclass vs base', ('returns', 'str', '')),
                ('base vs subclass, byte ranges',
                 ('returns', 'str', 'Differing byte ranges:\n  L line 1  (0, 1)\n  R line 1  (0, 2)')),
                ('numpy equal', ('returns', 'str', '  L int8  1 2\n  R int8  1 2')),
                ('numpy differing', ('returns', 'str', '  L int8  1 2\n  R int16  2 3')),
                ('numpy long', ('returns', 'str', '  L int32  0 1 2 ... 8 9\n  R int32  10 9 8 ... 2 1')),
                ('numpy 2d', ('returns', 'str', '  L float64  0.0 0.0 0.0 0.0\n  R float64  1.0 1.0 1.0')),
                ('numpy empty', ('returns', 'str', '  L float32  \n  R float32  1.5')),
                ('numpy datetime',
                 ('returns',
                  'str',
                  '  L datetime64[s]  2020-01-01T00:00:00\n  R timedelta64[ms]  5 milliseconds')),
                ('numpy vs array',
                 ('returns',
                  'str',
                  '  L int8  1 2\n'
                  '  R Array(shape=(4, 3), dtype=int16, rpc=2)\n'
                  '    url: memory:///path/to/file')),
                ('array vs numpy',
                 ('raises', 'AttributeError', "'numpy.ndarray' object has no attribute 'fs'", None, None)),
                ('lists', ('returns', 'str', '  L int64  1 2\n  R int64  3 4')),
                ('scalars', ('returns', 'str', '  L int64  1\n  R float64  2.5')),
                ('strings', ('returns', 'str', "  L <U2  'ab'\n  R <U2  'cd'")),
                ('none',
                 ('raises', 'AttributeError', "'NoneType' object has no attribute 'dtype'", None, None))],
 'diff_array swapped': [('identical', ('returns', 'str', '')),
                        ('protocol',
                         ('returns',
                          'str',
                          "Differing filesystem:\n  L protocol  ('file', 'local')\n  R protocol  memory")),
                        ('path',
                         ('returns',
                          'str',
                          'Differing filesystem:\n  L path  /path/to2\n  R path  /path/to1')),
                        ('protocol+path',
                         ('returns',
                          'str',
                          'Differing filesystem:\n'
                          '  L protocol  memory\n'
                          "  R protocol  ('file', 'local')\n"
                          '  L path  /y\n'
                          '  R path  /x')),
                        ('url', ('returns', 'str', 'Differing urls:\n  L url  file2\n  R url  file1')),
                        ('byte range first',
                         ('returns',
                          'str',
                          'Differing byte ranges:\n  L line 1  (0, 2)\n  R line 1  (0, 1)')),
                        ('byte range last',
                         ('returns',
                          'str',
                          'Differing byte ranges:\n  L line 4  (4, 6)\n  R line 4  (4, 5)')),
                        ('byte ranges several',
                         ('returns',
                          'str',
                          'Differing byte ranges:\n'
                          '  L line 1  (0, 2)\n'
                          '  R line 1  (0, 1)\n'
                          '  L line 3  (3, 5)\n'
                          '  R line 3  (3, 4)\n'
                          '  L line 4  (5, 6)\n'
                          '  R line 4  (4, 5)')),
                        ('byte ranges all',
                         ('returns',
                          'str',
                          'Differing byte ranges:\n'
                          '  L line 1  (10, 11)\n'
                          '  R line 1  (0, 1)\n'
                          '  L line 2  (11, 12)\n'
                          '  R line 2  (1, 2)')),
                        ('byte ranges right longer',
                         ('returns',
                          'str',
                          'Differing byte ranges:\n'
                          '  L line 3  (2, 3)\n'
                          '  R line 3  None\n'
                          '  L line 4  (3, 4)\n'
                          '  R line 4  None')),
                        ('byte ranges left longer',
                         ('returns',
                          'str',
                          'Differing byte ranges:\n'
                          '  L line 2  (1, 2)\n'
                          '  R line 2  (1, 3)\n'
                          '  L line 3  None\n'
                          '  R line 3  (3, 4)')),
                        ('byte ranges left empty',
                         ('returns', 'str', 'Differing byte ranges:\n  L line 1  (0, 1)\n  R line 1  None')),
                        ('byte ranges both empty', ('returns', 'str', '')),
                        ('byte ranges tuple vs list', ('returns', 'str', 'Differing byte ranges:')),
                        ('byte ranges lists vs tuples',
                         ('returns',
                          'str',
                          'Differing byte ranges:\n'
                          '  L line 1  [0, 1]\n'
                          '  R line 1  (0, 1)\n'
                          '  L line 2  [1, 2]\n'
                          '  R line 2  (1, 2)')),
                        ('byte ranges float',
                         ('returns',
                          'str',
                          'Differing byte ranges:\n  L line 2  (1, 2.5)\n  R line 2  (1, 2)')),
                        ('shape', ('returns', 'str', 'Differing shapes:\n  (6, 3) != (4, 3)')),
                        ('shape with default ranges',
                         ('returns',
                          'str',
                          'Differing byte ranges:\n'
                          '  L line 5  (45, 50)\n'
                          '  R line 5  None\n'
                          '  L line 6  (55, 60)\n'
                          '  R line 6  None\n'
                          'Differing shapes:\n'
                          '  (6, 3) != (4, 3)')),
                        ('dtype', ('returns', 'str', 'Differing dtypes:\n  int16 != int8')),
                        ('dtype str vs numpy', ('returns', 'str', '')),
                        ('type code',
                         ('returns', 'str', 'Differing type code:\n  L type_code  C*8\n  R type_code  IU2')),
                        ('rpc',
                         ('returns',
                          'str',
                          'Differing chunksizes:\n  L records_per_chunk  1\n  R records_per_chunk  2')),
                        ('rpc normalised',
                         ('returns',
                          'str',
                          'Differing chunksizes:\n  L records_per_chunk  4\n  R records_per_chunk  1024')),
                        ('rpc equal after normalising', ('returns', 'str', '')),
                        ('everything',
                         ('returns',
                          'str',
                          'Differing filesystem:\n'
                          '  L protocol  memory\n'
                          "  R protocol  ('file', 'local')\n"
                          '  L path  /q\n'
                          '  R path  /p\n'
                          'Differing urls:\n'
                          '  L url  v\n'
                          '  R url  u\n'
                          'Differing byte ranges:\n'
                          '  L line 1  (1, 9)\n'
                          '  R line 1  (0, 4)\n'
                          '  L line 2  (9, 17)\n'
                          '  R line 2  None\n'
                          'Differing shapes:\n'
                          '  (2, 1) != (1, 2)\n'
                          'Differing dtypes:\n'
                          '  complex64 != int8\n'
                          'Differing type code:\n'
                          '  L type_code  C*8\n'
                          '  R type_code  IU2\n'
                          'Differing chunksizes:\n'
                          '  L records_per_chunk  2\n'
                          '  R records_per_chunk  1')),
                        ('url+rpc',
                         ('returns',
                          'str',
                          'Differing urls:\n'
                          '  L url  b\n'
                          '  R url  a\n'
                          'Differing chunksizes:\n'
                          '  L records_per_chunk  3\n'
                          '  R records_per_chunk  1')),
                        ('subclass identical', ('returns', 'str', '')),
                        ('subclass url', ('returns', 'str', 'Differing urls:\n  L url  b\n  R url  a')),
                        ('subclass vs base', ('returns', 'str', '')),
                        ('base vs subclass, byte ranges',
                         ('returns',
                          'str',
                          'Differing byte ranges:\n  L line 1  (0, 2)\n  R line 1  (0, 1)')),
                        ('numpy equal', ('returns', 'str', '  L int8  1 2\n  R int8  1 2')),
                        ('numpy differing', ('returns', 'str', '  L int16  2 3\n  R int8  1 2')),
                        ('numpy long',
                         ('returns', 'str', '  L int32  10 9 8 ... 2 1\n  R int32  0 1 2 ... 8 9')),
                        ('numpy 2d',
                         ('returns', 'str', '  L float64  1.0 1.0 1.0\n  R float64  0.0 0.0 0.0 0.0')),
                        ('numpy empty', ('returns', 'str', '  L float32  1.5\n  R float32  ')),
                        ('numpy datetime',
                         ('returns',
                          'str',
                          '  L timedelta64[ms]  5 milliseconds\n  R datetime64[s]  2020-01-01T00:00:00')),
                        ('numpy vs array',
                         ('raises',
                          'AttributeError',
                          "'numpy.ndarray' object has no attribute 'fs'",
                          None,
                          None)),
                        ('array vs numpy',
                         ('returns',
                          'str',
                          '  L int8  1 2\n'
                          '  R Array(shape=(4, 3), dtype=int16, rpc=2)\n'
                          '    url: memory:///path/to/file')),
                        ('lists', ('returns', 'str', '  L int64  3 4\n  R int64  1 2')),
                        ('scalars', ('returns', 'str', '  L float64  2.5\n  R int64  1')),
                        ('strings', ('returns', 'str', "  L <U2  'cd'\n  R <U2  'ab'")),
                        ('none',
                         ('raises',
                          'AttributeError',
                          "'NoneType' object has no attribute 'dtype'",
                          None,
                          None))],
 'diff_data': [('identical', ('returns', 'str', 'Differing data:\n')),
               ('protocol',
                ('returns',
                 'str',
                 'Differing data:\n'
                 '  Differing filesystem:\n'
                 '    L protocol  memory\n'
                 "    R protocol  ('file', 'local')")),
               ('path',
                ('returns',
                 'str',
                 'Differing data:\n  Differing filesystem:\n    L path  /path/to1\n    R path  /path/to2')),
               ('protocol+path',
                ('returns',
                 'str',
                 'Differing data:\n'
                 '  Differing filesystem:\n'
                 "    L protocol  ('file', 'local')\n"
                 '    R protocol  memory\n'
                 '    L path  /x\n'
                 '    R path  /y')),
               ('url',
                ('returns', 'str', 'Differing data:\n  Differing urls:\n    L url  file1\n    R url  file2')),
               ('byte range first',
                ('returns',
                 'str',
                 'Differing data:\n  Differing byte ranges:\n    L line 1  (0, 1)\n    R line 1  (0, 2)')),
               ('byte range last',
                ('returns',
                 'str',
                 'Differing data:\n  Differing byte ranges:\n    L line 4  (4, 5)\n    R line 4  (4, 6)')),
               ('byte ranges several',
                ('returns',
                 'str',
                 'Differing data:\n'
                 '  Differing byte ranges:\n'
                 '    L line 1  (0, 1)\n'
                 '    R line 1  (0, 2)\n'
                 '    L line 3  (3, 4)\n'
                 '    R line 3  (3, 5)\n'
                 '    L line 4  (4, 5)\n'
                 '    R line 4  (5, 6)')),
               ('byte ranges all',
                ('returns',
                 'str',
                 'Differing data:\n'
                 '  Differing byte ranges:\n'
                 '    L line 1  (0, 1)\n'
                 '    R line 1  (10, 11)\n'
                 '    L line 2  (1, 2)\n'
                 '    R line 2  (11, 12)')),
               ('byte ranges right longer',
                ('returns',
                 'str',
                 'Differing data:\n'
                 '  Differing byte ranges:\n'
                 '    L line 3  None\n'
                 '    R line 3  (2, 3)\n'
                 '    L line 4  None\n'
                 '    R line 4  (3, 4)')),
               ('byte ranges left longer',
                ('returns',
                 'str',
                 'Differing data:\n'
                 '  Differing byte ranges:\n'
                 '    L line 2  (1, 3)\n'
                 '    R line 2  (1, 2)\n'
                 '    L line 3  (3, 4)\n'
                 '    R line 3  None')),
               ('byte ranges left empty',
                ('returns',
                 'str',
                 'Differing data:\n  Differing byte ranges:\n    L line 1  None\n    R line 1  (0, 1)')),
               ('numpy equal', ('returns', 'str', 'Differing data:\n    L int8  1 2\n    R int8  1 2')),
               ('numpy differing', ('returns', 'str', 'Differing data:\n    L int8  1 2\n    R int16  2 3')),
               ('numpy long',
                ('returns',
                 'str',
                 'Differing data:\n    L int32  0 1 2 ... 8 9\n    R int32  10 9 8 ... 2 1')),
               ('numpy 2d',
                ('returns',
                 'str',
                 'Differing data:\n    L float64  0.0 0.0 0.0 0.0\n    R float64  1.0 1.0 1.0')),
               ('numpy empty', ('returns', 'str', 'Differing data:\n    L float32  \n    R float32  1.5')),
               ('numpy datetime',
                ('returns',
                 'str',
                 'Differing data:\n'
                 '    L datetime64[s]  2020-01-01T00:00:00\n'
                 '    R timedelta64[ms]  5 milliseconds')),
               ('numpy vs array',
                ('returns',
                 'str',
                 "Differing data types:\n  L <class 'numpy.ndarray'>\n  R <class 'ceos_alos2.array.Array'>")),
               ('array vs numpy',
                ('returns',
                 'str',
                 'Differing data types:\n'
                 "  L <class 'ceos_alos2.array.Array'>\n"
                 "  R <class 'numpy.ndarray'>"))],
 'late binding': [('raises', 'AssertionError', 'replaced tree diff', None, None),
                  ('raises', 'AssertionError', 'replaced variable diff', None, None),
                  ('raises', 'AssertionError', 'replaced array diff', None, None),
                  ('returns', 'NoneType', 'None')]}


def test_equivalence():
    actual = run()
    assert sorted(actual) == sorted(EXPECTED)
    for name in actual:
        assert len(actual[name]) == len(EXPECTED[name]), name
        for got, want in zip(actual[name], EXPECTED[name]):
            assert got == want, f"{name}: {got!r} != {want!r}"


def test_public_names():
    names = (
        "newline dict_overlap format_item format_array format_variable format_inline"
        " diff_mapping_missing diff_mapping_not_equal diff_mapping diff_scalar compare_data"
        " diff_array diff_data format_sizes diff_variable diff_group diff_tree assert_identical"
        " Array Group Variable zip_longest cons groupby curry pipe merge_with valfilter valmap"
        " valsplit zip_default textwrap np"
    )
    for name in names.split():
        assert hasattr(testing, name), name
    assert testing.assert_identical.__code__.co_varnames[:2] == ("a", "b")
    assert "__tracebackhide__" in testing.assert_identical.__code__.co_varnames


if __name__ == "__main__":
    if "--record" in sys.argv:
        pprint.pprint(run(), width=110)
        sys.exit(0)
    test_equivalence()
    test_public_names()
    print("ok: " + ", ".join(f"{len(v)} {k}" for k, v in EXPECTED.items()))
