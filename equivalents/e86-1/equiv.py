"""Equivalence check for refactoring 1 (ceos_alos2/datatypes.py).

Exercises ``DatetimeYdms`` and ``DatetimeYdus`` (through ``construct`` parsing and
through direct ``_decode`` calls) and compares against results recorded from the
unchanged code.  Run as

    cd /tmp/wt10/e86 && PYTHONPATH=/tmp/wt10/e86 /venv/bin/python _eq/1/equiv.py

(``--record`` prints the table of expected results instead of checking it).
"""

import datetime
import pprint
import struct
import sys

import numpy as np
from construct import Int32ub, Int64ub, Struct, this

from ceos_alos2 import datatypes

ydms_struct = Struct(
    "year" / Int32ub,
    "day_of_year" / Int32ub,
    "milliseconds" / Int32ub,
)
ydms = datatypes.DatetimeYdms(ydms_struct)


def canon(value):
    if isinstance(value, tuple):
        return "(" + ", ".join(canon(v) for v in value) + ")"
    return f"{type(value).__module__}.{type(value).__qualname__}:{value!r}"


def run(func):
    try:
        result = func()
    except BaseException as e:  # noqa: B902
        chain = []
        while e is not None:
            chain.append(f"{type(e).__module__}.{type(e).__qualname__}:{e}")
            e = e.__cause__ or (None if e.__suppress_context__ else e.__context__)
        return "EXC " + " <- ".join(chain)
    return "OK " + canon(result)


class Year(int):
    pass


class Ref:
    """callable *and* has a ``date`` method: the call has to win"""

    def __init__(self):
        self.calls = []

    def __call__(self, context):
        self.calls.append(context)
        return datetime.datetime(2001, 2, 3, 4, 5, 6, 7)

    def date(self):
        raise AssertionError("not supposed to be used")


class Tz(datetime.tzinfo):
    def utcoffset(self, dt):
        return datetime.timedelta(hours=9)

    def dst(self, dt):
        return None

    def tzname(self, dt):
        return "JST"


def parse_ydms(year, doy, ms):
    return lambda: ydms.parse(struct.pack(">III", year, doy, ms))


def decode_ydms(obj):
    return lambda: ydms._decode(obj, None, None)


def ydus_const(reference, us):
    return lambda: datatypes.DatetimeYdus(Int64ub, reference).parse(struct.pack(">Q", us))


nested = Struct(
    "sensor_acquisition_date" / datatypes.DatetimeYdms(ydms_struct),
    "microseconds" / datatypes.DatetimeYdus(Int64ub, this.sensor_acquisition_date),
)


def parse_nested(year, doy, ms, us):
    def func():
        result = nested.parse(struct.pack(">IIIQ", year, doy, ms, us))
        return (result.sensor_acquisition_date, result.microseconds)

    return func


def reassigned():
    parser = datatypes.DatetimeYdus(Int64ub, datetime.datetime(2019, 1, 1, 21, 37))
    first = parser.parse(struct.pack(">Q", 5))
    parser.reference_date = datetime.datetime(2020, 2, 29, 1, 2, 3)
    second = parser.parse(struct.pack(">Q", 5))
    parser.reference_date = lambda ctx: datetime.datetime(2021, 3, 4, 5, 6)
    third = parser.parse(struct.pack(">Q", 5))
    return (first, second, third)


def callable_wins():
    ref = Ref()
    parser = datatypes.DatetimeYdus(Int64ub, ref)
    result = parser.parse(struct.pack(">Q", 86399999999))
    return (result, len(ref.calls))


def fresh_objects():
    # equal, but never the same object (and never the cached start of year itself)
    a = ydms.parse(struct.pack(">III", 2017, 1, 0))
    b = ydms.parse(struct.pack(">III", 2017, 1, 0))
    c = ydms._decode({"year": 2017, "day_of_year": 1, "milliseconds": 0}, None, None)
    return (a, b, c, a is b, a is c, a == b == c)


def lookup_order():
    # the items of the parsed mapping are requested in the same order
    class Recording(dict):
        def __init__(self, *args, **kwargs):
            super().__init__(*args, **kwargs)
            self.seen = []

        def __getitem__(self, key):
            self.seen.append(key)
            return super().__getitem__(key)

    good = Recording(year=2015, day_of_year=32, milliseconds=1)
    bad_year = Recording(year=0, day_of_year=32, milliseconds=1)
    out = [ydms._decode(good, None, None), tuple(good.seen)]
    try:
        ydms._decode(bad_year, None, None)
    except ValueError as e:
        out.append(str(e))
    out.append(tuple(bad_year.seen))
    return tuple(out)


cases = {
    # --- DatetimeYdms through construct
    "ydms-1990": parse_ydms(1990, 270, 52032102),
    "ydms-2059": parse_ydms(2059, 1, 0),
    "ydms-leap-last-ms": parse_ydms(2020, 366, 86399999),
    "ydms-rollover-next-year": parse_ydms(2019, 366, 0),
    "ydms-day-zero": parse_ydms(2019, 0, 0),
    "ydms-ms-rollover": parse_ydms(2019, 1, 86400000),
    "ydms-ms-max": parse_ydms(2019, 1, 2**32 - 1),
    "ydms-year-1": parse_ydms(1, 1, 0),
    "ydms-year-1-day-0": parse_ydms(1, 0, 0),
    "ydms-year-9999": parse_ydms(9999, 365, 86399999),
    "ydms-year-9999-overflow": parse_ydms(9999, 366, 0),
    "ydms-year-0": parse_ydms(0, 1, 0),
    "ydms-year-0-again": parse_ydms(0, 1, 0),
    "ydms-year-10000": parse_ydms(10000, 1, 0),
    "ydms-year-max": parse_ydms(2**32 - 1, 1, 0),
    "ydms-days-max": parse_ydms(2020, 2**32 - 1, 0),
    "ydms-days-large": parse_ydms(2020, 999999, 0),
    "ydms-repeat-a": parse_ydms(2014, 100, 1),
    "ydms-repeat-b": parse_ydms(2014, 100, 1),
    "ydms-repeat-c": parse_ydms(2014, 101, 2),
    "ydms-truncated": lambda: ydms.parse(b"\x00\x00\x07\xe4\x00\x00"),
    "ydms-empty": lambda: ydms.parse(b""),
    "ydms-build": lambda: ydms.build(datetime.datetime(2020, 1, 1)),
    "ydms-fresh-objects": fresh_objects,
    "ydms-lookup-order": lookup_order,
    # --- DatetimeYdms._decode on hand-made mappings: ints first, then lookalikes
    "decode-int": decode_ydms({"year": 2020, "day_of_year": 60, "milliseconds": 1}),
    "decode-float-after-int": decode_ydms({"year": 2020.0, "day_of_year": 60, "milliseconds": 1}),
    "decode-int-1": decode_ydms({"year": 1, "day_of_year": 1, "milliseconds": 0}),
    "decode-true-after-1": decode_ydms({"year": True, "day_of_year": 1, "milliseconds": 0}),
    "decode-false": decode_ydms({"year": False, "day_of_year": 1, "milliseconds": 0}),
    "decode-int-subclass": decode_ydms({"year": Year(2020), "day_of_year": 1, "milliseconds": 0}),
    "decode-np-int64": decode_ydms({"year": np.int64(2020), "day_of_year": 2, "milliseconds": 0}),
    "decode-np-uint32": decode_ydms(
        {"year": np.uint32(2020), "day_of_year": np.uint32(2), "milliseconds": np.uint32(7)}
    ),
    "decode-np-0d": decode_ydms({"year": np.array(2020), "day_of_year": 2, "milliseconds": 0}),
    "decode-np-float": decode_ydms({"year": np.float64(2020), "day_of_year": 2, "milliseconds": 0}),
    "decode-str": decode_ydms({"year": "2020", "day_of_year": 2, "milliseconds": 0}),
    "decode-list": decode_ydms({"year": [2020], "day_of_year": 2, "milliseconds": 0}),
    "decode-none": decode_ydms({"year": None, "day_of_year": 2, "milliseconds": 0}),
    "decode-negative": decode_ydms({"year": -5, "day_of_year": 2, "milliseconds": 0}),
    "decode-huge": decode_ydms({"year": 10**30, "day_of_year": 2, "milliseconds": 0}),
    "decode-float-days": decode_ydms({"year": 2020, "day_of_year": 1.5, "milliseconds": 0.25}),
    "decode-negative-days": decode_ydms({"year": 2020, "day_of_year": -365, "milliseconds": -1}),
    "decode-str-days": decode_ydms({"year": 2020, "day_of_year": "2", "milliseconds": 0}),
    "decode-missing-year": decode_ydms({"day_of_year": 2, "milliseconds": 0}),
    "decode-missing-days": decode_ydms({"year": 2020, "milliseconds": 0}),
    "decode-missing-ms": decode_ydms({"year": 2020, "day_of_year": 2}),
    "decode-bad-year-missing-days": decode_ydms({"year": 0, "milliseconds": 0}),
    "decode-not-a-mapping": decode_ydms(None),
    "decode-sequence": decode_ydms([2020, 1, 0]),
    # --- DatetimeYdus
    "ydus-zero": ydus_const(datetime.datetime(2019, 1, 1, 21, 37, 52, 107000), 0),
    "ydus-seconds": ydus_const(datetime.datetime(2019, 1, 1, 21, 37, 52, 107000), 40669000000),
    "ydus-last-us": ydus_const(datetime.datetime(2020, 2, 29), 86399999999),
    "ydus-next-day": ydus_const(datetime.datetime(2020, 12, 31, 23, 59, 59), 86400000000),
    "ydus-max": ydus_const(datetime.datetime(2020, 12, 31), 2**64 - 1),
    "ydus-large": ydus_const(datetime.datetime(2020, 12, 31), 2**50),
    "ydus-end-of-time": ydus_const(datetime.datetime(9999, 12, 31, 1), 86400000000),
    "ydus-aware": ydus_const(datetime.datetime(2019, 6, 1, 3, 4, 5, tzinfo=Tz()), 1000001),
    "ydus-utc": ydus_const(
        datetime.datetime(2019, 6, 1, 3, 4, 5, tzinfo=datetime.timezone.utc), 1000001
    ),
    "ydus-date": ydus_const(datetime.date(2019, 6, 1), 1),
    "ydus-none": ydus_const(None, 1),
    "ydus-str": ydus_const("2019-06-01", 1),
    "ydus-lambda": ydus_const(lambda ctx: datetime.datetime(2018, 7, 8, 9, 10), 3600000000),
    "ydus-lambda-none": ydus_const(lambda ctx: None, 1),
    "ydus-lambda-raises": ydus_const(lambda ctx: ctx["missing"], 1),
    "ydus-class": ydus_const(datetime.datetime, 1),
    "ydus-truncated": lambda: datatypes.DatetimeYdus(Int64ub, datetime.datetime(2019, 1, 1)).parse(
        b"\x00\x00"
    ),
    "ydus-build": lambda: datatypes.DatetimeYdus(Int64ub, datetime.datetime(2019, 1, 1)).build(
        datetime.datetime(2019, 1, 1)
    ),
    "ydus-reassigned": reassigned,
    "ydus-callable-wins": callable_wins,
    # --- both, the way the signal data record combines them
    "nested-typical": parse_nested(2019, 213, 40669123, 40669123456),
    "nested-zero": parse_nested(2019, 1, 0, 0),
    "nested-same-year": parse_nested(2019, 365, 86399999, 86399999999),
    "nested-rollover": parse_nested(2019, 366, 5, 5000),
    "nested-bad-year": parse_nested(0, 1, 0, 0),
    "nested-us-overflow": parse_nested(2019, 1, 0, 2**64 - 1),
}

# recorded with the unchanged code (``--record``)
EXPECTED = {'ydms-1990': 'OK datetime.datetime:datetime.datetime(1990, 9, 27, 14, 27, 12, 102000)',
 'ydms-2059': 'OK datetime.datetime:datetime.datetime(2059, 1, 1, 0, 0)',
 'ydms-leap-last-ms': 'OK datetime.datetime:datetime.datetime(2020, 12, 31, 23, 59, 59, 999000)',
 'ydms-rollover-next-year': 'OK datetime.datetime:datetime.datetime(2020, 1, 1, 0, 0)',
 'ydms-day-zero': 'OK datetime.datetime:datetime.datetime(2018, 12, 31, 0, 0)',
 'ydms-ms-rollover': 'OK datetime.datetime:datetime.datetime(2019, 1, 2, 0, 0)',
 'ydms-ms-max': 'OK datetime.datetime:datetime.datetime(2019, 2, 19, 17, 2, 47, 295000)',
 'ydms-year-1': 'OK datetime.datetime:datetime.datetime(1, 1, 1, 0, 0)',
 'ydms-year-1-day-0': 'EXC builtins.OverflowError:date value out of range',
 'ydms-year-9999': 'OK datetime.datetime:datetime.datetime(9999, 12, 31, 23, 59, 59, 999000)',
 'ydms-year-9999-overflow': 'EXC builtins.OverflowError:date value out of range',
 'ydms-year-0': 'EXC builtins.ValueError:year 0 is out of range',
 'ydms-year-0-again': 'EXC builtins.ValueError:year 0 is out of range',
 'ydms-year-10000': 'EXC builtins.ValueError:year 10000 is out of range',
 'ydms-year-max': 'EXC builtins.OverflowError:signed integer is greater than maximum',
 'ydms-days-max': 'EXC builtins.OverflowError:Python int too large to convert to C int',
 'ydms-days-large': 'OK datetime.datetime:datetime.datetime(4757, 11, 26, 0, 0)',
 'ydms-repeat-a': 'OK datetime.datetime:datetime.datetime(2014, 4, 10, 0, 0, 0, 1000)',
 'ydms-repeat-b': 'OK datetime.datetime:datetime.datetime(2014, 4, 10, 0, 0, 0, 1000)',
 'ydms-repeat-c': 'OK datetime.datetime:datetime.datetime(2014, 4, 11, 0, 0, 0, 2000)',
 'ydms-truncated': 'EXC construct.core.StreamError:Error in path (parsing) -> day_of_year\n'
                   'stream read less than specified amount, expected 4, found 2',
 'ydms-empty': 'EXC construct.core.StreamError:Error in path (parsing) -> year\n'
               'stream read less than specified amount, expected 4, found 0',
 'ydms-build': 'EXC builtins.NotImplementedError:',
 'ydms-fresh-objects': 'OK (datetime.datetime:datetime.datetime(2017, 1, 1, 0, 0), '
                       'datetime.datetime:datetime.datetime(2017, 1, 1, 0, 0), '
                       'datetime.datetime:datetime.datetime(2017, 1, 1, 0, 0), '
                       'builtins.bool:False, builtins.bool:False, builtins.bool:True)',
 'ydms-lookup-order': 'OK (datetime.datetime:datetime.datetime(2015, 2, 1, 0, 0, 0, 1000), '
                      "(builtins.str:'year', builtins.str:'day_of_year', "
                      "builtins.str:'milliseconds'), builtins.str:'year 0 is out of range', "
                      "(builtins.str:'year'))",
 'decode-int': 'OK datetime.datetime:datetime.datetime(2020, 2, 29, 0, 0, 0, 1000)',
 'decode-float-after-int': "EXC builtins.TypeError:'float' object cannot be interpreted as an "
                           'integer',
 'decode-int-1': 'OK datetime.datetime:datetime.datetime(1, 1, 1, 0, 0)',
 'decode-true-after-1': 'OK datetime.datetime:datetime.datetime(1, 1, 1, 0, 0)',
 'decode-false': 'EXC builtins.ValueError:year 0 is out of range',
 'decode-int-subclass': 'OK datetime.datetime:datetime.datetime(2020, 1, 1, 0, 0)',
 'decode-np-int64': 'OK datetime.datetime:datetime.datetime(2020, 1, 2, 0, 0)',
 'decode-np-uint32': 'EXC builtins.TypeError:unsupported type for timedelta milliseconds '
                     'component: numpy.uint32',
 'decode-np-0d': 'OK datetime.datetime:datetime.datetime(2020, 1, 2, 0, 0)',
 'decode-np-float': "EXC builtins.TypeError:'numpy.float64' object cannot be interpreted as an "
                    'integer',
 'decode-str': "EXC builtins.TypeError:'str' object cannot be interpreted as an integer",
 'decode-list': "EXC builtins.TypeError:'list' object cannot be interpreted as an integer",
 'decode-none': "EXC builtins.TypeError:'NoneType' object cannot be interpreted as an integer",
 'decode-negative': 'EXC builtins.ValueError:year -5 is out of range',
 'decode-huge': 'EXC builtins.OverflowError:Python int too large to convert to C long',
 'decode-float-days': 'OK datetime.datetime:datetime.datetime(2020, 1, 1, 12, 0, 0, 250)',
 'decode-negative-days': 'OK datetime.datetime:datetime.datetime(2018, 12, 30, 23, 59, 59, 999000)',
 'decode-str-days': "EXC builtins.TypeError:unsupported operand type(s) for -: 'str' and 'int'",
 'decode-missing-year': "EXC builtins.KeyError:'year'",
 'decode-missing-days': "EXC builtins.KeyError:'day_of_year'",
 'decode-missing-ms': "EXC builtins.KeyError:'milliseconds'",
 'decode-bad-year-missing-days': 'EXC builtins.ValueError:year 0 is out of range',
 'decode-not-a-mapping': "EXC builtins.TypeError:'NoneType' object is not subscriptable",
 'decode-sequence': 'EXC builtins.TypeError:list indices must be integers or slices, not str',
 'ydus-zero': 'OK datetime.datetime:datetime.datetime(2019, 1, 1, 0, 0)',
 'ydus-seconds': 'OK datetime.datetime:datetime.datetime(2019, 1, 1, 11, 17, 49)',
 'ydus-last-us': 'OK datetime.datetime:datetime.datetime(2020, 2, 29, 23, 59, 59, 999999)',
 'ydus-next-day': 'OK datetime.datetime:datetime.datetime(2021, 1, 1, 0, 0)',
 'ydus-max': 'EXC builtins.OverflowError:date value out of range',
 'ydus-large': 'OK datetime.datetime:datetime.datetime(2056, 9, 4, 5, 58, 26, 842624)',
 'ydus-end-of-time': 'EXC builtins.OverflowError:date value out of range',
 'ydus-aware': 'OK datetime.datetime:datetime.datetime(2019, 6, 1, 0, 0, 1, 1)',
 'ydus-utc': 'OK datetime.datetime:datetime.datetime(2019, 6, 1, 0, 0, 1, 1)',
 'ydus-date': "EXC builtins.AttributeError:'datetime.date' object has no attribute 'date'",
 'ydus-none': "EXC builtins.AttributeError:'NoneType' object has no attribute 'date'",
 'ydus-str': "EXC builtins.AttributeError:'str' object has no attribute 'date'",
 'ydus-lambda': 'OK datetime.datetime:datetime.datetime(2018, 7, 8, 1, 0)',
 'ydus-lambda-none': "EXC builtins.AttributeError:'NoneType' object has no attribute 'date'",
 'ydus-lambda-raises': "EXC builtins.KeyError:'missing'",
 'ydus-class': "EXC builtins.TypeError:'Container' object cannot be interpreted as an integer",
 'ydus-truncated': 'EXC construct.core.StreamError:Error in path (parsing)\n'
                   'stream read less than specified amount, expected 8, found 2',
 'ydus-build': 'EXC builtins.NotImplementedError:',
 'ydus-reassigned': 'OK (datetime.datetime:datetime.datetime(2019, 1, 1, 0, 0, 0, 5), '
                    'datetime.datetime:datetime.datetime(2020, 2, 29, 0, 0, 0, 5), '
                    'datetime.datetime:datetime.datetime(2021, 3, 4, 0, 0, 0, 5))',
 'ydus-callable-wins': 'OK (datetime.datetime:datetime.datetime(2001, 2, 3, 23, 59, 59, 999999), '
                       'builtins.int:1)',
 'nested-typical': 'OK (datetime.datetime:datetime.datetime(2019, 8, 1, 11, 17, 49, 123000), '
                   'datetime.datetime:datetime.datetime(2019, 8, 1, 11, 17, 49, 123456))',
 'nested-zero': 'OK (datetime.datetime:datetime.datetime(2019, 1, 1, 0, 0), '
                'datetime.datetime:datetime.datetime(2019, 1, 1, 0, 0))',
 'nested-same-year': 'OK (datetime.datetime:datetime.datetime(2019, 12, 31, 23, 59, 59, 999000), '
                     'datetime.datetime:datetime.datetime(2019, 12, 31, 23, 59, 59, 999999))',
 'nested-rollover': 'OK (datetime.datetime:datetime.datetime(2020, 1, 1, 0, 0, 0, 5000), '
                    'datetime.datetime:datetime.datetime(2020, 1, 1, 0, 0, 0, 5000))',
 'nested-bad-year': 'EXC builtins.ValueError:year 0 is out of range',
 'nested-us-overflow': 'EXC builtins.OverflowError:date value out of range'}


def main():
    actual = {name: run(func) for name, func in cases.items()}
    if "--record" in sys.argv:
        pprint.pprint(actual, width=100, sort_dicts=False)
        return 0

    assert list(actual) == list(EXPECTED), "case list differs from the recorded one"
    failures = [name for name in actual if actual[name] != EXPECTED[name]]
    for name in failures:
        print(f"MISMATCH {name}\n  expected: {EXPECTED[name]}\n  actual:   {actual[name]}")
    assert not failures, failures

    # second pass: everything is warm now (caches, ...), the answers must not move
    again = {name: run(func) for name, func in cases.items()}
    assert again == EXPECTED, [name for name in again if again[name] != EXPECTED[name]]

    print(f"ok: {len(actual)} cases, twice")
    return 0


def test_equivalence():
    assert main() == 0


if __name__ == "__main__":
    sys.exit(main())
