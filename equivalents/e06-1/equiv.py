"""Equivalence check for refactoring 1 (ceos_alos2/datatypes.py).

Run as
    cd <worktree> && PYTHONPATH=<worktree> /venv/bin/python _eq/1/equiv.py

The expected values below were produced by the UNCHANGED code; the script must
pass both with and without the patch applied.
"""

import datetime
import math
import struct

from construct import Adapter, Bytes, Int8ub, Int32ub, Int64ub, Struct

from ceos_alos2 import datatypes as D

NAN = float("nan")


def outcome(parser, data, **kwargs):
    try:
        return parser.parse(data, **kwargs)
    except Exception as e:  # noqa: BLE001
        return "EXC " + type(e).__name__


def same(actual, expected):
    """equality that treats nan == nan and compares types, too"""
    if type(actual) is not type(expected):
        return False
    if isinstance(expected, float):
        return (math.isnan(actual) and math.isnan(expected)) or actual == expected
    if isinstance(expected, complex):
        return same(actual.real, expected.real) and same(actual.imag, expected.imag)
    return actual == expected


def check(label, actual, expected):
    assert same(actual, expected), f"{label}: got {actual!r}, expected {expected!r}"


# --- AsciiInteger -----------------------------------------------------------
for data, n, expected in [
    (b"15", 2, 15),
    (b"  16", 4, 16),
    (b"    ", 4, -1),  # blank
    (b"-7  ", 4, -7),
    (b"\x00\x00 5", 4, "EXC ValueError"),
    (b"\x00\x00\x00\x00", 4, -1),  # all null bytes are blank, too
    (b"1.5 ", 4, "EXC ValueError"),
    (b"ab", 2, "EXC ValueError"),
    (b"1", 2, "EXC StreamError"),
    (b"", 0, -1),  # zero width
    (b"\t\n 3", 4, 3),
    (b"\xff\xff", 2, "EXC StringError"),
    (b"1_0 ", 4, 10),
]:
    check(f"AsciiInteger({n}) {data!r}", outcome(D.AsciiInteger(n), data), expected)

# --- AsciiFloat -------------------------------------------------------------
for data, n, expected in [
    (b"1558.423", 8, 1558.423),
    (b" 165.820", 8, 165.82),
    (b"        ", 8, NAN),  # blank
    (b"  -1e3  ", 8, -1000.0),
    (b"  inf   ", 8, float("inf")),
    (b"nan ", 4, NAN),
    (b"abc ", 4, "EXC ValueError"),
    (b"\x00\x00\x00\x00", 4, NAN),
    (b"", 0, NAN),
    (b"1,5 ", 4, "EXC ValueError"),
    (b"1_0 ", 4, 10.0),
]:
    check(f"AsciiFloat({n}) {data!r}", outcome(D.AsciiFloat(n), data), expected)

# --- AsciiComplex -----------------------------------------------------------
for data, n, expected in [
    (b"1.558.42", 8, 1.55 + 8.42j),
    (b"        ", 8, complex(NAN, NAN)),
    (b" 62.3659 87.8321", 16, 62.3659 + 87.8321j),
    (b"1.5     ", 8, complex(NAN, NAN)),  # nan imaginary part poisons the real part
    (b"    2.5 ", 8, complex(NAN, 2.5)),
    (b"1234567", 7, 123 + 456j),  # odd width: n_bytes // 2 per component
    (b"ab  1.0 ", 8, "EXC ValueError"),
]:
    check(f"AsciiComplex({n}) {data!r}", outcome(D.AsciiComplex(n), data), expected)

# --- PaddedString -----------------------------------------------------------
for data, n, expected in [
    (b"ALOS", 4, "ALOS"),
    (b"abc ", 4, "abc"),
    (b"    ", 4, ""),
    (b" a b ", 5, "a b"),
    (b"\x00ab\x00", 4, "\x00ab"),
    (b"", 0, ""),
    (b"\xe9abc", 4, "EXC StringError"),
]:
    check(f"PaddedString({n}) {data!r}", outcome(D.PaddedString(n), data), expected)

# --- Factor / Metadata / StripNullBytes --------------------------------------
check("Factor float", outcome(D.Factor(Int8ub, 1e-2), b"\x10"), 0.16)
check("Factor int", outcome(D.Factor(Int32ub, 3), b"\x00\x00\x00\x05"), 15)
check("Factor blank float", outcome(D.Factor(D.AsciiFloat(4), 2), b"    "), NAN)
check("Factor blank int", outcome(D.Factor(D.AsciiInteger(4), 10), b"    "), -10)
assert D.Factor(Int8ub, 7).factor == 7

check(
    "Metadata kwargs",
    outcome(D.Metadata(Int8ub, units="m", long_name="x"), b"\x01"),
    (1, {"units": "m", "long_name": "x"}),
)
check("Metadata empty", outcome(D.Metadata(D.AsciiFloat(4)), b" 1.5"), (1.5, {}))
assert D.Metadata(Int8ub, a=1).attrs == {"a": 1}

check("StripNullBytes", outcome(D.StripNullBytes(Bytes(6)), b"\x00\x00ab\x00\x00"), b"ab")
check("StripNullBytes all null", outcome(D.StripNullBytes(Bytes(3)), b"\x00\x00\x00"), b"")
check("StripNullBytes inner", outcome(D.StripNullBytes(Bytes(3)), b"a\x00b"), b"a\x00b")

# --- DatetimeYdms -----------------------------------------------------------
ydms = D.DatetimeYdms(
    Struct("year" / Int32ub, "day_of_year" / Int32ub, "milliseconds" / Int32ub)
)
for fields, expected in [
    ((2020, 1, 0), datetime.datetime(2020, 1, 1, 0, 0)),
    ((2020, 366, 86399999), datetime.datetime(2020, 12, 31, 23, 59, 59, 999000)),
    ((2019, 59, 1500), datetime.datetime(2019, 2, 28, 0, 0, 1, 500000)),
    ((2021, 0, 0), datetime.datetime(2020, 12, 31, 0, 0)),  # day 0 -> previous year
    ((0, 1, 0), "EXC ValueError"),  # blank (zeroed) record
    ((2020, 400, 90000000), datetime.datetime(2021, 2, 4, 1, 0)),
    ((9999, 365, 86400000), "EXC OverflowError"),
]:
    check(f"DatetimeYdms {fields}", outcome(ydms, struct.pack(">III", *fields)), expected)

# direct call with a plain dict, as `_decode` only subscripts the object
check(
    "DatetimeYdms direct",
    ydms._decode({"year": 2022, "day_of_year": 32, "milliseconds": 1}, None, None),
    datetime.datetime(2022, 2, 1, 0, 0, 0, 1000),
)

# --- DatetimeYdus -----------------------------------------------------------
ref = datetime.datetime(2020, 10, 1, 12, 34, 56, 789)
for us, expected in [
    (0, datetime.datetime(2020, 10, 1, 0, 0)),
    (1, datetime.datetime(2020, 10, 1, 0, 0, 0, 1)),
    (86399999999, datetime.datetime(2020, 10, 1, 23, 59, 59, 999999)),
    (86400000001, datetime.datetime(2020, 10, 2, 0, 0, 0, 1)),
]:
    raw = struct.pack(">Q", us)
    check(f"DatetimeYdus fixed {us}", outcome(D.DatetimeYdus(Int64ub, ref), raw), expected)
    check(
        f"DatetimeYdus callable {us}",
        outcome(D.DatetimeYdus(Int64ub, lambda ctx: ctx.ref), raw, ref=ref),
        expected,
    )
check(
    "DatetimeYdus bad reference",
    outcome(D.DatetimeYdus(Int64ub, None), struct.pack(">Q", 1)),
    "EXC AttributeError",
)
assert D.DatetimeYdus(Int64ub, ref).reference_date is ref

# --- building is unsupported everywhere; sizes and class identity -------------
for cls, args, size in [
    (D.AsciiInteger, (4,), 4),
    (D.AsciiFloat, (4,), 4),
    (D.AsciiComplex, (8,), 8),
    (D.PaddedString, (4,), 4),
    (D.Factor, (Int8ub, 2), 1),
    (D.Metadata, (Int8ub,), 1),
    (D.StripNullBytes, (Bytes(2),), 2),
    (D.DatetimeYdms, (Int8ub,), 1),
    (D.DatetimeYdus, (Int8ub, ref), 1),
]:
    parser = cls(*args)
    assert isinstance(parser, Adapter), cls
    assert parser.sizeof() == size, cls
    try:
        parser.build(1)
    except NotImplementedError:
        pass
    else:
        raise AssertionError(f"{cls.__name__}.build did not raise NotImplementedError")

print("refactoring 1: all equivalence checks passed")
