"""Equivalence check for refactoring 3 (``encoders.encode_group``,
``encoders.encode_hierarchy`` and ``encoders.preprocess``).

Run as a script (``python equiv.py``) or through pytest.  Every case calls the
public entry points of ``ceos_alos2.sar_image.caching.encoders`` and compares a
canonical, type-preserving rendering of the result (or of the raised exception)
with the rendering recorded from the unchanged code (``python equiv.py
--record`` prints a fresh table).
"""

import collections
import json
import sys
import types

import fsspec
import numpy as np

from ceos_alos2.array import Array
from ceos_alos2.hierarchy import Group, Variable
from ceos_alos2.sar_image import caching
from ceos_alos2.sar_image.caching import encoders


def canon(obj):
    """Deterministic rendering which keeps the exact types and key order."""
    if isinstance(obj, dict):
        items = ", ".join(f"{canon(k)}: {canon(v)}" for k, v in obj.items())
        return f"{type(obj).__name__}{{{items}}}"
    if isinstance(obj, (list, tuple)):
        return f"{type(obj).__name__}[{', '.join(canon(v) for v in obj)}]"
    if isinstance(obj, np.ndarray):
        return f"ndarray<{obj.dtype}, {obj.shape}>({obj.tolist()!r})"
    if isinstance(obj, np.generic):
        return f"{type(obj).__name__}<{obj.dtype}>({obj!r})"
    if isinstance(obj, (Array, Variable, Group)):
        return f"{type(obj).__name__}@{obj!r}"
    if isinstance(obj, (types.GeneratorType, map)):
        return f"<{type(obj).__name__} object>"
    return f"{type(obj).__name__}({obj!r})"


def outcome(func, *args, **kwargs):
    try:
        return canon(func(*args, **kwargs))
    except Exception as e:  # noqa: BLE001
        return f"raised {type(e).__name__}: {e}"


def make_array(*, path="/path/to", url="file", shape=(4, 3), dtype="int16", rpc=2, type_code="IU2"):
    fs = fsspec.filesystem("memory")
    dirfs = fsspec.filesystem("dir", path=path, fs=fs)
    return Array(
        fs=dirfs,
        url=url,
        byte_ranges=[(x * 10 + 5, (x + 1) * 10) for x in range(shape[0])],
        shape=shape,
        dtype=dtype,
        type_code=type_code,
        records_per_chunk=rpc,
    )


class GroupSubclass(Group):
    pass


class VariableSubclass(Variable):
    pass


Point = collections.namedtuple("Point", ["x", "y"])


class ListSubclass(list):
    pass


class DictSubclass(dict):
    pass


def var(dims="x", data=(1, 2), attrs=None):
    return Variable(dims, list(data) if isinstance(data, tuple) else data, attrs or {})


def times():
    return np.array(["2000-01-01", "2000-01-03"], dtype="datetime64[s]")


def nested_group():
    return Group(
        path=None,
        url="s3://bucket/scene",
        data={
            "t": Variable("t", times(), {}),
            "dt": Variable(["t"], np.array([0, 2], dtype="timedelta64[D]"), {"a": (1, 2)}),
            "sub": Group(
                path=None,
                url=None,
                data={
                    "img": Variable(["rows", "cols"], make_array(), {"units": "dn"}),
                    "deeper": Group(
                        path="ignored",
                        url="file:///other",
                        data={"z": var("z", (1.5,)), "empty": Group(None, None, {}, {})},
                        attrs={"level": 3, "nested": {"t": (1, (2, 3))}},
                    ),
                },
                attrs={"n": 1},
            ),
            "x": var("x", (1.0, 2.0)),
        },
        attrs={"shape": (2, 3), "list": [1, (2, 3)]},
    )


def group_with_foreign_entry(entry):
    group = Group(path="/", url="u", data={"a": var()}, attrs={})
    group.data["foreign"] = entry
    return group


def group_with_replaced_data(data):
    group = Group(path="/", url="u", data={}, attrs={})
    group.data = data
    return group


def group_with_setitem():
    group = Group(path="/g", url="memory://root", data={}, attrs={})
    group["b"] = var("b", (3,))
    group["a"] = Group(path=None, url=None, data={"c": var("c", (4,))}, attrs={})
    return group


GROUPS = {
    "empty": lambda: Group(path=None, url=None, data={}, attrs={}),
    "empty-with-path": lambda: Group(path="/a/b", url="s3://bucket/x", data={}, attrs={"a": 1}),
    "flat": lambda: Group(
        path="/", url="u", data={"b": var("b"), "a": var(["a"], (2.5,), {"k": "v"})}, attrs={}
    ),
    "backend-array": lambda: Group(
        path="/",
        url=None,
        data={"img": Variable(["r", "c"], make_array(dtype="complex64", type_code="C*8"), {})},
        attrs={},
    ),
    "nested": nested_group,
    "only-groups": lambda: Group(
        path="/",
        url="u",
        data={"g1": Group(None, None, {}, {}), "g2": Group(None, "other", {}, {"a": [1]})},
        attrs={},
    ),
    "subclass": lambda: GroupSubclass(
        path="/",
        url="u",
        data={"sub": GroupSubclass(None, None, {"v": var()}, {}), "w": VariableSubclass("w", [1], {})},
        attrs={},
    ),
    "via-setitem": group_with_setitem,
    "ordered-data": lambda: group_with_replaced_data(
        collections.OrderedDict([("z", var("z")), ("a", var("a"))])
    ),
    "foreign-entry-ndarray": lambda: group_with_foreign_entry(np.array([1, 2])),
    "foreign-entry-dict": lambda: group_with_foreign_entry({"__type__": "variable"}),
    "foreign-entry-none": lambda: group_with_foreign_entry(None),
    "foreign-entry-array": lambda: group_with_foreign_entry(make_array()),
    "foreign-entry-simplenamespace": lambda: group_with_foreign_entry(
        types.SimpleNamespace(data=[1, 2], dims=("q",), attrs={"duck": True})
    ),
    "bad-variable-data": lambda: Group(
        path="/",
        url="u",
        data={"ok": var(), "bad": Variable("t", np.array([], dtype="datetime64[s]"), {})},
        attrs={},
    ),
}

NOT_GROUPS = {
    "variable": lambda: var(),
    "dict": lambda: {"data": {}, "url": "u", "path": "/", "attrs": {}},
    "none": lambda: None,
    "namespace-like-group": lambda: types.SimpleNamespace(
        data={"v": var(), "g": Group(None, None, {}, {})}, url="u", path="/p", attrs={"a": 1}
    ),
    "namespace-missing-attrs": lambda: types.SimpleNamespace(data={}, url="u", path="/p"),
    "namespace-missing-data": lambda: types.SimpleNamespace(url="u", path="/p", attrs={}),
}

HIERARCHY_INPUTS = {
    **{f"group-{name}": factory for name, factory in GROUPS.items()},
    "variable-list": lambda: var(),
    "variable-datetime": lambda: Variable("t", times(), {"a": 1}),
    "variable-backend": lambda: Variable(["r", "c"], make_array(), {}),
    "variable-subclass": lambda: VariableSubclass(["w"], [1, 2], {}),
    "variable-bad": lambda: Variable("t", np.array([], dtype="datetime64[s]"), {}),
    "array": make_array,
    "ndarray": lambda: np.array([1, 2]),
    "dict": lambda: {"__type__": "group", "data": {}},
    "list": lambda: [var()],
    "tuple": lambda: (1, 2),
    "none": lambda: None,
    "int": lambda: 5,
    "str": lambda: "group",
    "class-Group": lambda: Group,
}


def a_generator():
    yield 1


PREPROCESS_INPUTS = {
    "int": lambda: 1,
    "float": lambda: 1.5,
    "none": lambda: None,
    "str": lambda: "abc",
    "bytes": lambda: b"abc",
    "bool": lambda: True,
    "empty-dict": lambda: {},
    "empty-list": lambda: [],
    "empty-tuple": lambda: (),
    "flat-dict": lambda: {"b": 1, "a": "x", "c": None},
    "flat-list": lambda: [3, "a", None, 1.5],
    "flat-tuple": lambda: (1, "a"),
    "tuple-in-tuple": lambda: (1, (2, (3, ())), [4, (5,)]),
    "list-of-tuples": lambda: [(5, 10), (15, 20)],
    "dict-of-all": lambda: {"t": (1, 2), "l": [1, (2,)], "d": {"t": ((), [])}, "s": "str"},
    "nested-lists": lambda: [[1, [2, [3, [(4,)]]]]],
    "non-str-keys": lambda: {1: (1,), (1, 2): "tuple key stays", None: [()], 2.5: {}},
    "type-key-collision": lambda: {"__type__": "tuple", "data": (1, 2)},
    "ordered-dict": lambda: collections.OrderedDict([("z", (1,)), ("a", [2])]),
    "default-dict": lambda: collections.defaultdict(list, {"a": (1,), "b": []}),
    "dict-subclass": lambda: DictSubclass(a=(1,), b=DictSubclass(c=[()])),
    "counter": lambda: collections.Counter("aab"),
    "mapping-proxy": lambda: types.MappingProxyType({"a": (1,)}),
    "chain-map": lambda: collections.ChainMap({"a": (1,)}),
    "list-subclass": lambda: ListSubclass([(1,), [2]]),
    "named-tuple": lambda: Point(1, (2, 3)),
    "set": lambda: {1},
    "frozenset": lambda: frozenset([(1, 2)]),
    "range": lambda: range(3),
    "deque": lambda: collections.deque([(1,)]),
    "generator": a_generator,
    "map-object": lambda: [map(int, "12")],
    "ndarray": lambda: np.array([(1, 2)]),
    "ndarray-in-containers": lambda: {"a": [np.array([1]), (np.float32(2),)]},
    "variable": lambda: [var()],
    "nan": lambda: [float("nan"), (float("inf"),)],
    "deep-100": lambda: deep(100),
    "wide": lambda: {str(i): (i, [i]) for i in range(50)},
}


def deep(depth):
    data = ("leaf",)
    for level in range(depth):
        data = {"k": data} if level % 3 == 0 else [data] if level % 3 == 1 else (data,)
    return data


def case_identity_of_leaves():
    """leaves and pass-through values are returned as the same objects"""
    leaf = np.array([1, 2])
    marker = object()
    arr = make_array()
    data = {"a": [leaf, (marker,)], "b": marker}
    processed = encoders.preprocess(data)
    passthrough = [encoders.encode_hierarchy(v) is v for v in (leaf, marker, arr, data, None)]
    return [
        processed["a"][0] is leaf,
        processed["a"][1]["data"][0] is marker,
        processed["b"] is marker,
        encoders.preprocess(marker) is marker,
        encoders.preprocess(leaf) is leaf,
        passthrough,
    ]


def case_fresh_containers():
    """containers are rebuilt, the input is left untouched"""
    inner_list = [1, 2]
    inner_dict = {"x": inner_list}
    data = {"d": inner_dict, "l": inner_list, "t": (inner_list,)}
    snapshot = repr(data)
    processed = encoders.preprocess(data)
    processed["d"]["x"].append(99)
    processed["l"].append(98)
    processed["t"]["data"][0].append(97)
    group = nested_group()
    encoded = encoders.encode_group(group)
    return [
        repr(data) == snapshot,
        processed is not data,
        processed["d"] is not inner_dict,
        processed["l"] is not inner_list,
        processed["d"]["x"] is not processed["l"],
        encoded["data"] is not group.data,
        encoded["attrs"] is group.attrs,
        encoded["data"]["sub"]["attrs"] is group.data["sub"].attrs,
        encoded["data"]["x"]["attrs"] is group.data["x"].attrs,
        encoded["data"]["x"]["dims"] is group.data["x"].dims,
        list(encoded["data"]) == list(group.data),
    ]


def case_patched_module_functions():
    """helpers are looked up in the module at call time"""
    names = ["encode_variable", "encode_group", "preprocess", "encode_array"]
    saved = {name: getattr(encoders, name) for name in names}
    group = nested_group()
    results = []
    try:
        encoders.encode_variable = lambda v: ("VAR", v.dims)
        results.append(saved["encode_group"](group))
        results.append(encoders.encode_hierarchy(var()))
        encoders.encode_variable = saved["encode_variable"]

        encoders.encode_group = lambda g: ("GROUP", g.path)
        results.append(saved["encode_group"](group))
        results.append(encoders.encode_hierarchy(group))
        encoders.encode_group = saved["encode_group"]

        encoders.encode_array = lambda a: "ARRAY"
        results.append(saved["encode_group"](group))
        encoders.encode_array = saved["encode_array"]

        encoders.preprocess = lambda d: "P"
        results.append(saved["preprocess"]({"a": 1, "b": [1, (2,)]}))
        results.append(saved["preprocess"]([1, (2,), {"a": 1}]))
        results.append(saved["preprocess"]((1, [2])))
        results.append(saved["preprocess"](5))
    finally:
        for name, func in saved.items():
            setattr(encoders, name, func)
    return results


def case_json():
    group = nested_group()
    text = caching.encode(group)
    return [
        text,
        json.dumps(encoders.preprocess(encoders.encode_group(group))) == text,
        caching.encode(var("x", (1, 2), {"t": (1, (2,))})),
        caching.encode({"plain": (1, 2)}),
        caching.encode([(1,), None]),
    ]


def run_cases():
    results = {}
    for name, factory in {**GROUPS, **{f"not-a-group-{k}": v for k, v in NOT_GROUPS.items()}}.items():
        results[f"encode_group/{name}"] = outcome(lambda: encoders.encode_group(factory()))
    for name, factory in HIERARCHY_INPUTS.items():
        results[f"encode_hierarchy/{name}"] = outcome(lambda: encoders.encode_hierarchy(factory()))
    for name, factory in PREPROCESS_INPUTS.items():
        results[f"preprocess/{name}"] = outcome(lambda: encoders.preprocess(factory()))
    for name, factory in GROUPS.items():
        results[f"preprocess-encoded/{name}"] = outcome(
            lambda: encoders.preprocess(encoders.encode_hierarchy(factory()))
        )
        results[f"encode/{name}"] = outcome(lambda: caching.encode(factory()))
    results["identity-of-leaves"] = outcome(case_identity_of_leaves)
    results["fresh-containers"] = outcome(case_fresh_containers)
    results["patched-module-functions"] = outcome(case_patched_module_functions)
    results["json"] = outcome(case_json)
    results["encode_group/no-argument"] = outcome(encoders.encode_group)
    results["encode_group/keyword"] = outcome(encoders.encode_group, group=GROUPS["flat"]())
    results["encode_hierarchy/keyword"] = outcome(encoders.encode_hierarchy, obj=5)
    results["preprocess/keyword"] = outcome(encoders.preprocess, data=(1,))
    results["preprocess/no-argument"] = outcome(encoders.preprocess)
    return results


EXPECTED = {}  # replaced below by the recorded table


def check():
    actual = run_cases()
    assert list(actual) == list(EXPECTED), "case list changed"
    mismatches = [name for name in actual if actual[name] != EXPECTED[name]]
    for name in mismatches:
        print(f"MISMATCH {name}\n  expected: {EXPECTED[name]}\n  actual:   {actual[name]}")
    assert not mismatches, mismatches
    return len(actual)


def test_equivalence():
    check()


# --- recorded from the unchanged code (HEAD) -------------------------------------------
# RECORDED-TABLE
EXPECTED = {
    'encode_group/empty': "dict{str('__type__'): str('group'), str('url'): NoneType(None), str('data'): dict{}, str('path'): str('/'), str('attrs'): dict{}}",
    'encode_group/empty-with-path': "dict{str('__type__'): str('group'), str('url'): str('s3://bucket/x'), str('data'): dict{}, str('path'): str('/a/b'), str('attrs'): dict{str('a'): int(1)}}",
    'encode_group/flat': "dict{str('__type__'): str('group'), str('url'): str('u'), str('data'): dict{str('b'): dict{str('__type__'): str('variable'), str('dims'): list[str('b')], str('data'): dict{str('__type__'): str('array'), str('dtype'): str('int64'), str('data'): list[int(1), int(2)], str('encoding'): dict{}}, str('attrs'): dict{}}, str('a'): dict{str('__type__'): str('variable'), str('dims'): list[str('a')], str('data'): dict{str('__type__'): str('array'), str('dtype'): str('float64'), str('data'): list[float(2.5)], str('encoding'): dict{}}, str('attrs'): dict{str('k'): str('v')}}}, str('path'): str('/'), str('attrs'): dict{}}",
    'encode_group/backend-array': "dict{str('__type__'): str('group'), str('url'): NoneType(None), str('data'): dict{str('img'): dict{str('__type__'): str('variable'), str('dims'): list[str('r'), str('c')], str('data'): dict{str('__type__'): str('backend_array'), str('root'): str('/path/to'), str('url'): str('file'), str('shape'): tuple[int(4), int(3)], str('dtype'): str('complex64'), str('byte_ranges'): list[tuple[int(5), int(10)], tuple[int(15), int(20)], tuple[int(25), int(30)], tuple[int(35), int(40)]], str('type_code'): str('C*8')}, str('attrs'): dict{}}}, str('path'): str('/'), str('attrs'): dict{}}",
    'encode_group/nested': "dict{str('__type__'): str('group'), str('url'): str('s3://bucket/scene'), str('data'): dict{str('t'): dict{str('__type__'): str('variable'), str('dims'): list[str('t')], str('data'): dict{str('__type__'): str('array'), str('dtype'): str('datetime64[s]'), str('data'): list[int(0), int(172800)], str('encoding'): dict{str('reference'): str('2000-01-01T00:00:00'), str('units'): str('s')}}, str('attrs'): dict{}}, str('dt'): dict{str('__type__'): str('variable'), str('dims'): list[str('t')], str('data'): dict{str('__type__'): str('array'), str('dtype'): str('timedelta64[D]'), str('data'): list[int(0), int(2)], str('encoding'): dict{str('units'): str('D')}}, str('attrs'): dict{str('a'): tuple[int(1), int(2)]}}, str('sub'): dict{str('__type__'): str('group'), str('url'): str('s3://bucket/scene'), str('data'): dict{str('img'): dict{str('__type__'): str('variable'), str('dims'): list[str('rows'), str('cols')], str('data'): dict{str('__type__'): str('backend_array'), str('root'): str('/path/to'), str('url'): str('file'), str('shape'): tuple[int(4), int(3)], str('dtype'): str('int16'), str('byte_ranges'): list[tuple[int(5), int(10)], tuple[int(15), int(20)], tuple[int(25), int(30)], tuple[int(35), int(40)]], str('type_code'): str('IU2')}, str('attrs'): dict{str('units'): str('dn')}}, str('deeper'): dict{str('__type__'): str('group'), str('url'): str('file:///other'), str('data'): dict{str('z'): dict{str('__type__'): str('variable'), str('dims'): list[str('z')], str('data'): dict{str('__type__'): str('array'), str('dtype'): str('float64'), str('data'): list[float(1.5)], str('encoding'): dict{}}, str('attrs'): dict{}}, str('empty'): dict{str('__type__'): str('group'), str('url'): str('file:///other'), str('data'): dict{}, str('path'): str('/sub/deeper/empty'), str('attrs'): dict{}}}, str('path'): str('/sub/deeper'), str('attrs'): dict{str('level'): int(3), str('nested'): dict{str('t'): tuple[int(1), tuple[int(2), int(3)]]}}}}, str('path'): str('/sub'), str('attrs'): dict{str('n'): int(1)}}, str('x'): dict{str('__type__'): str('variable'), str('dims'): list[str('x')], str('data'): dict{str('__type__'): str('array'), str('dtype'): str('float64'), str('data'): list[float(1.0), float(2.0)], str('encoding'): dict{}}, str('attrs'): dict{}}}, str('path'): str('/'), str('attrs'): dict{str('shape'): tuple[int(2), int(3)], str('list'): list[int(1), tuple[int(2), int(3)]]}}",
    'encode_group/only-groups': "dict{str('__type__'): str('group'), str('url'): str('u'), str('data'): dict{str('g1'): dict{str('__type__'): str('group'), str('url'): str('u'), str('data'): dict{}, str('path'): str('/g1'), str('attrs'): dict{}}, str('g2'): dict{str('__type__'): str('group'), str('url'): str('other'), str('data'): dict{}, str('path'): str('/g2'), str('attrs'): dict{str('a'): list[int(1)]}}}, str('path'): str('/'), str('attrs'): dict{}}",
    'encode_group/subclass': "dict{str('__type__'): str('group'), str('url'): str('u'), str('data'): dict{str('sub'): dict{str('__type__'): str('group'), str('url'): str('u'), str('data'): dict{str('v'): dict{str('__type__'): str('variable'), str('dims'): list[str('x')], str('data'): dict{str('__type__'): str('array'), str('dtype'): str('int64'), str('data'): list[int(1), int(2)], str('encoding'): dict{}}, str('attrs'): dict{}}}, str('path'): str('/sub'), str('attrs'): dict{}}, str('w'): dict{str('__type__'): str('variable'), str('dims'): list[str('w')], str('data'): dict{str('__type__'): str('array'), str('dtype'): str('int64'), str('data'): list[int(1)], str('encoding'): dict{}}, str('attrs'): dict{}}}, str('path'): str('/'), str('attrs'): dict{}}",
    'encode_group/via-setitem': "dict{str('__type__'): str('group'), str('url'): str('memory://root'), str('data'): dict{str('b'): dict{str('__type__'): str('variable'), str('dims'): list[str('b')], str('data'): dict{str('__type__'): str('array'), str('dtype'): str('int64'), str('data'): list[int(3)], str('encoding'): dict{}}, str('attrs'): dict{}}, str('a'): dict{str('__type__'): str('group'), str('url'): str('memory://root'), str('data'): dict{str('c'): dict{str('__type__'): str('variable'), str('dims'): list[str('c')], str('data'): dict{str('__type__'): str('array'), str('dtype'): str('int64'), str('data'): list[int(4)], str('encoding'): dict{}}, str('attrs'): dict{}}}, str('path'): str('/g/a'), str('attrs'): dict{}}}, str('path'): str('/g'), str('attrs'): dict{}}",
    'encode_group/ordered-data': "dict{str('__type__'): str('group'), str('url'): str('u'), str('data'): dict{str('z'): dict{str('__type__'): str('variable'), str('dims'): list[str('z')], str('data'): dict{str('__type__'): str('array'), str('dtype'): str('int64'), str('data'): list[int(1), int(2)], str('encoding'): dict{}}, str('attrs'): dict{}}, str('a'): dict{str('__type__'): str('variable'), str('dims'): list[str('a')], str('data'): dict{str('__type__'): str('array'), str('dtype'): str('int64'), str('data'): list[int(1), int(2)], str('encoding'): dict{}}, str('attrs'): dict{}}}, str('path'): str('/'), str('attrs'): dict{}}",
    'encode_group/foreign-entry-ndarray': "raised AttributeError: 'numpy.ndarray' object has no attribute 'dims'",
    'encode_group/foreign-entry-dict': "raised AttributeError: 'dict' object has no attribute 'data'",
    'encode_group/foreign-entry-none': "raised AttributeError: 'NoneType' object has no attribute 'data'",
    'encode_group/foreign-entry-array': "raised AttributeError: 'Array' object has no attribute 'data'",
    'encode_group/foreign-entry-simplenamespace': "dict{str('__type__'): str('group'), str('url'): str('u'), str('data'): dict{str('a'): dict{str('__type__'): str('variable'), str('dims'): list[str('x')], str('data'): dict{str('__type__'): str('array'), str('dtype'): str('int64'), str('data'): list[int(1), int(2)], str('encoding'): dict{}}, str('attrs'): dict{}}, str('foreign'): dict{str('__type__'): str('variable'), str('dims'): tuple[str('q')], str('data'): dict{str('__type__'): str('array'), str('dtype'): str('int64'), str('data'): list[int(1), int(2)], str('encoding'): dict{}}, str('attrs'): dict{str('duck'): bool(True)}}}, str('path'): str('/'), str('attrs'): dict{}}",
    'encode_group/bad-variable-data': 'raised IndexError: index 0 is out of bounds for axis 0 with size 0',
    'encode_group/not-a-group-variable': "raised AttributeError: 'list' object has no attribute 'keys'",
    'encode_group/not-a-group-dict': "raised AttributeError: 'dict' object has no attribute 'data'",
    'encode_group/not-a-group-none': "raised AttributeError: 'NoneType' object has no attribute 'data'",
    'encode_group/not-a-group-namespace-like-group': "dict{str('__type__'): str('group'), str('url'): str('u'), str('data'): dict{str('v'): dict{str('__type__'): str('variable'), str('dims'): list[str('x')], str('data'): dict{str('__type__'): str('array'), str('dtype'): str('int64'), str('data'): list[int(1), int(2)], str('encoding'): dict{}}, str('attrs'): dict{}}, str('g'): dict{str('__type__'): str('group'), str('url'): NoneType(None), str('data'): dict{}, str('path'): str('/'), str('attrs'): dict{}}}, str('path'): str('/p'), str('attrs'): dict{str('a'): int(1)}}",
    'encode_group/not-a-group-namespace-missing-attrs': "raised AttributeError: 'types.SimpleNamespace' object has no attribute 'attrs'",
    'encode_group/not-a-group-namespace-missing-data': "raised AttributeError: 'types.SimpleNamespace' object has no attribute 'data'",
    'encode_hierarchy/group-empty': "dict{str('__type__'): str('group'), str('url'): NoneType(None), str('data'): dict{}, str('path'): str('/'), str('attrs'): dict{}}",
    'encode_hierarchy/group-empty-with-path': "dict{str('__type__'): str('group'), str('url'): str('s3://bucket/x'), str('data'): dict{}, str('path'): str('/a/b'), str('attrs'): dict{str('a'): int(1)}}",
    'encode_hierarchy/group-flat': "dict{str('__type__'): str('group'), str('url'): str('u'), str('data'): dict{str('b'): dict{str('__type__'): str('variable'), str('dims'): list[str('b')], str('data'): dict{str('__type__'): str('array'), str('dtype'): str('int64'), str('data'): list[int(1), int(2)], str('encoding'): dict{}}, str('attrs'): dict{}}, str('a'): dict{str('__type__'): str('variable'), str('dims'): list[str('a')], str('data'): dict{str('__type__'): str('array'), str('dtype'): str('float64'), str('data'): list[float(2.5)], str('encoding'): dict{}}, str('attrs'): dict{str('k'): str('v')}}}, str('path'): str('/'), str('attrs'): dict{}}",
    'encode_hierarchy/group-backend-array': "dict{str('__type__'): str('group'), str('url'): NoneType(None), str('data'): dict{str('img'): dict{str('__type__'): str('variable'), str('dims'): list[str('r'), str('c')], str('data'): dict{str('__type__'): str('backend_array'), str('root'): str('/path/to'), str('url'): str('file'), str('shape'): tuple[int(4), int(3)], str('dtype'): str('complex64'), str('byte_ranges'): list[tuple[int(5), int(10)], tuple[int(15), int(20)], tuple[int(25), int(30)], tuple[int(35), int(40)]], str('type_code'): str('C*8')}, str('attrs'): dict{}}}, str('path'): str('/'), str('attrs'): dict{}}",
    'encode_hierarchy/group-nested': "dict{str('__type__'): str('group'), str('url'): str('s3://bucket/scene'), str('data'): dict{str('t'): dict{str('__type__'): str('variable'), str('dims'): list[str('t')], str('data'): dict{str('__type__'): str('array'), str('dtype'): str('datetime64[s]'), str('data'): list[int(0), int(172800)], str('encoding'): dict{str('reference'): str('2000-01-01T00:00:00'), str('units'): str('s')}}, str('attrs'): dict{}}, str('dt'): dict{str('__type__'): str('variable'), str('dims'): list[str('t')], str('data'): dict{str('__type__'): str('array'), str('dtype'): str('timedelta64[D]'), str('data'): list[int(0), int(2)], str('encoding'): dict{str('units'): str('D')}}, str('attrs'): dict{str('a'): tuple[int(1), int(2)]}}, str('sub'): dict{str('__type__'): str('group'), str('url'): str('s3://bucket/scene'), str('data'): dict{str('img'): dict{str('__type__'): str('variable'), str('dims'): list[str('rows'), str('cols')], str('data'): dict{str('__type__'): str('backend_array'), str('root'): str('/path/to'), str('url'): str('file'), str('shape'): tuple[int(4), int(3)], str('dtype'): str('int16'), str('byte_ranges'): list[tuple[int(5), int(10)], tuple[int(15), int(20)], tuple[int(25), int(30)], tuple[int(35), int(40)]], str('type_code'): str('IU2')}, str('attrs'): dict{str('units'): str('dn')}}, str('deeper'): dict{str('__type__'): str('group'), str('url'): str('file:///other'), str('data'): dict{str('z'): dict{str('__type__'): str('variable'), str('dims'): list[str('z')], str('data'): dict{str('__type__'): str('array'), str('dtype'): str('float64'), str('data'): list[float(1.5)], str('encoding'): dict{}}, str('attrs'): dict{}}, str('empty'): dict{str('__type__'): str('group'), str('url'): str('file:///other'), str('data'): dict{}, str('path'): str('/sub/deeper/empty'), str('attrs'): dict{}}}, str('path'): str('/sub/deeper'), str('attrs'): dict{str('level'): int(3), str('nested'): dict{str('t'): tuple[int(1), tuple[int(2), int(3)]]}}}}, str('path'): str('/sub'), str('attrs'): dict{str('n'): int(1)}}, str('x'): dict{str('__type__'): str('variable'), str('dims'): list[str('x')], str('data'): dict{str('__type__'): str('array'), str('dtype'): str('float64'), str('data'): list[float(1.0), float(2.0)], str('encoding'): dict{}}, str('attrs'): dict{}}}, str('path'): str('/'), str('attrs'): dict{str('shape'): tuple[int(2), int(3)], str('list'): list[int(1), tuple[int(2), int(3)]]}}",
    'encode_hierarchy/group-only-groups': "dict{str('__type__'): str('group'), str('url'): str('u'), str('data'): dict{str('g1'): dict{str('__type__'): str('group'), str('url'): str('u'), str('data'): dict{}, str('path'): str('/g1'), str('attrs'): dict{}}, str('g2'): dict{str('__type__'): str('group'), str('url'): str('other'), str('data'): dict{}, str('path'): str('/g2'), str('attrs'): dict{str('a'): list[int(1)]}}}, str('path'): str('/'), str('attrs'): dict{}}",
    'encode_hierarchy/group-subclass': "dict{str('__type__'): str('group'), str('url'): str('u'), str('data'): dict{str('sub'): dict{str('__type__'): str('group'), str('url'): str('u'), str('data'): dict{str('v'): dict{str('__type__'): str('variable'), str('dims'): list[str('x')], str('data'): dict{str('__type__'): str('array'), str('dtype'): str('int64'), str('data'): list[int(1), int(2)], str('encoding'): dict{}}, str('attrs'): dict{}}}, str('path'): str('/sub'), str('attrs'): dict{}}, str('w'): dict{str('__type__'): str('variable'), str('dims'): list[str('w')], str('data'): dict{str('__type__'): str('array'), str('dtype'): str('int64'), str('data'): list[int(1)], str('encoding'): dict{}}, str('attrs'): dict{}}}, str('path'): str('/'), str('attrs'): dict{}}",
    'encode_hierarchy/group-via-setitem': "dict{str('__type__'): str('group'), str('url'): str('memory://root'), str('data'): dict{str('b'): dict{str('__type__'): str('variable'), str('dims'): list[str('b')], str('data'): dict{str('__type__'): str('array'), str('dtype'): str('int64'), str('data'): list[int(3)], str('encoding'): dict{}}, str('attrs'): dict{}}, str('a'): dict{str('__type__'): str('group'), str('url'): str('memory://root'), str('data'): dict{str('c'): dict{str('__type__'): str('variable'), str('dims'): list[str('c')], str('data'): dict{str('__type__'): str('array'), str('dtype'): str('int64'), str('data'): list[int(4)], str('encoding'): dict{}}, str('attrs'): dict{}}}, str('path'): str('/g/a'), str('attrs'): dict{}}}, str('path'): str('/g'), str('attrs'): dict{}}",
    'encode_hierarchy/group-ordered-data': "dict{str('__type__'): str('group'), str('url'): str('u'), str('data'): dict{str('z'): dict{str('__type__'): str('variable'), str('dims'): list[str('z')], str('data'): dict{str('__type__'): str('array'), str('dtype'): str('int64'), str('data'): list[int(1), int(2)], str('encoding'): dict{}}, str('attrs'): dict{}}, str('a'): dict{str('__type__'): str('variable'), str('dims'): list[str('a')], str('data'): dict{str('__type__'): str('array'), str('dtype'): str('int64'), str('data'): list[int(1), int(2)], str('encoding'): dict{}}, str('attrs'): dict{}}}, str('path'): str('/'), str('attrs'): dict{}}",
    'encode_hierarchy/group-foreign-entry-ndarray': "raised AttributeError: 'numpy.ndarray' object has no attribute 'dims'",
    'encode_hierarchy/group-foreign-entry-dict': "raised AttributeError: 'dict' object has no attribute 'data'",
    'encode_hierarchy/group-foreign-entry-none': "raised AttributeError: 'NoneType' object has no attribute 'data'",
    'encode_hierarchy/group-foreign-entry-array': "raised AttributeError: 'Array' object has no attribute 'data'",
    'encode_hierarchy/group-foreign-entry-simplenamespace': "dict{str('__type__'): str('group'), str('url'): str('u'), str('data'): dict{str('a'): dict{str('__type__'): str('variable'), str('dims'): list[str('x')], str('data'): dict{str('__type__'): str('array'), str('dtype'): str('int64'), str('data'): list[int(1), int(2)], str('encoding'): dict{}}, str('attrs'): dict{}}, str('foreign'): dict{str('__type__'): str('variable'), str('dims'): tuple[str('q')], str('data'): dict{str('__type__'): str('array'), str('dtype'): str('int64'), str('data'): list[int(1), int(2)], str('encoding'): dict{}}, str('attrs'): dict{str('duck'): bool(True)}}}, str('path'): str('/'), str('attrs'): dict{}}",
    'encode_hierarchy/group-bad-variable-data': 'raised IndexError: index 0 is out of bounds for axis 0 with size 0',
    'encode_hierarchy/variable-list': "dict{str('__type__'): str('variable'), str('dims'): list[str('x')], str('data'): dict{str('__type__'): str('array'), str('dtype'): str('int64'), str('data'): list[int(1), int(2)], str('encoding'): dict{}}, str('attrs'): dict{}}",
    'encode_hierarchy/variable-datetime': "dict{str('__type__'): str('variable'), str('dims'): list[str('t')], str('data'): dict{str('__type__'): str('array'), str('dtype'): str('datetime64[s]'), str('data'): list[int(0), int(172800)], str('encoding'): dict{str('reference'): str('2000-01-01T00:00:00'), str('units'): str('s')}}, str('attrs'): dict{str('a'): int(1)}}",
    'encode_hierarchy/variable-backend': "dict{str('__type__'): str('variable'), str('dims'): list[str('r'), str('c')], str('data'): dict{str('__type__'): str('backend_array'), str('root'): str('/path/to'), str('url'): str('file'), str('shape'): tuple[int(4), int(3)], str('dtype'): str('int16'), str('byte_ranges'): list[tuple[int(5), int(10)], tuple[int(15), int(20)], tuple[int(25), int(30)], tuple[int(35), int(40)]], str('type_code'): str('IU2')}, str('attrs'): dict{}}",
    'encode_hierarchy/variable-subclass': "dict{str('__type__'): str('variable'), str('dims'): list[str('w')], str('data'): dict{str('__type__'): str('array'), str('dtype'): str('int64'), str('data'): list[int(1), int(2)], str('encoding'): dict{}}, str('attrs'): dict{}}",
    'encode_hierarchy/variable-bad': 'raised IndexError: index 0 is out of bounds for axis 0 with size 0',
    'encode_hierarchy/array': "Array@Array(url='file', shape=(4, 3), dtype='int16', records_per_chunk=2)",
    'encode_hierarchy/ndarray': 'ndarray<int64, (2,)>([1, 2])',
    'encode_hierarchy/dict': "dict{str('__type__'): str('group'), str('data'): dict{}}",
    'encode_hierarchy/list': "list[Variable@Variable(dims=['x'], data=[1, 2], attrs={})]",
    'encode_hierarchy/tuple': 'tuple[int(1), int(2)]',
    'encode_hierarchy/none': 'NoneType(None)',
    'encode_hierarchy/int': 'int(5)',
    'encode_hierarchy/str': "str('group')",
    'encode_hierarchy/class-Group': "ABCMeta(<class 'ceos_alos2.hierarchy.Group'>)",
    'preprocess/int': 'int(1)',
    'preprocess/float': 'float(1.5)',
    'preprocess/none': 'NoneType(None)',
    'preprocess/str': "str('abc')",
    'preprocess/bytes': "bytes(b'abc')",
    'preprocess/bool': 'bool(True)',
    'preprocess/empty-dict': 'dict{}',
    'preprocess/empty-list': 'list[]',
    'preprocess/empty-tuple': "dict{str('__type__'): str('tuple'), str('data'): list[]}",
    'preprocess/flat-dict': "dict{str('b'): int(1), str('a'): str('x'), str('c'): NoneType(None)}",
    'preprocess/flat-list': "list[int(3), str('a'), NoneType(None), float(1.5)]",
    'preprocess/flat-tuple': "dict{str('__type__'): str('tuple'), str('data'): list[int(1), str('a')]}",
    'preprocess/tuple-in-tuple': "dict{str('__type__'): str('tuple'), str('data'): list[int(1), dict{str('__type__'): str('tuple'), str('data'): list[int(2), dict{str('__type__'): str('tuple'), str('data'): list[int(3), dict{str('__type__'): str('tuple'), str('data'): list[]}]}]}, list[int(4), dict{str('__type__'): str('tuple'), str('data'): list[int(5)]}]]}",
    'preprocess/list-of-tuples': "list[dict{str('__type__'): str('tuple'), str('data'): list[int(5), int(10)]}, dict{str('__type__'): str('tuple'), str('data'): list[int(15), int(20)]}]",
    'preprocess/dict-of-all': "dict{str('t'): dict{str('__type__'): str('tuple'), str('data'): list[int(1), int(2)]}, str('l'): list[int(1), dict{str('__type__'): str('tuple'), str('data'): list[int(2)]}], str('d'): dict{str('t'): dict{str('__type__'): str('tuple'), str('data'): list[dict{str('__type__'): str('tuple'), str('data'): list[]}, list[]]}}, str('s'): str('str')}",
    'preprocess/nested-lists': "list[list[int(1), list[int(2), list[int(3), list[dict{str('__type__'): str('tuple'), str('data'): list[int(4)]}]]]]]",
    'preprocess/non-str-keys': "dict{int(1): dict{str('__type__'): str('tuple'), str('data'): list[int(1)]}, tuple[int(1), int(2)]: str('tuple key stays'), NoneType(None): list[dict{str('__type__'): str('tuple'), str('data'): list[]}], float(2.5): dict{}}",
    'preprocess/type-key-collision': "dict{str('__type__'): str('tuple'), str('data'): dict{str('__type__'): str('tuple'), str('data'): list[int(1), int(2)]}}",
    'preprocess/ordered-dict': "dict{str('z'): dict{str('__type__'): str('tuple'), str('data'): list[int(1)]}, str('a'): list[int(2)]}",
    'preprocess/default-dict': "dict{str('a'): dict{str('__type__'): str('tuple'), str('data'): list[int(1)]}, str('b'): list[]}",
    'preprocess/dict-subclass': "dict{str('a'): dict{str('__type__'): str('tuple'), str('data'): list[int(1)]}, str('b'): dict{str('c'): list[dict{str('__type__'): str('tuple'), str('data'): list[]}]}}",
    'preprocess/counter': "dict{str('a'): int(2), str('b'): int(1)}",
    'preprocess/mapping-proxy': "mappingproxy(mappingproxy({'a': (1,)}))",
    'preprocess/chain-map': "ChainMap(ChainMap({'a': (1,)}))",
    'preprocess/list-subclass': "list[dict{str('__type__'): str('tuple'), str('data'): list[int(1)]}, list[int(2)]]",
    'preprocess/named-tuple': "dict{str('__type__'): str('tuple'), str('data'): list[int(1), dict{str('__type__'): str('tuple'), str('data'): list[int(2), int(3)]}]}",
    'preprocess/set': 'set({1})',
    'preprocess/frozenset': 'frozenset(frozenset({(1, 2)}))',
    'preprocess/range': 'range(range(0, 3))',
    'preprocess/deque': 'deque(deque([(1,)]))',
    'preprocess/generator': '<generator object>',
    'preprocess/map-object': 'list[<map object>]',
    'preprocess/ndarray': 'ndarray<int64, (1, 2)>([[1, 2]])',
    'preprocess/ndarray-in-containers': "dict{str('a'): list[ndarray<int64, (1,)>([1]), dict{str('__type__'): str('tuple'), str('data'): list[float32<float32>(np.float32(2.0))]}]}",
    'preprocess/variable': "list[Variable@Variable(dims=['x'], data=[1, 2], attrs={})]",
    'preprocess/nan': "list[float(nan), dict{str('__type__'): str('tuple'), str('data'): list[float(inf)]}]",
    'preprocess/deep-100': "dict{str('k'): dict{str('__type__'): str('tuple'), str('data'): list[list[dict{str('k'): dict{str('__type__'): str('tuple'), str('data'): list[list[dict{str('k'): dict{str('__type__'): str('tuple'), str('data'): list[list[dict{str('k'): dict{str('__type__'): str('tuple'), str('data'): list[list[dict{str('k'): dict{str('__type__'): str('tuple'), str('data'): list[list[dict{str('k'): dict{str('__type__'): str('tuple'), str('data'): list[list[dict{str('k'): dict{str('__type__'): str('tuple'), str('data'): list[list[dict{str('k'): dict{str('__type__'): str('tuple'), str('data'): list[list[dict{str('k'): dict{str('__type__'): str('tuple'), str('data'): list[list[dict{str('k'): dict{str('__type__'): str('tuple'), str('data'): list[list[dict{str('k'): dict{str('__type__'): str('tuple'), str('data'): list[list[dict{str('k'): dict{str('__type__'): str('tuple'), str('data'): list[list[dict{str('k'): dict{str('__type__'): str('tuple'), str('data'): list[list[dict{str('k'): dict{str('__type__'): str('tuple'), str('data'): list[list[dict{str('k'): dict{str('__type__'): str('tuple'), str('data'): list[list[dict{str('k'): dict{str('__type__'): str('tuple'), str('data'): list[list[dict{str('k'): dict{str('__type__'): str('tuple'), str('data'): list[list[dict{str('k'): dict{str('__type__'): str('tuple'), str('data'): list[list[dict{str('k'): dict{str('__type__'): str('tuple'), str('data'): list[list[dict{str('k'): dict{str('__type__'): str('tuple'), str('data'): list[list[dict{str('k'): dict{str('__type__'): str('tuple'), str('data'): list[list[dict{str('k'): dict{str('__type__'): str('tuple'), str('data'): list[list[dict{str('k'): dict{str('__type__'): str('tuple'), str('data'): list[list[dict{str('k'): dict{str('__type__'): str('tuple'), str('data'): list[list[dict{str('k'): dict{str('__type__'): str('tuple'), str('data'): list[list[dict{str('k'): dict{str('__type__'): str('tuple'), str('data'): list[list[dict{str('k'): dict{str('__type__'): str('tuple'), str('data'): list[list[dict{str('k'): dict{str('__type__'): str('tuple'), str('data'): list[list[dict{str('k'): dict{str('__type__'): str('tuple'), str('data'): list[list[dict{str('k'): dict{str('__type__'): str('tuple'), str('data'): list[list[dict{str('k'): dict{str('__type__'): str('tuple'), str('data'): list[list[dict{str('k'): dict{str('__type__'): str('tuple'), str('data'): list[list[dict{str('k'): dict{str('__type__'): str('tuple'), str('data'): list[list[dict{str('k'): dict{str('__type__'): str('tuple'), str('data'): list[str('leaf')]}}]]}}]]}}]]}}]]}}]]}}]]}}]]}}]]}}]]}}]]}}]]}}]]}}]]}}]]}}]]}}]]}}]]}}]]}}]]}}]]}}]]}}]]}}]]}}]]}}]]}}]]}}]]}}]]}}]]}}]]}}]]}}]]}}]]}}",
    'preprocess/wide': "dict{str('0'): dict{str('__type__'): str('tuple'), str('data'): list[int(0), list[int(0)]]}, str('1'): dict{str('__type__'): str('tuple'), str('data'): list[int(1), list[int(1)]]}, str('2'): dict{str('__type__'): str('tuple'), str('data'): list[int(2), list[int(2)]]}, str('3'): dict{str('__type__'): str('tuple'), str('data'): list[int(3), list[int(3)]]}, str('4'): dict{str('__type__'): str('tuple'), str('data'): list[int(4), list[int(4)]]}, str('5'): dict{str('__type__'): str('tuple'), str('data'): list[int(5), list[int(5)]]}, str('6'): dict{str('__type__'): str('tuple'), str('data'): list[int(6), list[int(6)]]}, str('7'): dict{str('__type__'): str('tuple'), str('data'): list[int(7), list[int(7)]]}, str('8'): dict{str('__type__'): str('tuple'), str('data'): list[int(8), list[int(8)]]}, str('9'): dict{str('__type__'): str('tuple'), str('data'): list[int(9), list[int(9)]]}, str('10'): dict{str('__type__'): str('tuple'), str('data'): list[int(10), list[int(10)]]}, str('11'): dict{str('__type__'): str('tuple'), str('data'): list[int(11), list[int(11)]]}, str('12'): dict{str('__type__'): str('tuple'), str('data'): list[int(12), list[int(12)]]}, str('13'): dict{str('__type__'): str('tuple'), str('data'): list[int(13), list[int(13)]]}, str('14'): dict{str('__type__'): str('tuple'), str('data'): list[int(14), list[int(14)]]}, str('15'): dict{str('__type__'): str('tuple'), str('data'): list[int(15), list[int(15)]]}, str('16'): dict{str('__type__'): str('tuple'), str('data'): list[int(16), list[int(16)]]}, str('17'): dict{str('__type__'): str('tuple'), str('data'): list[int(17), list[int(17)]]}, str('18'): dict{str('__type__'): str('tuple'), str('data'): list[int(18), list[int(18)]]}, str('19'): dict{str('__type__'): str('tuple'), str('data'): list[int(19), list[int(19)]]}, str('20'): dict{str('__type__'): str('tuple'), str('data'): list[int(20), list[int(20)]]}, str('21'): dict{str('__type__'): str('tuple'), str('data'): list[int(21), list[int(21)]]}, str('22'): dict{str('__type__'): str('tuple'), str('data'): list[int(22), list[int(22)]]}, str('23'): dict{str('__type__'): str('tuple'), str('data'): list[int(23), list[int(23)]]}, str('24'): dict{str('__type__'): str('tuple'), str('data'): list[int(24), list[int(24)]]}, str('25'): dict{str('__type__'): str('tuple'), str('data'): list[int(25), list[int(25)]]}, str('26'): dict{str('__type__'): str('tuple'), str('data'): list[int(26), list[int(26)]]}, str('27'): dict{str('__type__'): str('tuple'), str('data'): list[int(27), list[int(27)]]}, str('28'): dict{str('__type__'): str('tuple'), str('data'): list[int(28), list[int(28)]]}, str('29'): dict{str('__type__'): str('tuple'), str('data'): list[int(29), list[int(29)]]}, str('30'): dict{str('__type__'): str('tuple'), str('data'): list[int(30), list[int(30)]]}, str('31'): dict{str('__type__'): str('tuple'), str('data'): list[int(31), list[int(31)]]}, str('32'): dict{str('__type__'): str('tuple'), str('data'): list[int(32), list[int(32)]]}, str('33'): dict{str('__type__'): str('tuple'), str('data'): list[int(33), list[int(33)]]}, str('34'): dict{str('__type__'): str('tuple'), str('data'): list[int(34), list[int(34)]]}, str('35'): dict{str('__type__'): str('tuple'), str('data'): list[int(35), list[int(35)]]}, str('36'): dict{str('__type__'): str('tuple'), str('data'): list[int(36), list[int(36)]]}, str('37'): dict{str('__type__'): str('tuple'), str('data'): list[int(37), list[int(37)]]}, str('38'): dict{str('__type__'): str('tuple'), str('data'): list[int(38), list[int(38)]]}, str('39'): dict{str('__type__'): str('tuple'), str('data'): list[int(39), list[int(39)]]}, str('40'): dict{str('__type__'): str('tuple'), str('data'): list[int(40), list[int(40)]]}, str('41'): dict{str('__type__'): str('tuple'), str('data'): list[int(41), list[int(41)]]}, str('42'): dict{str('__type__'): str('tuple'), str('data'): list[int(42), list[int(42)]]}, str('43'): dict{str('__type__'): str('tuple'), str('data'): list[int(43), list[int(43)]]}, str('44'): dict{str('__type__'): str('tuple'), str('data'): list[int(44), list[int(44)]]}, str('45'): dict{str('__type__'): str('tuple'), str('data'): list[int(45), list[int(45)]]}, str('46'): dict{str('__type__'): str('tuple'), str('data'): list[int(46), list[int(46)]]}, str('47'): dict{str('__type__'): str('tuple'), str('data'): list[int(47), list[int(47)]]}, str('48'): dict{str('__type__'): str('tuple'), str('data'): list[int(48), list[int(48)]]}, str('49'): dict{str('__type__'): str('tuple'), str('data'): list[int(49), list[int(49)]]}}",
    'preprocess-encoded/empty': "dict{str('__type__'): str('group'), str('url'): NoneType(None), str('data'): dict{}, str('path'): str('/'), str('attrs'): dict{}}",
    'encode/empty': 'str(\'{"__type__": "group", "url": null, "data": {}, "path": "/", "attrs": {}}\')',
    'preprocess-encoded/empty-with-path': "dict{str('__type__'): str('group'), str('url'): str('s3://bucket/x'), str('data'): dict{}, str('path'): str('/a/b'), str('attrs'): dict{str('a'): int(1)}}",
    'encode/empty-with-path': 'str(\'{"__type__": "group", "url": "s3://bucket/x", "data": {}, "path": "/a/b", "attrs": {"a": 1}}\')',
    'preprocess-encoded/flat': "dict{str('__type__'): str('group'), str('url'): str('u'), str('data'): dict{str('b'): dict{str('__type__'): str('variable'), str('dims'): list[str('b')], str('data'): dict{str('__type__'): str('array'), str('dtype'): str('int64'), str('data'): list[int(1), int(2)], str('encoding'): dict{}}, str('attrs'): dict{}}, str('a'): dict{str('__type__'): str('variable'), str('dims'): list[str('a')], str('data'): dict{str('__type__'): str('array'), str('dtype'): str('float64'), str('data'): list[float(2.5)], str('encoding'): dict{}}, str('attrs'): dict{str('k'): str('v')}}}, str('path'): str('/'), str('attrs'): dict{}}",
    'encode/flat': 'str(\'{"__type__": "group", "url": "u", "data": {"b": {"__type__": "variable", "dims": ["b"], "data": {"__type__": "array", "dtype": "int64", "data": [1, 2], "encoding": {}}, "attrs": {}}, "a": {"__type__": "variable", "dims": ["a"], "data": {"__type__": "array", "dtype": "float64", "data": [2.5], "encoding": {}}, "attrs": {"k": "v"}}}, "path": "/", "attrs": {}}\')',
    'preprocess-encoded/backend-array': "dict{str('__type__'): str('group'), str('url'): NoneType(None), str('data'): dict{str('img'): dict{str('__type__'): str('variable'), str('dims'): list[str('r'), str('c')], str('data'): dict{str('__type__'): str('backend_array'), str('root'): str('/path/to'), str('url'): str('file'), str('shape'): dict{str('__type__'): str('tuple'), str('data'): list[int(4), int(3)]}, str('dtype'): str('complex64'), str('byte_ranges'): list[dict{str('__type__'): str('tuple'), str('data'): list[int(5), int(10)]}, dict{str('__type__'): str('tuple'), str('data'): list[int(15), int(20)]}, dict{str('__type__'): str('tuple'), str('data'): list[int(25), int(30)]}, dict{str('__type__'): str('tuple'), str('data'): list[int(35), int(40)]}], str('type_code'): str('C*8')}, str('attrs'): dict{}}}, str('path'): str('/'), str('attrs'): dict{}}",
    'encode/backend-array': 'str(\'{"__type__": "group", "url": null, "data": {"img": {"__type__": "variable", "dims": ["r", "c"], "data": {"__type__": "backend_array", "root": "/path/to", "url": "file", "shape": {"__type__": "tuple", "data": [4, 3]}, "dtype": "complex64", "byte_ranges": [{"__type__": "tuple", "data": [5, 10]}, {"__type__": "tuple", "data": [15, 20]}, {"__type__": "tuple", "data": [25, 30]}, {"__type__": "tuple", "data": [35, 40]}], "type_code": "C*8"}, "attrs": {}}}, "path": "/", "attrs": {}}\')',
    'preprocess-encoded/nested': "dict{str('__type__'): str('group'), str('url'): str('s3://bucket/scene'), str('data'): dict{str('t'): dict{str('__type__'): str('variable'), str('dims'): list[str('t')], str('data'): dict{str('__type__'): str('array'), str('dtype'): str('datetime64[s]'), str('data'): list[int(0), int(172800)], str('encoding'): dict{str('reference'): str('2000-01-01T00:00:00'), str('units'): str('s')}}, str('attrs'): dict{}}, str('dt'): dict{str('__type__'): str('variable'), str('dims'): list[str('t')], str('data'): dict{str('__type__'): str('array'), str('dtype'): str('timedelta64[D]'), str('data'): list[int(0), int(2)], str('encoding'): dict{str('units'): str('D')}}, str('attrs'): dict{str('a'): dict{str('__type__'): str('tuple'), str('data'): list[int(1), int(2)]}}}, str('sub'): dict{str('__type__'): str('group'), str('url'): str('s3://bucket/scene'), str('data'): dict{str('img'): dict{str('__type__'): str('variable'), str('dims'): list[str('rows'), str('cols')], str('data'): dict{str('__type__'): str('backend_array'), str('root'): str('/path/to'), str('url'): str('file'), str('shape'): dict{str('__type__'): str('tuple'), str('data'): list[int(4), int(3)]}, str('dtype'): str('int16'), str('byte_ranges'): list[dict{str('__type__'): str('tuple'), str('data'): list[int(5), int(10)]}, dict{str('__type__'): str('tuple'), str('data'): list[int(15), int(20)]}, dict{str('__type__'): str('tuple'), str('data'): list[int(25), int(30)]}, dict{str('__type__'): str('tuple'), str('data'): list[int(35), int(40)]}], str('type_code'): str('IU2')}, str('attrs'): dict{str('units'): str('dn')}}, str('deeper'): dict{str('__type__'): str('group'), str('url'): str('file:///other'), str('data'): dict{str('z'): dict{str('__type__'): str('variable'), str('dims'): list[str('z')], str('data'): dict{str('__type__'): str('array'), str('dtype'): str('float64'), str('data'): list[float(1.5)], str('encoding'): dict{}}, str('attrs'): dict{}}, str('empty'): dict{str('__type__'): str('group'), str('url'): str('file:///other'), str('data'): dict{}, str('path'): str('/sub/deeper/empty'), str('attrs'): dict{}}}, str('path'): str('/sub/deeper'), str('attrs'): dict{str('level'): int(3), str('nested'): dict{str('t'): dict{str('__type__'): str('tuple'), str('data'): list[int(1), dict{str('__type__'): str('tuple'), str('data'): list[int(2), int(3)]}]}}}}}, str('path'): str('/sub'), str('attrs'): dict{str('n'): int(1)}}, str('x'): dict{str('__type__'): str('variable'), str('dims'): list[str('x')], str('data'): dict{str('__type__'): str('array'), str('dtype'): str('float64'), str('data'): list[float(1.0), float(2.0)], str('encoding'): dict{}}, str('attrs'): dict{}}}, str('path'): str('/'), str('attrs'): dict{str('shape'): dict{str('__type__'): str('tuple'), str('data'): list[int(2), int(3)]}, str('list'): list[int(1), dict{str('__type__'): str('tuple'), str('data'): list[int(2), int(3)]}]}}",
    'encode/nested': 'str(\'{"__type__": "group", "url": "s3://bucket/scene", "data": {"t": {"__type__": "variable", "dims": ["t"], "data": {"__type__": "array", "dtype": "datetime64[s]", "data": [0, 172800], "encoding": {"reference": "2000-01-01T00:00:00", "units": "s"}}, "attrs": {}}, "dt": {"__type__": "variable", "dims": ["t"], "data": {"__type__": "array", "dtype": "timedelta64[D]", "data": [0, 2], "encoding": {"units": "D"}}, "attrs": {"a": {"__type__": "tuple", "data": [1, 2]}}}, "sub": {"__type__": "group", "url": "s3://bucket/scene", "data": {"img": {"__type__": "variable", "dims": ["rows", "cols"], "data": {"__type__": "backend_array", "root": "/path/to", "url": "file", "shape": {"__type__": "tuple", "data": [4, 3]}, "dtype": "int16", "byte_ranges": [{"__type__": "tuple", "data": [5, 10]}, {"__type__": "tuple", "data": [15, 20]}, {"__type__": "tuple", "data": [25, 30]}, {"__type__": "tuple", "data": [35, 40]}], "type_code": "IU2"}, "attrs": {"units": "dn"}}, "deeper": {"__type__": "group", "url": "file:///other", "data": {"z": {"__type__": "variable", "dims": ["z"], "data": {"__type__": "array", "dtype": "float64", "data": [1.5], "encoding": {}}, "attrs": {}}, "empty": {"__type__": "group", "url": "file:///other", "data": {}, "path": "/sub/deeper/empty", "attrs": {}}}, "path": "/sub/deeper", "attrs": {"level": 3, "nested": {"t": {"__type__": "tuple", "data": [1, {"__type__": "tuple", "data": [2, 3]}]}}}}}, "path": "/sub", "attrs": {"n": 1}}, "x": {"__type__": "variable", "dims": ["x"], "data": {"__type__": "array", "dtype": "float64", "data": [1.0, 2.0], "encoding": {}}, "attrs": {}}}, "path": "/", "attrs": {"shape": {"__type__": "tuple", "data": [2, 3]}, "list": [1, {"__type__": "tuple", "data": [2, 3]}]}}\')',
    'preprocess-encoded/only-groups': "dict{str('__type__'): str('group'), str('url'): str('u'), str('data'): dict{str('g1'): dict{str('__type__'): str('group'), str('url'): str('u'), str('data'): dict{}, str('path'): str('/g1'), str('attrs'): dict{}}, str('g2'): dict{str('__type__'): str('group'), str('url'): str('other'), str('data'): dict{}, str('path'): str('/g2'), str('attrs'): dict{str('a'): list[int(1)]}}}, str('path'): str('/'), str('attrs'): dict{}}",
    'encode/only-groups': 'str(\'{"__type__": "group", "url": "u", "data": {"g1": {"__type__": "group", "url": "u", "data": {}, "path": "/g1", "attrs": {}}, "g2": {"__type__": "group", "url": "other", "data": {}, "path": "/g2", "attrs": {"a": [1]}}}, "path": "/", "attrs": {}}\')',
    'preprocess-encoded/subclass': "dict{str('__type__'): str('group'), str('url'): str('u'), str('data'): dict{str('sub'): dict{str('__type__'): str('group'), str('url'): str('u'), str('data'): dict{str('v'): dict{str('__type__'): str('variable'), str('dims'): list[str('x')], str('data'): dict{str('__type__'): str('array'), str('dtype'): str('int64'), str('data'): list[int(1), int(2)], str('encoding'): dict{}}, str('attrs'): dict{}}}, str('path'): str('/sub'), str('attrs'): dict{}}, str('w'): dict{str('__type__'): str('variable'), str('dims'): list[str('w')], str('data'): dict{str('__type__'): str('array'), str('dtype'): str('int64'), str('data'): list[int(1)], str('encoding'): dict{}}, str('attrs'): dict{}}}, str('path'): str('/'), str('attrs'): dict{}}",
    'encode/subclass': 'str(\'{"__type__": "group", "url": "u", "data": {"sub": {"__type__": "group", "url": "u", "data": {"v": {"__type__": "variable", "dims": ["x"], "data": {"__type__": "array", "dtype": "int64", "data": [1, 2], "encoding": {}}, "attrs": {}}}, "path": "/sub", "attrs": {}}, "w": {"__type__": "variable", "dims": ["w"], "data": {"__type__": "array", "dtype": "int64", "data": [1], "encoding": {}}, "attrs": {}}}, "path": "/", "attrs": {}}\')',
    'preprocess-encoded/via-setitem': "dict{str('__type__'): str('group'), str('url'): str('memory://root'), str('data'): dict{str('b'): dict{str('__type__'): str('variable'), str('dims'): list[str('b')], str('data'): dict{str('__type__'): str('array'), str('dtype'): str('int64'), str('data'): list[int(3)], str('encoding'): dict{}}, str('attrs'): dict{}}, str('a'): dict{str('__type__'): str('group'), str('url'): str('memory://root'), str('data'): dict{str('c'): dict{str('__type__'): str('variable'), str('dims'): list[str('c')], str('data'): dict{str('__type__'): str('array'), str('dtype'): str('int64'), str('data'): list[int(4)], str('encoding'): dict{}}, str('attrs'): dict{}}}, str('path'): str('/g/a'), str('attrs'): dict{}}}, str('path'): str('/g'), str('attrs'): dict{}}",
    'encode/via-setitem': 'str(\'{"__type__": "group", "url": "memory://root", "data": {"b": {"__type__": "variable", "dims": ["b"], "data": {"__type__": "array", "dtype": "int64", "data": [3], "encoding": {}}, "attrs": {}}, "a": {"__type__": "group", "url": "memory://root", "data": {"c": {"__type__": "variable", "dims": ["c"], "data": {"__type__": "array", "dtype": "int64", "data": [4], "encoding": {}}, "attrs": {}}}, "path": "/g/a", "attrs": {}}}, "path": "/g", "attrs": {}}\')',
    'preprocess-encoded/ordered-data': "dict{str('__type__'): str('group'), str('url'): str('u'), str('data'): dict{str('z'): dict{str('__type__'): str('variable'), str('dims'): list[str('z')], str('data'): dict{str('__type__'): str('array'), str('dtype'): str('int64'), str('data'): list[int(1), int(2)], str('encoding'): dict{}}, str('attrs'): dict{}}, str('a'): dict{str('__type__'): str('variable'), str('dims'): list[str('a')], str('data'): dict{str('__type__'): str('array'), str('dtype'): str('int64'), str('data'): list[int(1), int(2)], str('encoding'): dict{}}, str('attrs'): dict{}}}, str('path'): str('/'), str('attrs'): dict{}}",
    'encode/ordered-data': 'str(\'{"__type__": "group", "url": "u", "data": {"z": {"__type__": "variable", "dims": ["z"], "data": {"__type__": "array", "dtype": "int64", "data": [1, 2], "encoding": {}}, "attrs": {}}, "a": {"__type__": "variable", "dims": ["a"], "data": {"__type__": "array", "dtype": "int64", "data": [1, 2], "encoding": {}}, "attrs": {}}}, "path": "/", "attrs": {}}\')',
    'preprocess-encoded/foreign-entry-ndarray': "raised AttributeError: 'numpy.ndarray' object has no attribute 'dims'",
    'encode/foreign-entry-ndarray': "raised AttributeError: 'numpy.ndarray' object has no attribute 'dims'",
    'preprocess-encoded/foreign-entry-dict': "raised AttributeError: 'dict' object has no attribute 'data'",
    'encode/foreign-entry-dict': "raised AttributeError: 'dict' object has no attribute 'data'",
    'preprocess-encoded/foreign-entry-none': "raised AttributeError: 'NoneType' object has no attribute 'data'",
    'encode/foreign-entry-none': "raised AttributeError: 'NoneType' object has no attribute 'data'",
    'preprocess-encoded/foreign-entry-array': "raised AttributeError: 'Array' object has no attribute 'data'",
    'encode/foreign-entry-array': "raised AttributeError: 'Array' object has no attribute 'data'",
    'preprocess-encoded/foreign-entry-simplenamespace': "dict{str('__type__'): str('group'), str('url'): str('u'), str('data'): dict{str('a'): dict{str('__type__'): str('variable'), str('dims'): list[str('x')], str('data'): dict{str('__type__'): str('array'), str('dtype'): str('int64'), str('data'): list[int(1), int(2)], str('encoding'): dict{}}, str('attrs'): dict{}}, str('foreign'): dict{str('__type__'): str('variable'), str('dims'): dict{str('__type__'): str('tuple'), str('data'): list[str('q')]}, str('data'): dict{str('__type__'): str('array'), str('dtype'): str('int64'), str('data'): list[int(1), int(2)], str('encoding'): dict{}}, str('attrs'): dict{str('duck'): bool(True)}}}, str('path'): str('/'), str('attrs'): dict{}}",
    'encode/foreign-entry-simplenamespace': 'str(\'{"__type__": "group", "url": "u", "data": {"a": {"__type__": "variable", "dims": ["x"], "data": {"__type__": "array", "dtype": "int64", "data": [1, 2], "encoding": {}}, "attrs": {}}, "foreign": {"__type__": "variable", "dims": {"__type__": "tuple", "data": ["q"]}, "data": {"__type__": "array", "dtype": "int64", "data": [1, 2], "encoding": {}}, "attrs": {"duck": true}}}, "path": "/", "attrs": {}}\')',
    'preprocess-encoded/bad-variable-data': 'raised IndexError: index 0 is out of bounds for axis 0 with size 0',
    'encode/bad-variable-data': 'raised IndexError: index 0 is out of bounds for axis 0 with size 0',
    'identity-of-leaves': 'list[bool(True), bool(True), bool(True), bool(True), bool(True), list[bool(True), bool(True), bool(True), bool(True), bool(True)]]',
    'fresh-containers': 'list[bool(True), bool(True), bool(True), bool(True), bool(True), bool(True), bool(True), bool(True), bool(True), bool(True), bool(True)]',
    'patched-module-functions': "list[dict{str('__type__'): str('group'), str('url'): str('s3://bucket/scene'), str('data'): dict{str('t'): tuple[str('VAR'), list[str('t')]], str('dt'): tuple[str('VAR'), list[str('t')]], str('sub'): dict{str('__type__'): str('group'), str('url'): str('s3://bucket/scene'), str('data'): dict{str('img'): tuple[str('VAR'), list[str('rows'), str('cols')]], str('deeper'): dict{str('__type__'): str('group'), str('url'): str('file:///other'), str('data'): dict{str('z'): tuple[str('VAR'), list[str('z')]], str('empty'): dict{str('__type__'): str('group'), str('url'): str('file:///other'), str('data'): dict{}, str('path'): str('/sub/deeper/empty'), str('attrs'): dict{}}}, str('path'): str('/sub/deeper'), str('attrs'): dict{str('level'): int(3), str('nested'): dict{str('t'): tuple[int(1), tuple[int(2), int(3)]]}}}}, str('path'): str('/sub'), str('attrs'): dict{str('n'): int(1)}}, str('x'): tuple[str('VAR'), list[str('x')]]}, str('path'): str('/'), str('attrs'): dict{str('shape'): tuple[int(2), int(3)], str('list'): list[int(1), tuple[int(2), int(3)]]}}, tuple[str('VAR'), list[str('x')]], dict{str('__type__'): str('group'), str('url'): str('s3://bucket/scene'), str('data'): dict{str('t'): dict{str('__type__'): str('variable'), str('dims'): list[str('t')], str('data'): dict{str('__type__'): str('array'), str('dtype'): str('datetime64[s]'), str('data'): list[int(0), int(172800)], str('encoding'): dict{str('reference'): str('2000-01-01T00:00:00'), str('units'): str('s')}}, str('attrs'): dict{}}, str('dt'): dict{str('__type__'): str('variable'), str('dims'): list[str('t')], str('data'): dict{str('__type__'): str('array'), str('dtype'): str('timedelta64[D]'), str('data'): list[int(0), int(2)], str('encoding'): dict{str('units'): str('D')}}, str('attrs'): dict{str('a'): tuple[int(1), int(2)]}}, str('sub'): tuple[str('GROUP'), str('/sub')], str('x'): dict{str('__type__'): str('variable'), str('dims'): list[str('x')], str('data'): dict{str('__type__'): str('array'), str('dtype'): str('float64'), str('data'): list[float(1.0), float(2.0)], str('encoding'): dict{}}, str('attrs'): dict{}}}, str('path'): str('/'), str('attrs'): dict{str('shape'): tuple[int(2), int(3)], str('list'): list[int(1), tuple[int(2), int(3)]]}}, tuple[str('GROUP'), str('/')], dict{str('__type__'): str('group'), str('url'): str('s3://bucket/scene'), str('data'): dict{str('t'): dict{str('__type__'): str('variable'), str('dims'): list[str('t')], str('data'): str('ARRAY'), str('attrs'): dict{}}, str('dt'): dict{str('__type__'): str('variable'), str('dims'): list[str('t')], str('data'): str('ARRAY'), str('attrs'): dict{str('a'): tuple[int(1), int(2)]}}, str('sub'): dict{str('__type__'): str('group'), str('url'): str('s3://bucket/scene'), str('data'): dict{str('img'): dict{str('__type__'): str('variable'), str('dims'): list[str('rows'), str('cols')], str('data'): str('ARRAY'), str('attrs'): dict{str('units'): str('dn')}}, str('deeper'): dict{str('__type__'): str('group'), str('url'): str('file:///other'), str('data'): dict{str('z'): dict{str('__type__'): str('variable'), str('dims'): list[str('z')], str('data'): str('ARRAY'), str('attrs'): dict{}}, str('empty'): dict{str('__type__'): str('group'), str('url'): str('file:///other'), str('data'): dict{}, str('path'): str('/sub/deeper/empty'), str('attrs'): dict{}}}, str('path'): str('/sub/deeper'), str('attrs'): dict{str('level'): int(3), str('nested'): dict{str('t'): tuple[int(1), tuple[int(2), int(3)]]}}}}, str('path'): str('/sub'), str('attrs'): dict{str('n'): int(1)}}, str('x'): dict{str('__type__'): str('variable'), str('dims'): list[str('x')], str('data'): str('ARRAY'), str('attrs'): dict{}}}, str('path'): str('/'), str('attrs'): dict{str('shape'): tuple[int(2), int(3)], str('list'): list[int(1), tuple[int(2), int(3)]]}}, dict{str('a'): str('P'), str('b'): str('P')}, list[str('P'), str('P'), str('P')], dict{str('__type__'): str('tuple'), str('data'): list[str('P'), str('P')]}, int(5)]",
    'json': 'list[str(\'{"__type__": "group", "url": "s3://bucket/scene", "data": {"t": {"__type__": "variable", "dims": ["t"], "data": {"__type__": "array", "dtype": "datetime64[s]", "data": [0, 172800], "encoding": {"reference": "2000-01-01T00:00:00", "units": "s"}}, "attrs": {}}, "dt": {"__type__": "variable", "dims": ["t"], "data": {"__type__": "array", "dtype": "timedelta64[D]", "data": [0, 2], "encoding": {"units": "D"}}, "attrs": {"a": {"__type__": "tuple", "data": [1, 2]}}}, "sub": {"__type__": "group", "url": "s3://bucket/scene", "data": {"img": {"__type__": "variable", "dims": ["rows", "cols"], "data": {"__type__": "backend_array", "root": "/path/to", "url": "file", "shape": {"__type__": "tuple", "data": [4, 3]}, "dtype": "int16", "byte_ranges": [{"__type__": "tuple", "data": [5, 10]}, {"__type__": "tuple", "data": [15, 20]}, {"__type__": "tuple", "data": [25, 30]}, {"__type__": "tuple", "data": [35, 40]}], "type_code": "IU2"}, "attrs": {"units": "dn"}}, "deeper": {"__type__": "group", "url": "file:///other", "data": {"z": {"__type__": "variable", "dims": ["z"], "data": {"__type__": "array", "dtype": "float64", "data": [1.5], "encoding": {}}, "attrs": {}}, "empty": {"__type__": "group", "url": "file:///other", "data": {}, "path": "/sub/deeper/empty", "attrs": {}}}, "path": "/sub/deeper", "attrs": {"level": 3, "nested": {"t": {"__type__": "tuple", "data": [1, {"__type__": "tuple", "data": [2, 3]}]}}}}}, "path": "/sub", "attrs": {"n": 1}}, "x": {"__type__": "variable", "dims": ["x"], "data": {"__type__": "array", "dtype": "float64", "data": [1.0, 2.0], "encoding": {}}, "attrs": {}}}, "path": "/", "attrs": {"shape": {"__type__": "tuple", "data": [2, 3]}, "list": [1, {"__type__": "tuple", "data": [2, 3]}]}}\'), bool(True), str(\'{"__type__": "variable", "dims": ["x"], "data": {"__type__": "array", "dtype": "int64", "data": [1, 2], "encoding": {}}, "attrs": {"t": {"__type__": "tuple", "data": [1, {"__type__": "tuple", "data": [2]}]}}}\'), str(\'{"plain": {"__type__": "tuple", "data": [1, 2]}}\'), str(\'[{"__type__": "tuple", "data": [1]}, null]\')]',
    'encode_group/no-argument': "raised TypeError: encode_group() missing 1 required positional argument: 'group'",
    'encode_group/keyword': "dict{str('__type__'): str('group'), str('url'): str('u'), str('data'): dict{str('b'): dict{str('__type__'): str('variable'), str('dims'): list[str('b')], str('data'): dict{str('__type__'): str('array'), str('dtype'): str('int64'), str('data'): list[int(1), int(2)], str('encoding'): dict{}}, str('attrs'): dict{}}, str('a'): dict{str('__type__'): str('variable'), str('dims'): list[str('a')], str('data'): dict{str('__type__'): str('array'), str('dtype'): str('float64'), str('data'): list[float(2.5)], str('encoding'): dict{}}, str('attrs'): dict{str('k'): str('v')}}}, str('path'): str('/'), str('attrs'): dict{}}",
    'encode_hierarchy/keyword': 'int(5)',
    'preprocess/keyword': "dict{str('__type__'): str('tuple'), str('data'): list[int(1)]}",
    'preprocess/no-argument': "raised TypeError: preprocess() missing 1 required positional argument: 'data'",
}


if __name__ == "__main__":
    if "--record" in sys.argv:
        print("EXPECTED = {")
        for key, value in run_cases().items():
            print(f"    {key!r}: {value!r},")
        print("}")
    else:
        print(f"{check()} cases identical to the recorded behaviour")
