"""Equivalence check for refactoring 2: ceos_alos2.transformers.as_group.

EXPECTED was recorded from the unchanged code (HEAD); the script must pass with and
without _eq/2/patch.diff.  Run `python equiv.py` or `pytest equiv.py`.
"""
import pprint
import sys

import numpy as np

from ceos_alos2.hierarchy import Group, Variable


def canon(obj):
    """Order-, type- and value-preserving description of a result."""
    if isinstance(obj, Group):
        return ("Group", obj.path, obj.url, canon(obj.data), canon(obj.attrs))
    if isinstance(obj, Variable):
        return ("Variable", canon(obj.dims), canon(obj.data), canon(obj.attrs))
    if isinstance(obj, np.ndarray):
        return ("ndarray", str(obj.dtype), obj.shape, [str(v) for v in obj.ravel().tolist()])
    if isinstance(obj, np.generic):
        return (type(obj).__name__, str(obj.dtype), str(obj))
    if isinstance(obj, dict):
        return (type(obj).__name__, [(canon(k), canon(v)) for k, v in obj.items()])
    if isinstance(obj, (list, tuple)):
        return (type(obj).__name__, [canon(v) for v in obj])
    return (type(obj).__name__, repr(obj))


def observe(func, *args, **kwargs):
    try:
        result = func(*args, **kwargs)
    except Exception as e:  # noqa: BLE001
        return ("raises", type(e).__name__, str(e))
    return ("returns", canon(result))


def main(run_cases, expected):
    observed = [repr(o) for o in run_cases()]
    if "--record" in sys.argv:
        pprint.pprint(observed, width=100)
        return
    assert len(observed) == len(expected), (len(observed), len(expected))
    for index, (obs, exp) in enumerate(zip(observed, expected)):
        assert obs == exp, f"case {index}:\n  observed {obs}\n  expected {exp}"
    print(f"equiv OK: {len(observed)} cases")


from ceos_alos2 import transformers
from ceos_alos2.sar_leader import (
    attitude,
    data_quality_summary,
    dataset_summary,
    platform_position,
    radiometric_data,
)

CASES = [
    {},
    ({}, {}),
    ({}, {"a": 1}),
    {"a": 1, "b": "x", "c": None, "d": 1.5, "e": b"raw", "f": 1 + 2j},
    ({"a": 1, "b": 2}, {"b": 3, "c": 4}),
    # variables: 2-tuples, 3-tuples and lists
    {"a": (1, {"units": "m"})},
    {"a": ("x", [1, 2], {"units": "m"})},
    {"a": (["x", "y"], [[1, 2], [3, 4]], {})},
    {"a": [1, {"units": "m"}]},
    {"a": ["x", [1, 2, 3], {}]},
    {"a": ((), 1, {})},
    {"a": (1.5, {})},
    # groups: dicts and (dict, attrs)
    {"g": {}},
    {"g": {"a": 1}},
    {"g": ({"a": 1}, {"formula": "f"})},
    {"g": ({"a": (1, {"units": "m"})}, {"a": "shadow"})},
    {"g": {"h": {"i": ({"v": ("x", [1], {})}, {"k": 1}), "j": 2}}},
    # interleaving keeps variables before groups, otherwise input order
    {"g1": {}, "v1": (1, {}), "a1": 1, "g2": {"x": 1}, "v2": ("d", [1], {}), "a2": 2},
    ({"g1": {}, "v1": (1, {}), "a1": 1, "g2": ({"x": 1}, {"y": 2})}, {"a1": "over", "z": 0}),
    {"spare1": (0, {}), "blanks": {}},
    # failures
    {"a": ()},
    {"v": (1, {}), "a": ()},
    {"a": (1,)},
    {"a": (1, 2, 3, 4)},
    {"a": []},
    {"a": [1]},
    {"a": [1, 2, 3, 4]},
    {"b": [1], "a": ()},
    {"g": {"a": (1,)}, "v": (1, {})},
    {"g": {"a": ()}, "v": (1,)},
    {"g": ({"a": 1}, None)},
    ({"a": 1}, None),
    ({"a": 1}, [("b", 2)]),
    ({"a": 1},),
    ({"a": 1}, {}, {}),
    (),
    (None, {}),
    ([], {}),
    None,
    [],
    [("a", 1)],
    1,
    {"g": ({}, {}, {})},
    {"g": ({"a": 1}, "attrs")},
    {"a": (1, None)},
    {"a": ("x", 1, None)},
    {1: 2, None: (1, {}), (1, 2): {}},
]

ATTITUDE = {
    "data_points": [
        {
            "time": {"day_of_year": 10 + i, "millisecond_of_day": 1000 * i},
            "attitude": {
                "pitch_error": i % 2,
                "roll_error": 0,
                "yaw_error": 1,
                "pitch": (0.5 * i, {"units": "deg"}),
                "roll": (1.5 * i, {"units": "deg"}),
                "yaw": (2.5 * i, {"units": "deg"}),
            },
            "rates": {
                "pitch_error": 0,
                "roll_error": i % 2,
                "yaw_error": 0,
                "pitch": (0.1 * i, {"units": "deg/s"}),
                "roll": (0.2 * i, {"units": "deg/s"}),
                "yaw": (0.3 * i, {"units": "deg/s"}),
            },
        }
        for i in range(3)
    ]
}
RADIOMETRIC = {
    "preamble": {},
    "calibration_factor": (-83.0, {"formula": "f", "I": "i", "Q": "q", "DN": "dn"}),
    "distortion_matrix": (
        {
            "transmission": {"dt11": 1 + 0j, "dt12": 0.5j, "dt21": -0.5j, "dt22": 1 + 0j},
            "reception": {"dr11": 1 + 0j, "dr12": 0.25j, "dr21": -0.25j, "dr22": 1 + 0j},
        },
        {"formula": "Z"},
    ),
    "blanks": "",
}
QUALITY = {
    "preamble": {},
    "record_number": 1,
    "sar_channel_id": "A",
    "number_of_channels": 2,
    "absolute_radiometric_data_quality": {
        "islr": (1.0, {"units": "dB"}),
        "azimuth_ambiguity_rate": 0.5,
        "nominal_absolute_radiometric_calibration_uncertainty": {
            "magnitude": (1.0, {"units": "dB"}),
            "phase": (2.0, {"units": "deg"}),
        },
    },
    "relative_radiometric_quality": {
        "nominal_relative_radiometric_calibration_uncertainty": [
            {"magnitude": (1.0, {"units": "dB"}), "phase": (2.0, {"units": "deg"})},
            {"magnitude": (3.0, {"units": "dB"}), "phase": (4.0, {"units": "deg"})},
        ],
        "blanks": "",
    },
    "relative_geometric_quality": {
        "relative_misregistration_error": [
            {"along_track": (1.0, {"units": "m"}), "across_track": (2.0, {"units": "m"})},
            {"along_track": (3.0, {"units": "m"}), "across_track": (4.0, {"units": "m"})},
        ],
        "blanks": "",
    },
}
POSITION = {
    "preamble": {},
    "orbital_elements_designator": "high_precision",
    "orbital_elements": {"position": {"x": (1.0, {"units": "m"})}},
    "number_of_data_points": 2,
    "datetime_of_first_point": {"date": "2020  01  02", "day_of_year": 2, "seconds_of_day": 3.5},
    "time_interval_between_data_points": (60.0, {"units": "s"}),
    "positions": [
        {"position": {"x": (float(i), {"units": "m"})}, "velocity": {"x": (-float(i), {"units": "m/s"})}}
        for i in range(2)
    ],
    "occurrence_flag_of_a_leap_second": 0,
    "blanks2": "",
}
SUMMARY = {
    "preamble": {},
    "scene_id": "ALOS2",
    "scene_center_time": "20201011172137740000",
    "spare1": "",
    "geodetic_latitude": (1.5, {"units": "deg"}),
    "incidence_angle": ({"a0": (0, {"units": "rad"})}, {"formula": "f"}),
}


def run_cases():
    results = []
    for case in CASES:
        results.append(observe(transformers.as_group, case))
    # through the record transformers that end in as_group
    results.append(observe(attitude.transform_attitude, ATTITUDE))
    results.append(observe(radiometric_data.transform_radiometric_data, RADIOMETRIC))
    results.append(observe(data_quality_summary.transform_data_quality_summary, QUALITY))
    results.append(observe(platform_position.transform_platform_position, POSITION))
    results.append(observe(dataset_summary.transform_dataset_summary, SUMMARY))
    # the input mapping is not modified and dict results are fresh
    attrs = {"k": 1}
    source = {"a": 1, "v": (1, {"units": "m"}), "g": ({"b": 2}, attrs)}
    snapshot = repr(source)
    group = transformers.as_group(source)
    results.append(("unmodified", repr(source) == snapshot, group["g"].attrs is attrs))
    extra = {}
    group = transformers.as_group(({"a": 1}, extra))
    results.append(("fresh-attrs", group.attrs is extra, extra == {}))
    return results


EXPECTED = ["('returns', ('Group', '/', None, ('dict', []), ('dict', [])))",
 "('returns', ('Group', '/', None, ('dict', []), ('dict', [])))",
 '(\'returns\', (\'Group\', \'/\', None, (\'dict\', []), (\'dict\', [((\'str\', "\'a\'"), '
 "('int', '1'))])))",
 '(\'returns\', (\'Group\', \'/\', None, (\'dict\', []), (\'dict\', [((\'str\', "\'a\'"), '
 '(\'int\', \'1\')), ((\'str\', "\'b\'"), (\'str\', "\'x\'")), ((\'str\', "\'c\'"), (\'NoneType\', '
 '\'None\')), ((\'str\', "\'d\'"), (\'float\', \'1.5\')), ((\'str\', "\'e\'"), (\'bytes\', '
 '"b\'raw\'")), ((\'str\', "\'f\'"), (\'complex\', \'(1+2j)\'))])))',
 '(\'returns\', (\'Group\', \'/\', None, (\'dict\', []), (\'dict\', [((\'str\', "\'a\'"), '
 '(\'int\', \'1\')), ((\'str\', "\'b\'"), (\'int\', \'3\')), ((\'str\', "\'c\'"), (\'int\', '
 "'4'))])))",
 '(\'returns\', (\'Group\', \'/\', None, (\'dict\', [((\'str\', "\'a\'"), (\'Variable\', '
 '(\'tuple\', []), (\'int\', \'1\'), (\'dict\', [((\'str\', "\'units\'"), (\'str\', '
 '"\'m\'"))])))]), (\'dict\', [])))',
 '(\'returns\', (\'Group\', \'/\', None, (\'dict\', [((\'str\', "\'a\'"), (\'Variable\', '
 '(\'list\', [(\'str\', "\'x\'")]), (\'list\', [(\'int\', \'1\'), (\'int\', \'2\')]), (\'dict\', '
 '[((\'str\', "\'units\'"), (\'str\', "\'m\'"))])))]), (\'dict\', [])))',
 '(\'returns\', (\'Group\', \'/\', None, (\'dict\', [((\'str\', "\'a\'"), (\'Variable\', '
 '(\'list\', [(\'str\', "\'x\'"), (\'str\', "\'y\'")]), (\'list\', [(\'list\', [(\'int\', \'1\'), '
 "('int', '2')]), ('list', [('int', '3'), ('int', '4')])]), ('dict', [])))]), ('dict', [])))",
 '(\'returns\', (\'Group\', \'/\', None, (\'dict\', [((\'str\', "\'a\'"), (\'Variable\', '
 '(\'tuple\', []), (\'int\', \'1\'), (\'dict\', [((\'str\', "\'units\'"), (\'str\', '
 '"\'m\'"))])))]), (\'dict\', [])))',
 '(\'returns\', (\'Group\', \'/\', None, (\'dict\', [((\'str\', "\'a\'"), (\'Variable\', '
 '(\'list\', [(\'str\', "\'x\'")]), (\'list\', [(\'int\', \'1\'), (\'int\', \'2\'), (\'int\', '
 "'3')]), ('dict', [])))]), ('dict', [])))",
 '(\'returns\', (\'Group\', \'/\', None, (\'dict\', [((\'str\', "\'a\'"), (\'Variable\', '
 "('tuple', []), ('int', '1'), ('dict', [])))]), ('dict', [])))",
 '(\'returns\', (\'Group\', \'/\', None, (\'dict\', [((\'str\', "\'a\'"), (\'Variable\', '
 "('tuple', []), ('float', '1.5'), ('dict', [])))]), ('dict', [])))",
 '(\'returns\', (\'Group\', \'/\', None, (\'dict\', [((\'str\', "\'g\'"), (\'Group\', \'/g\', '
 "None, ('dict', []), ('dict', [])))]), ('dict', [])))",
 '(\'returns\', (\'Group\', \'/\', None, (\'dict\', [((\'str\', "\'g\'"), (\'Group\', \'/g\', '
 'None, (\'dict\', []), (\'dict\', [((\'str\', "\'a\'"), (\'int\', \'1\'))])))]), (\'dict\', [])))',
 '(\'returns\', (\'Group\', \'/\', None, (\'dict\', [((\'str\', "\'g\'"), (\'Group\', \'/g\', '
 'None, (\'dict\', []), (\'dict\', [((\'str\', "\'a\'"), (\'int\', \'1\')), ((\'str\', '
 '"\'formula\'"), (\'str\', "\'f\'"))])))]), (\'dict\', [])))',
 '(\'returns\', (\'Group\', \'/\', None, (\'dict\', [((\'str\', "\'g\'"), (\'Group\', \'/g\', '
 'None, (\'dict\', [((\'str\', "\'a\'"), (\'Variable\', (\'tuple\', []), (\'int\', \'1\'), '
 '(\'dict\', [((\'str\', "\'units\'"), (\'str\', "\'m\'"))])))]), (\'dict\', [((\'str\', "\'a\'"), '
 '(\'str\', "\'shadow\'"))])))]), (\'dict\', [])))',
 '(\'returns\', (\'Group\', \'/\', None, (\'dict\', [((\'str\', "\'g\'"), (\'Group\', \'/g\', '
 'None, (\'dict\', [((\'str\', "\'h\'"), (\'Group\', \'/g/h\', None, (\'dict\', [((\'str\', '
 '"\'i\'"), (\'Group\', \'/g/h/i\', None, (\'dict\', [((\'str\', "\'v\'"), (\'Variable\', '
 '(\'list\', [(\'str\', "\'x\'")]), (\'list\', [(\'int\', \'1\')]), (\'dict\', [])))]), (\'dict\', '
 '[((\'str\', "\'k\'"), (\'int\', \'1\'))])))]), (\'dict\', [((\'str\', "\'j\'"), (\'int\', '
 "'2'))])))]), ('dict', [])))]), ('dict', [])))",
 '(\'returns\', (\'Group\', \'/\', None, (\'dict\', [((\'str\', "\'v1\'"), (\'Variable\', '
 '(\'tuple\', []), (\'int\', \'1\'), (\'dict\', []))), ((\'str\', "\'v2\'"), (\'Variable\', '
 '(\'list\', [(\'str\', "\'d\'")]), (\'list\', [(\'int\', \'1\')]), (\'dict\', []))), ((\'str\', '
 '"\'g1\'"), (\'Group\', \'/g1\', None, (\'dict\', []), (\'dict\', []))), ((\'str\', "\'g2\'"), '
 '(\'Group\', \'/g2\', None, (\'dict\', []), (\'dict\', [((\'str\', "\'x\'"), (\'int\', '
 '\'1\'))])))]), (\'dict\', [((\'str\', "\'a1\'"), (\'int\', \'1\')), ((\'str\', "\'a2\'"), '
 "('int', '2'))])))",
 '(\'returns\', (\'Group\', \'/\', None, (\'dict\', [((\'str\', "\'v1\'"), (\'Variable\', '
 '(\'tuple\', []), (\'int\', \'1\'), (\'dict\', []))), ((\'str\', "\'g1\'"), (\'Group\', \'/g1\', '
 'None, (\'dict\', []), (\'dict\', []))), ((\'str\', "\'g2\'"), (\'Group\', \'/g2\', None, '
 '(\'dict\', []), (\'dict\', [((\'str\', "\'x\'"), (\'int\', \'1\')), ((\'str\', "\'y\'"), '
 '(\'int\', \'2\'))])))]), (\'dict\', [((\'str\', "\'a1\'"), (\'str\', "\'over\'")), ((\'str\', '
 '"\'z\'"), (\'int\', \'0\'))])))',
 '(\'returns\', (\'Group\', \'/\', None, (\'dict\', [((\'str\', "\'spare1\'"), (\'Variable\', '
 '(\'tuple\', []), (\'int\', \'0\'), (\'dict\', []))), ((\'str\', "\'blanks\'"), (\'Group\', '
 "'/blanks', None, ('dict', []), ('dict', [])))]), ('dict', [])))",
 "('raises', 'IndexError', 'tuple index out of range')",
 "('raises', 'IndexError', 'tuple index out of range')",
 "('raises', 'ValueError', 'not enough values to unpack (expected 3, got 1)')",
 "('raises', 'ValueError', 'too many values to unpack (expected 3)')",
 "('raises', 'ValueError', 'not enough values to unpack (expected 3, got 0)')",
 "('raises', 'ValueError', 'not enough values to unpack (expected 3, got 1)')",
 "('raises', 'ValueError', 'too many values to unpack (expected 3)')",
 "('raises', 'IndexError', 'tuple index out of range')",
 "('raises', 'ValueError', 'not enough values to unpack (expected 3, got 1)')",
 "('raises', 'ValueError', 'not enough values to unpack (expected 3, got 1)')",
 '(\'raises\', \'TypeError\', "unsupported operand type(s) for |: \'dict\' and \'NoneType\'")',
 '(\'raises\', \'TypeError\', "unsupported operand type(s) for |: \'dict\' and \'NoneType\'")',
 '(\'raises\', \'TypeError\', "unsupported operand type(s) for |: \'dict\' and \'list\'")',
 "('raises', 'ValueError', 'not enough values to unpack (expected 2, got 1)')",
 "('raises', 'ValueError', 'too many values to unpack (expected 2)')",
 "('raises', 'ValueError', 'not enough values to unpack (expected 2, got 0)')",
 '(\'raises\', \'AttributeError\', "\'NoneType\' object has no attribute \'items\'")',
 '(\'raises\', \'AttributeError\', "\'list\' object has no attribute \'items\'")',
 '(\'raises\', \'AttributeError\', "\'NoneType\' object has no attribute \'items\'")',
 '(\'raises\', \'AttributeError\', "\'list\' object has no attribute \'items\'")',
 '(\'raises\', \'AttributeError\', "\'list\' object has no attribute \'items\'")',
 '(\'raises\', \'AttributeError\', "\'int\' object has no attribute \'items\'")',
 "('raises', 'ValueError', 'too many values to unpack (expected 2)')",
 '(\'raises\', \'TypeError\', "unsupported operand type(s) for |: \'dict\' and \'str\'")',
 '(\'returns\', (\'Group\', \'/\', None, (\'dict\', [((\'str\', "\'a\'"), (\'Variable\', '
 "('tuple', []), ('int', '1'), ('NoneType', 'None')))]), ('dict', [])))",
 '(\'returns\', (\'Group\', \'/\', None, (\'dict\', [((\'str\', "\'a\'"), (\'Variable\', '
 '(\'list\', [(\'str\', "\'x\'")]), (\'int\', \'1\'), (\'NoneType\', \'None\')))]), (\'dict\', '
 '[])))',
 '(\'raises\', \'TypeError\', "join() argument must be str, bytes, or os.PathLike object, not '
 '\'tuple\'")',
 '(\'returns\', (\'Group\', \'/\', None, (\'dict\', [((\'str\', "\'attitude\'"), (\'Group\', '
 '\'/attitude\', None, (\'dict\', [((\'str\', "\'pitch_error\'"), (\'Variable\', (\'list\', '
 '[(\'str\', "\'points\'")]), (\'list\', [(\'bool\', \'False\'), (\'bool\', \'True\'), (\'bool\', '
 '\'False\')]), (\'dict\', []))), ((\'str\', "\'roll_error\'"), (\'Variable\', (\'list\', '
 '[(\'str\', "\'points\'")]), (\'list\', [(\'bool\', \'False\'), (\'bool\', \'False\'), (\'bool\', '
 '\'False\')]), (\'dict\', []))), ((\'str\', "\'yaw_error\'"), (\'Variable\', (\'list\', '
 '[(\'str\', "\'points\'")]), (\'list\', [(\'bool\', \'True\'), (\'bool\', \'True\'), (\'bool\', '
 '\'True\')]), (\'dict\', []))), ((\'str\', "\'pitch\'"), (\'Variable\', (\'list\', [(\'str\', '
 '"\'points\'")]), (\'list\', [(\'float\', \'0.0\'), (\'float\', \'0.5\'), (\'float\', \'1.0\')]), '
 '(\'dict\', [((\'str\', "\'units\'"), (\'str\', "\'deg\'"))]))), ((\'str\', "\'roll\'"), '
 '(\'Variable\', (\'list\', [(\'str\', "\'points\'")]), (\'list\', [(\'float\', \'0.0\'), '
 '(\'float\', \'1.5\'), (\'float\', \'3.0\')]), (\'dict\', [((\'str\', "\'units\'"), (\'str\', '
 '"\'deg\'"))]))), ((\'str\', "\'yaw\'"), (\'Variable\', (\'list\', [(\'str\', "\'points\'")]), '
 "('list', [('float', '0.0'), ('float', '2.5'), ('float', '5.0')]), ('dict', [(('str', "
 '"\'units\'"), (\'str\', "\'deg\'"))]))), ((\'str\', "\'time\'"), (\'Variable\', (\'list\', '
 '[(\'str\', "\'points\'")]), (\'ndarray\', \'timedelta64[ns]\', (3,), [\'864000000000000\', '
 "'950401000000000', '1036802000000000']), ('dict', [])))]), ('dict', [(('str', "
 '"\'coordinates\'"), (\'list\', [(\'str\', "\'time\'")]))]))), ((\'str\', "\'rates\'"), '
 '(\'Group\', \'/rates\', None, (\'dict\', [((\'str\', "\'pitch_error\'"), (\'Variable\', '
 '(\'list\', [(\'str\', "\'points\'")]), (\'list\', [(\'bool\', \'False\'), (\'bool\', \'False\'), '
 '(\'bool\', \'False\')]), (\'dict\', []))), ((\'str\', "\'roll_error\'"), (\'Variable\', '
 '(\'list\', [(\'str\', "\'points\'")]), (\'list\', [(\'bool\', \'False\'), (\'bool\', \'True\'), '
 '(\'bool\', \'False\')]), (\'dict\', []))), ((\'str\', "\'yaw_error\'"), (\'Variable\', '
 '(\'list\', [(\'str\', "\'points\'")]), (\'list\', [(\'bool\', \'False\'), (\'bool\', \'False\'), '
 '(\'bool\', \'False\')]), (\'dict\', []))), ((\'str\', "\'pitch\'"), (\'Variable\', (\'list\', '
 '[(\'str\', "\'points\'")]), (\'list\', [(\'float\', \'0.0\'), (\'float\', \'0.1\'), (\'float\', '
 '\'0.2\')]), (\'dict\', [((\'str\', "\'units\'"), (\'str\', "\'deg/s\'"))]))), ((\'str\', '
 '"\'roll\'"), (\'Variable\', (\'list\', [(\'str\', "\'points\'")]), (\'list\', [(\'float\', '
 '\'0.0\'), (\'float\', \'0.2\'), (\'float\', \'0.4\')]), (\'dict\', [((\'str\', "\'units\'"), '
 '(\'str\', "\'deg/s\'"))]))), ((\'str\', "\'yaw\'"), (\'Variable\', (\'list\', [(\'str\', '
 '"\'points\'")]), (\'list\', [(\'float\', \'0.0\'), (\'float\', \'0.3\'), (\'float\', \'0.6\')]), '
 '(\'dict\', [((\'str\', "\'units\'"), (\'str\', "\'deg/s\'"))]))), ((\'str\', "\'time\'"), '
 '(\'Variable\', (\'list\', [(\'str\', "\'points\'")]), (\'ndarray\', \'timedelta64[ns]\', (3,), '
 "['864000000000000', '950401000000000', '1036802000000000']), ('dict', [])))]), ('dict', "
 '[((\'str\', "\'coordinates\'"), (\'list\', [(\'str\', "\'time\'")]))])))]), (\'dict\', [])))',
 '(\'returns\', (\'Group\', \'/\', None, (\'dict\', [((\'str\', "\'calibration_factor\'"), '
 '(\'Variable\', (\'tuple\', []), (\'float\', \'-83.0\'), (\'dict\', [((\'str\', "\'formula\'"), '
 '(\'str\', "\'f\'")), ((\'str\', "\'I\'"), (\'str\', "\'i\'")), ((\'str\', "\'Q\'"), (\'str\', '
 '"\'q\'")), ((\'str\', "\'DN\'"), (\'str\', "\'dn\'"))]))), ((\'str\', "\'distortion_matrix\'"), '
 '(\'Group\', \'/distortion_matrix\', None, (\'dict\', [((\'str\', "\'transmission\'"), '
 '(\'Variable\', (\'list\', [(\'str\', "\'i\'"), (\'str\', "\'j\'")]), (\'list\', [(\'list\', '
 "[('complex', '(1+0j)'), ('complex', '0.5j')]), ('list', [('complex', '(-0-0.5j)'), ('complex', "
 '\'(1+0j)\')])]), (\'dict\', []))), ((\'str\', "\'reception\'"), (\'Variable\', (\'list\', '
 '[(\'str\', "\'i\'"), (\'str\', "\'j\'")]), (\'list\', [(\'list\', [(\'complex\', \'(1+0j)\'), '
 "('complex', '0.25j')]), ('list', [('complex', '(-0-0.25j)'), ('complex', '(1+0j)')])]), ('dict', "
 '[]))), ((\'str\', "\'i\'"), (\'Variable\', (\'list\', [(\'str\', "\'i\'")]), (\'list\', '
 '[(\'str\', "\'horizontal\'"), (\'str\', "\'vertical\'")]), (\'dict\', [((\'str\', '
 '"\'long_name\'"), (\'str\', "\'reception polarization\'"))]))), ((\'str\', "\'j\'"), '
 '(\'Variable\', (\'list\', [(\'str\', "\'j\'")]), (\'list\', [(\'str\', "\'horizontal\'"), '
 '(\'str\', "\'vertical\'")]), (\'dict\', [((\'str\', "\'long_name\'"), (\'str\', "\'transmission '
 'polarization\'"))])))]), (\'dict\', [((\'str\', "\'formula\'"), (\'str\', "\'Z\'"))])))]), '
 "('dict', [])))",
 "('returns', ('Group', '/', None, ('dict', [(('str', "
 '"\'absolute_radiometric_data_quality\'"), (\'Group\', \'/absolute_radiometric_data_quality\', '
 'None, (\'dict\', [((\'str\', "\'islr\'"), (\'Variable\', (\'tuple\', []), (\'float\', \'1.0\'), '
 '(\'dict\', [((\'str\', "\'units\'"), (\'str\', "\'dB\'"))]))), ((\'str\', '
 '"\'nominal_absolute_radiometric_calibration_uncertainty\'"), (\'Group\', '
 "'/absolute_radiometric_data_quality/nominal_absolute_radiometric_calibration_uncertainty', None, "
 '(\'dict\', [((\'str\', "\'magnitude\'"), (\'Variable\', (\'tuple\', []), (\'float\', \'1.0\'), '
 '(\'dict\', [((\'str\', "\'units\'"), (\'str\', "\'dB\'"))]))), ((\'str\', "\'phase\'"), '
 '(\'Variable\', (\'tuple\', []), (\'float\', \'2.0\'), (\'dict\', [((\'str\', "\'units\'"), '
 '(\'str\', "\'deg\'"))])))]), (\'dict\', [])))]), (\'dict\', [((\'str\', '
 '"\'azimuth_ambiguity_rate\'"), (\'float\', \'0.5\'))]))), ((\'str\', '
 '"\'relative_radiometric_quality\'"), (\'Group\', \'/relative_radiometric_quality\', None, '
 '(\'dict\', [((\'str\', "\'magnitude\'"), (\'Variable\', (\'list\', [(\'str\', "\'channel\'")]), '
 '(\'list\', [(\'float\', \'1.0\'), (\'float\', \'3.0\')]), (\'dict\', [((\'str\', "\'units\'"), '
 '(\'str\', "\'dB\'"))]))), ((\'str\', "\'phase\'"), (\'Variable\', (\'list\', [(\'str\', '
 '"\'channel\'")]), (\'list\', [(\'float\', \'2.0\'), (\'float\', \'4.0\')]), (\'dict\', '
 '[((\'str\', "\'units\'"), (\'str\', "\'deg\'"))])))]), (\'dict\', []))), ((\'str\', '
 '"\'relative_geometric_quality\'"), (\'Group\', \'/relative_geometric_quality\', None, (\'dict\', '
 '[((\'str\', "\'along_track\'"), (\'Variable\', (\'list\', [(\'str\', "\'channel\'")]), '
 '(\'list\', [(\'float\', \'1.0\'), (\'float\', \'3.0\')]), (\'dict\', [((\'str\', "\'units\'"), '
 '(\'str\', "\'m\'"))]))), ((\'str\', "\'across_track\'"), (\'Variable\', (\'list\', [(\'str\', '
 '"\'channel\'")]), (\'list\', [(\'float\', \'2.0\'), (\'float\', \'4.0\')]), (\'dict\', '
 '[((\'str\', "\'units\'"), (\'str\', "\'m\'"))])))]), (\'dict\', [])))]), (\'dict\', [((\'str\', '
 '"\'sar_channel_id\'"), (\'str\', "\'A\'")), ((\'str\', "\'number_of_channels\'"), (\'int\', '
 "'2'))])))",
 '(\'returns\', (\'Group\', \'/\', None, (\'dict\', [((\'str\', "\'sampling_frequency\'"), '
 '(\'Variable\', (\'tuple\', []), (\'float\', \'60.0\'), (\'dict\', [((\'str\', "\'units\'"), '
 '(\'str\', "\'s\'"))]))), ((\'str\', "\'orbital_elements\'"), (\'Group\', \'/orbital_elements\', '
 'None, (\'dict\', [((\'str\', "\'position\'"), (\'Group\', \'/orbital_elements/position\', None, '
 '(\'dict\', [((\'str\', "\'x\'"), (\'Variable\', (\'tuple\', []), (\'float\', \'1.0\'), '
 '(\'dict\', [((\'str\', "\'units\'"), (\'str\', "\'m\'"))])))]), (\'dict\', [])))]), (\'dict\', '
 '[((\'str\', "\'type\'"), (\'str\', "\'high_precision\'"))]))), ((\'str\', "\'positions\'"), '
 '(\'Group\', \'/positions\', None, (\'dict\', [((\'str\', "\'position\'"), (\'Group\', '
 '\'/positions/position\', None, (\'dict\', [((\'str\', "\'x\'"), (\'Variable\', (\'list\', '
 '[(\'str\', "\'positions\'")]), (\'list\', [(\'float\', \'0.0\'), (\'float\', \'1.0\')]), '
 '(\'dict\', [((\'str\', "\'units\'"), (\'str\', "\'m\'"))])))]), (\'dict\', []))), ((\'str\', '
 '"\'velocity\'"), (\'Group\', \'/positions/velocity\', None, (\'dict\', [((\'str\', "\'x\'"), '
 '(\'Variable\', (\'list\', [(\'str\', "\'positions\'")]), (\'list\', [(\'float\', \'-0.0\'), '
 '(\'float\', \'-1.0\')]), (\'dict\', [((\'str\', "\'units\'"), (\'str\', "\'m/s\'"))])))]), '
 '(\'dict\', [])))]), (\'dict\', [])))]), (\'dict\', [((\'str\', "\'datetime_of_first_point\'"), '
 '(\'str\', "\'2020-01-02T00:00:03.500000\'")), ((\'str\', "\'leap_second\'"), (\'bool\', '
 "'False'))])))",
 '(\'returns\', (\'Group\', \'/\', None, (\'dict\', [((\'str\', "\'geodetic_latitude\'"), '
 '(\'Variable\', (\'tuple\', []), (\'float\', \'1.5\'), (\'dict\', [((\'str\', "\'units\'"), '
 '(\'str\', "\'deg\'"))]))), ((\'str\', "\'incidence_angle\'"), (\'Group\', \'/incidence_angle\', '
 'None, (\'dict\', [((\'str\', "\'a0\'"), (\'Variable\', (\'tuple\', []), (\'int\', \'0\'), '
 '(\'dict\', [((\'str\', "\'units\'"), (\'str\', "\'rad\'"))])))]), (\'dict\', [((\'str\', '
 '"\'formula\'"), (\'str\', "\'f\'"))])))]), (\'dict\', [((\'str\', "\'scene_id\'"), (\'str\', '
 '"\'ALOS2\'")), ((\'str\', "\'scene_center_time\'"), (\'str\', '
 '"\'2020-10-11T17:21:37.740000\'"))])))',
 "('unmodified', True, False)",
 "('fresh-attrs', False, True)"]


def test_equivalence():
    main(run_cases, EXPECTED)


if __name__ == "__main__":
    main(run_cases, EXPECTED)
